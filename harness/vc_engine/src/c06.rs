//! C06 — the state root commits to exactly the reachable state.

use crate::c04::{mutate, MSeed};
use proptest::prelude::*;
use serde::{Deserialize, Serialize};
use std::cell::RefCell;
use std::collections::{BTreeMap, BTreeSet, VecDeque};
use vkit::{prop_sub, vensure, vensure_eq, vfail, Check, Ctx, Fail, Probe, Sub};
use vmodel::universe::*;
use warp_core::wsc::{build_one_warp_input, validate_wsc, write_wsc_one_warp, WscFile};
use warp_core::{EngineBuilder, WarpState, WorldlineState};

/// Reference: the content reachable from the root, as a canonical value.
/// Reachability: from the root node follow edges from -> to; a Descend attachment on a
/// reachable node, or on an edge leaving a reachable node, reaches the child instance's root.
#[derive(Clone, Debug, PartialEq, Eq, PartialOrd, Ord, Serialize, Deserialize)]
pub struct Reach {
    root: (u8, u8),
    /// per reachable warp: (root_node, parent, nodes{n -> (ty, att)}, edges{e -> (from,to,ty,att)})
    warps: BTreeMap<u8, (u8, Option<ASlot>, BTreeMap<u8, (u8, Option<AVal>)>, BTreeMap<u8, (u8, u8, u8, Option<AVal>)>)>,
}

pub fn reach(s: &AState) -> Reach {
    let root = (0u8, s.warps[&0].root_node);
    let mut nodes: BTreeSet<(u8, u8)> = BTreeSet::new();
    let mut warps: BTreeSet<u8> = BTreeSet::new();
    let mut q = VecDeque::new();
    nodes.insert(root);
    warps.insert(0);
    q.push_back(root);
    let descend = |c: u8, nodes: &mut BTreeSet<(u8, u8)>, warps: &mut BTreeSet<u8>, q: &mut VecDeque<(u8, u8)>| {
        warps.insert(c);
        if let Some(cw) = s.warps.get(&c) {
            if nodes.insert((c, cw.root_node)) {
                q.push_back((c, cw.root_node));
            }
        }
    };
    while let Some((w, n)) = q.pop_front() {
        let Some(st) = s.warps.get(&w) else { continue };
        for (e, r) in st.edges.iter().filter(|(_, r)| r.from == n) {
            if nodes.insert((w, r.to)) {
                q.push_back((w, r.to));
            }
            if let Some(AVal::Descend(c)) = st.eatt.get(e) {
                descend(*c, &mut nodes, &mut warps, &mut q);
            }
        }
        if let Some(AVal::Descend(c)) = st.natt.get(&n) {
            descend(*c, &mut nodes, &mut warps, &mut q);
        }
    }
    let mut out = Reach { root, warps: BTreeMap::new() };
    for w in warps {
        let Some(st) = s.warps.get(&w) else { continue };
        let ns = st
            .nodes
            .iter()
            .filter(|(n, _)| nodes.contains(&(w, **n)))
            .map(|(n, t)| (*n, (*t, st.natt.get(n).cloned())))
            .collect();
        let es = st
            .edges
            .iter()
            .filter(|(_, r)| nodes.contains(&(w, r.from)))
            .map(|(e, r)| (*e, (r.from, r.to, r.ty, st.eatt.get(e).cloned())))
            .collect();
        out.warps.insert(w, (st.root_node, st.parent.clone(), ns, es));
    }
    out
}

fn root_key(a: &AState) -> warp_core::NodeKey {
    node_key(0, a.warps[&0].root_node)
}

/// All independent root computations must agree; returns the root.
fn roots(a: &AState, real: &WarpState) -> Result<[u8; 32], Fail> {
    let rk = root_key(a);
    let r_store = warp_core::echo_verif::store_state_root(real, &rk);
    let ws = WorldlineState::new(real.clone(), rk).map_err(|e| Fail::new("C06/harness/worldline-state", format!("{e:?}")))?;
    let r_ws = ws.state_root();
    let engine = EngineBuilder::from_state(real.clone(), rk).build().map_err(|e| Fail::new("C06/harness/engine", format!("{e:?}")))?;
    let r_eng = engine.snapshot().state_root;
    let r_acc = vkit::catch(|| warp_core::echo_verif::accumulator_root(real, &rk))
        .map_err(|m| Fail::new("C06/accumulator-panics-on-wellformed-state", m))?;
    if r_store != r_ws || r_store != r_eng {
        return Err(Fail::new("C06/roots-disagree/worldline-vs-engine", format!("store={} worldline={} engine={}", hex::encode(r_store), hex::encode(r_ws), hex::encode(r_eng))));
    }
    if r_store != r_acc {
        return Err(Fail::new("C06/roots-disagree/accumulator", format!("store root {} != accumulator root {} for {:?}", hex::encode(r_store), hex::encode(r_acc), a)));
    }
    Ok(r_store)
}

thread_local! {
    /// birthday buckets for the whole run of this process: root -> reach hash, reach hash -> root
    static BY_ROOT: RefCell<BTreeMap<[u8; 32], (u64, String)>> = const { RefCell::new(BTreeMap::new()) };
    static BY_REACH: RefCell<BTreeMap<u64, [u8; 32]>> = const { RefCell::new(BTreeMap::new()) };
}

fn bucket(a: &AState, root: [u8; 32]) -> Check {
    let r = reach(a);
    let rs = serde_json::to_string(&r).unwrap();
    let rh = vkit::h64(rs.as_bytes());
    let clash = BY_ROOT.with(|m| {
        let mut m = m.borrow_mut();
        match m.get(&root) {
            Some((h, s)) if *h != rh => Some(s.clone()),
            Some(_) => None,
            None => {
                if m.len() < 400_000 {
                    let keep = m.len() < 20_000;
                    m.insert(root, (rh, if keep { rs.clone() } else { String::new() }));
                }
                None
            }
        }
    });
    if let Some(other) = clash {
        vfail!("C06/root-collision", "two different reachable contents share root {}: {} vs {}", hex::encode(root), rs, other);
    }
    let other_root = BY_REACH.with(|m| {
        let mut m = m.borrow_mut();
        match m.get(&rh) {
            Some(r0) if *r0 != root => Some(*r0),
            Some(_) => None,
            None => {
                if m.len() < 400_000 {
                    m.insert(rh, root);
                }
                None
            }
        }
    });
    if let Some(r0) = other_root {
        vfail!("C06/same-reachable-content-different-root", "reachable content {} hashed to {} and {}", rs, hex::encode(root), hex::encode(r0));
    }
    Ok(())
}

fn wsc_bytes(a: &AState, real: &WarpState) -> Result<BTreeMap<u8, Vec<u8>>, Fail> {
    let mut out = BTreeMap::new();
    for (w, aw) in &a.warps {
        let store = real.store(&warp_id(*w)).ok_or_else(|| Fail::new("C06/harness", "missing store"))?;
        let input = build_one_warp_input(store, node_id(aw.root_node));
        let bytes = write_wsc_one_warp(&input, [7u8; 32], 42).map_err(|e| Fail::new("C06/wsc/write-error", format!("{e}")))?;
        let again = write_wsc_one_warp(&build_one_warp_input(store, node_id(aw.root_node)), [7u8; 32], 42)
            .map_err(|e| Fail::new("C06/wsc/write-error", format!("{e}")))?;
        if bytes != again {
            return Err(Fail::new("C06/wsc/writer-nondeterministic", format!("warp {w}")));
        }
        out.insert(*w, bytes);
    }
    Ok(out)
}

fn wsc_roundtrip(w: u8, aw: &AWarp, bytes: &[u8]) -> Check {
    let file = WscFile::from_bytes(bytes.to_vec()).map_err(|e| Fail::new("C06/wsc/read-error", format!("{e:?}")))?;
    validate_wsc(&file).map_err(|e| Fail::new("C06/wsc/validate-error", format!("warp {w}: {e:?}")))?;
    vensure_eq!(file.warp_count(), 1, "C06/wsc/warp-count", "warp {w}");
    vensure_eq!(file.tick(), 42, "C06/wsc/tick", "warp {w}");
    let v = file.warp_view(0).map_err(|e| Fail::new("C06/wsc/view-error", format!("{e:?}")))?;
    vensure!(*v.warp_id() == warp_id(w).0 && *v.root_node_id() == node_id(aw.root_node).0, "C06/wsc/header-ids", "warp {w}");
    let att = |row: &warp_core::wsc::types::AttRow| -> Option<AVal> {
        if row.is_descend() {
            warp_ix(&warp_core::WarpId(row.type_or_warp)).map(AVal::Descend)
        } else {
            let blob = v.blob_for_attachment(row)?;
            Some(AVal::Atom { ty: type_ix(&warp_core::TypeId(row.type_or_warp))?, bytes: blob.to_vec() })
        }
    };
    let mut back = AWarp { root_node: aw.root_node, parent: aw.parent.clone(), ..Default::default() };
    for (ix, n) in v.nodes().iter().enumerate() {
        let id = node_ix(&warp_core::NodeId(n.node_id)).ok_or_else(|| Fail::new("C06/wsc/foreign-node", "?"))?;
        back.nodes.insert(id, type_ix(&warp_core::TypeId(n.node_type)).ok_or_else(|| Fail::new("C06/wsc/foreign-type", "?"))?);
        let atts = v.node_attachments(ix);
        vensure!(atts.len() <= 1, "C06/wsc/multiple-attachments", "node {id}");
        if let Some(r) = atts.first() {
            back.natt.insert(id, att(r).ok_or_else(|| Fail::new("C06/wsc/attachment-unreadable", format!("node {id}")))?);
        }
        // adjacency index agrees with edge table
        for oe in v.out_edges_for_node(ix) {
            let er = v.edges().get(oe.edge_ix() as usize).ok_or_else(|| Fail::new("C06/wsc/out-edge-index", "out of range"))?;
            vensure!(er.edge_id == oe.edge_id && er.from_node_id == n.node_id, "C06/wsc/out-edge-mismatch", "node {id}");
        }
    }
    for (ix, e) in v.edges().iter().enumerate() {
        let id = edge_ix(&warp_core::EdgeId(e.edge_id)).ok_or_else(|| Fail::new("C06/wsc/foreign-edge", "?"))?;
        back.edges.insert(
            id,
            AEdge {
                from: node_ix(&warp_core::NodeId(e.from_node_id)).ok_or_else(|| Fail::new("C06/wsc/foreign-node", "from"))?,
                to: node_ix(&warp_core::NodeId(e.to_node_id)).ok_or_else(|| Fail::new("C06/wsc/foreign-node", "to"))?,
                ty: type_ix(&warp_core::TypeId(e.edge_type)).ok_or_else(|| Fail::new("C06/wsc/foreign-type", "edge"))?,
            },
        );
        let atts = v.edge_attachments(ix);
        vensure!(atts.len() <= 1, "C06/wsc/multiple-attachments", "edge {id}");
        if let Some(r) = atts.first() {
            back.eatt.insert(id, att(r).ok_or_else(|| Fail::new("C06/wsc/attachment-unreadable", format!("edge {id}")))?);
        }
    }
    if &back != aw {
        vfail!("C06/wsc/roundtrip-differs", "warp {w}: read back {:?}, wrote {:?}", back, aw);
    }
    Ok(())
}

// ---------------------------------------------------------------------------

#[derive(Clone, Debug, Serialize, Deserialize)]
pub enum M6 {
    Base(MSeed),
    SetRoot(u8, u8),
    AtomByte(u8, u8, u8),
    AtomLen(u8, bool),
    AtomType(u8, u8),
    MovePortal(u8, bool, u8),
}

fn m6() -> impl Strategy<Value = M6> {
    prop_oneof![
        6 => crate::c04::mseed_pub().prop_map(M6::Base),
        1 => (any::<u8>(), any::<u8>()).prop_map(|(w, n)| M6::SetRoot(w, n)),
        2 => (any::<u8>(), any::<u8>(), 1u8..=255).prop_map(|(s, i, x)| M6::AtomByte(s, i, x)),
        1 => (any::<u8>(), any::<bool>()).prop_map(|(s, g)| M6::AtomLen(s, g)),
        1 => (any::<u8>(), 0..N_TYPES).prop_map(|(s, t)| M6::AtomType(s, t)),
        1 => (any::<u8>(), any::<bool>(), any::<u8>()).prop_map(|(c, oe, o)| M6::MovePortal(c, oe, o)),
    ]
}

fn atom_slots(s: &AState) -> Vec<ASlot> {
    let mut v = Vec::new();
    for (w, aw) in &s.warps {
        v.extend(aw.natt.iter().filter(|(_, x)| matches!(x, AVal::Atom { .. })).map(|(n, _)| ASlot::Node(*w, *n)));
        v.extend(aw.eatt.iter().filter(|(_, x)| matches!(x, AVal::Atom { .. })).map(|(e, _)| ASlot::Edge(*w, *e)));
    }
    v
}

fn slot_mut<'a>(s: &'a mut AState, slot: &ASlot) -> Option<&'a mut AVal> {
    match slot {
        ASlot::Node(w, n) => s.warps.get_mut(w)?.natt.get_mut(n),
        ASlot::Edge(w, e) => s.warps.get_mut(w)?.eatt.get_mut(e),
    }
}

fn mutate6(s: &mut AState, m: &M6) {
    let before = s.clone();
    match m {
        M6::Base(b) => mutate(s, b),
        M6::SetRoot(wi, n) => {
            let ws: Vec<u8> = s.warps.keys().copied().collect();
            let w = ws[*wi as usize % ws.len()];
            let ns: Vec<u8> = s.warps[&w].nodes.keys().copied().collect();
            s.warps.get_mut(&w).unwrap().root_node = ns[*n as usize % ns.len()];
        }
        M6::AtomByte(si, i, x) => {
            let slots = atom_slots(s);
            if !slots.is_empty() {
                if let Some(AVal::Atom { bytes, .. }) = slot_mut(s, &slots[*si as usize % slots.len()]) {
                    if !bytes.is_empty() {
                        let k = *i as usize % bytes.len();
                        bytes[k] ^= *x;
                    }
                }
            }
        }
        M6::AtomLen(si, grow) => {
            let slots = atom_slots(s);
            if !slots.is_empty() {
                if let Some(AVal::Atom { bytes, .. }) = slot_mut(s, &slots[*si as usize % slots.len()]) {
                    if *grow {
                        bytes.push(0);
                    } else {
                        bytes.pop();
                    }
                }
            }
        }
        M6::AtomType(si, t) => {
            let slots = atom_slots(s);
            if !slots.is_empty() {
                if let Some(AVal::Atom { ty, .. }) = slot_mut(s, &slots[*si as usize % slots.len()]) {
                    *ty = *t;
                }
            }
        }
        M6::MovePortal(ci, on_edge, owner) => {
            let kids: Vec<u8> = s.warps.keys().copied().filter(|k| *k != 0).collect();
            if !kids.is_empty() {
                let c = kids[*ci as usize % kids.len()];
                let old = s.warps[&c].parent.clone().unwrap();
                let pw = old.warp();
                let aw = &s.warps[&pw];
                let new = if *on_edge {
                    let es: Vec<u8> = aw.edges.keys().copied().filter(|e| !aw.eatt.contains_key(e)).collect();
                    if es.is_empty() { None } else { Some(ASlot::Edge(pw, es[*owner as usize % es.len()])) }
                } else {
                    let ns: Vec<u8> = aw.nodes.keys().copied().filter(|n| !aw.natt.contains_key(n)).collect();
                    if ns.is_empty() { None } else { Some(ASlot::Node(pw, ns[*owner as usize % ns.len()])) }
                };
                if let Some(new) = new {
                    match &old {
                        ASlot::Node(w, n) => {
                            s.warps.get_mut(w).unwrap().natt.remove(n);
                        }
                        ASlot::Edge(w, e) => {
                            s.warps.get_mut(w).unwrap().eatt.remove(e);
                        }
                    }
                    match &new {
                        ASlot::Node(w, n) => {
                            s.warps.get_mut(w).unwrap().natt.insert(*n, AVal::Descend(c));
                        }
                        ASlot::Edge(w, e) => {
                            s.warps.get_mut(w).unwrap().eatt.insert(*e, AVal::Descend(c));
                        }
                    }
                    s.warps.get_mut(&c).unwrap().parent = Some(new);
                }
            }
        }
    }
    if !s.well_formed() {
        *s = before;
    }
}

#[derive(Clone, Debug, Serialize, Deserialize)]
pub struct C6Case {
    state: StateSeed,
    /// rewire edges so that most content is reachable from the root
    connect: bool,
    orders: Vec<Vec<u16>>,
    detour: Vec<MSeed>,
    muts: Vec<M6>,
}

fn c6case() -> impl Strategy<Value = C6Case> {
    (
        state_seed(),
        any::<bool>(),
        prop::collection::vec(prop::collection::vec(any::<u16>(), 1..6), 2),
        prop::collection::vec(crate::c04::mseed_pub(), 1..5),
        prop::collection::vec(m6(), 1..4),
    )
        .prop_map(|(state, connect, orders, detour, muts)| C6Case { state, connect, orders, detour, muts })
}

/// Rewire edges (keeping ids, targets and types) so that they leave already-reachable nodes.
fn connect(a: &mut AState) {
    for aw in a.warps.values_mut() {
        let mut reachable = vec![aw.root_node];
        let ids: Vec<u8> = aw.edges.keys().copied().collect();
        for (k, e) in ids.iter().enumerate() {
            let from = reachable[(k * 7 + *e as usize) % reachable.len()];
            let r = aw.edges.get_mut(e).unwrap();
            r.from = from;
            if !reachable.contains(&r.to) {
                reachable.push(r.to);
            }
        }
    }
}

/// Raw ops that turn `from` into `to` by overwriting in place: one op per differing element,
/// applied one at a time in this order (attachment clears, edge deletes, node deletes, node
/// upserts, edge upserts incl. re-parenting, attachment sets). None if instances differ.
fn raw_upsert_ops(from: &AState, to: &AState) -> Option<Vec<warp_core::WarpOp>> {
    use warp_core::{EdgeRecord, NodeRecord, WarpOp};
    let mut ops = Vec::new();
    for (w, tw) in &to.warps {
        let fw = from.warps.get(w)?;
        if fw.root_node != tw.root_node || fw.parent != tw.parent {
            return None;
        }
        for n in fw.natt.keys().filter(|n| !tw.natt.contains_key(n) && tw.nodes.contains_key(n)) {
            ops.push(WarpOp::SetAttachment { key: ASlot::Node(*w, *n).key(), value: None });
        }
        for e in fw.eatt.keys().filter(|e| !tw.eatt.contains_key(e) && tw.edges.contains_key(e)) {
            ops.push(WarpOp::SetAttachment { key: ASlot::Edge(*w, *e).key(), value: None });
        }
        for (e, r) in fw.edges.iter().filter(|(e, _)| !tw.edges.contains_key(e)) {
            ops.push(WarpOp::DeleteEdge { warp_id: warp_id(*w), from: node_id(r.from), edge_id: edge_id(*e) });
        }
    }
    for (w, tw) in &to.warps {
        let fw = &from.warps[w];
        // nodes that disappear must be isolated by now: edges that touch them are moved first
        for (e, r) in &tw.edges {
            if fw.edges.get(e) != Some(r) && fw.edges.contains_key(e) {
                ops.push(WarpOp::UpsertEdge { warp_id: warp_id(*w), record: EdgeRecord { id: edge_id(*e), from: node_id(r.from), to: node_id(r.to), ty: type_id(r.ty) } });
            }
        }
        for (n, ty) in &tw.nodes {
            if fw.nodes.get(n) != Some(ty) {
                ops.push(WarpOp::UpsertNode { node: node_key(*w, *n), record: NodeRecord { ty: type_id(*ty) } });
            }
        }
        for (e, r) in &tw.edges {
            if !fw.edges.contains_key(e) {
                ops.push(WarpOp::UpsertEdge { warp_id: warp_id(*w), record: EdgeRecord { id: edge_id(*e), from: node_id(r.from), to: node_id(r.to), ty: type_id(r.ty) } });
            }
        }
        for n in fw.nodes.keys().filter(|n| !tw.nodes.contains_key(n)) {
            ops.push(WarpOp::DeleteNode { node: node_key(*w, *n) });
        }
        for (n, v) in &tw.natt {
            if fw.natt.get(n) != Some(v) {
                ops.push(WarpOp::SetAttachment { key: ASlot::Node(*w, *n).key(), value: Some(v.to_real()) });
            }
        }
        for (e, v) in &tw.eatt {
            if fw.eatt.get(e) != Some(v) {
                ops.push(WarpOp::SetAttachment { key: ASlot::Edge(*w, *e).key(), value: Some(v.to_real()) });
            }
        }
    }
    Some(ops)
}

fn check_c6(_ctx: &Ctx, c: &C6Case, probe: &mut Probe) -> Check {
    let mut a = realise_state(&c.state);
    if c.connect {
        connect(&mut a);
        probe.class("connected");
    }
    let a = a;
    let r0 = build_real(&a, &[]);
    let root0 = roots(&a, &r0)?;
    bucket(&a, root0)?;
    let wsc0 = wsc_bytes(&a, &r0)?;
    for (w, aw) in &a.warps {
        wsc_roundtrip(*w, aw, &wsc0[w])?;
    }
    let mut evals = 1u64;

    // order / layout independence
    for o in &c.orders {
        let r = build_real(&a, o);
        let root = roots(&a, &r)?;
        vensure_eq!(root, root0, "C06/root-depends-on-construction-order", "order {:?}", o);
        vensure!(wsc_bytes(&a, &r)? == wsc0, "C06/wsc/bytes-depend-on-construction-order", "order {:?}", o);
        evals += 1;
    }
    // detour: reach the same abstract state from a different one via a diff patch
    {
        let mut alt = a.clone();
        for m in &c.detour {
            mutate(&mut alt, m);
        }
        if alt != a {
            let alt_real = build_real(&alt, &c.orders[0]);
            let ops = warp_core::echo_verif::diff_state(&alt_real, &r0);
            let patch = warp_core::WarpTickPatchV1::new(0, [0; 32], warp_core::TickCommitStatus::Committed, vec![], vec![], ops);
            let mut s = alt_real.clone();
            if patch.apply_to_state(&mut s).is_ok() && AState::from_real(&s).ok().as_ref() == Some(&a) {
                let root = roots(&a, &s)?;
                vensure_eq!(root, root0, "C06/root-depends-on-history", "state reached through a detour from {:?}", alt);
                vensure!(wsc_bytes(&a, &s)? == wsc0, "C06/wsc/bytes-depend-on-history", "detour");
                probe.class("detour");
                evals += 1;
            }
        }
    }
    // detour through raw upserts: the same abstract state reached by overwriting records in
    // place (an edge keeps its id while its source/target/type change: the store moves it
    // between buckets) instead of through delete + insert
    {
        let mut alt = a.clone();
        for m in &c.detour {
            mutate(&mut alt, m);
        }
        if alt != a && alt.warps.keys().eq(a.warps.keys()) {
            let alt_real = build_real(&alt, &c.orders[0]);
            if let Some(ops) = raw_upsert_ops(&alt, &a) {
                let mut s = alt_real.clone();
                let mut ok = true;
                for op in &ops {
                    let patch = warp_core::WarpTickPatchV1::new(0, [0; 32], warp_core::TickCommitStatus::Committed, vec![], vec![], vec![op.clone()]);
                    if patch.apply_to_state(&mut s).is_err() {
                        ok = false;
                        break;
                    }
                }
                if ok && AState::from_real(&s).ok().as_ref() == Some(&a) {
                    let root = roots(&a, &s)?;
                    vensure_eq!(root, root0, "C06/root-depends-on-history", "state reached by overwriting records in place from {:?}", alt);
                    vensure!(wsc_bytes(&a, &s)? == wsc0, "C06/wsc/bytes-depend-on-history", "in-place detour");
                    probe.class("detour:in-place-upserts");
                    evals += 1;
                }
            }
        }
    }
    // single semantic mutations: root changes exactly when reachable content changes
    let ra = reach(&a);
    let mut any_unreach = false;
    for m in &c.muts {
        let mut b = a.clone();
        mutate6(&mut b, m);
        if b == a {
            continue;
        }
        let rb_real = build_real(&b, &c.orders[1]);
        let rootb = roots(&b, &rb_real)?;
        bucket(&b, rootb)?;
        let rb = reach(&b);
        evals += 1;
        if ra == rb {
            any_unreach = true;
            if rootb != root0 {
                vfail!("C06/root-depends-on-unreachable-content", "mutation {:?} changed only unreachable content but the root changed; a={:?} b={:?}", m, a, b);
            }
            probe.class("mutation:unreachable");
        } else {
            if rootb == root0 {
                vfail!("C06/root-misses-reachable-change", "mutation {:?} changed reachable content but the root did not change; reach(a)={:?} reach(b)={:?}", m, ra, rb);
            }
            probe.class(format!("mutation:reachable:{}", m6_name(m)));
        }
    }
    probe.evals(evals);
    let unequal_lens = a.warps.values().any(|w| {
        let lens: BTreeSet<usize> = w.natt.values().chain(w.eatt.values()).filter_map(|v| if let AVal::Atom { bytes, .. } = v { Some(bytes.len()) } else { None }).collect();
        lens.len() >= 2
    });
    if a.warps.len() >= 2 || any_unreach || unequal_lens {
        probe.nontrivial();
    }
    if a.warps.len() >= 2 {
        probe.class("multi-instance");
    }
    Ok(())
}

fn m6_name(m: &M6) -> String {
    match m {
        M6::Base(b) => format!("{:?}", b).split('(').next().unwrap_or("?").to_string(),
        other => format!("{:?}", other).split('(').next().unwrap_or("?").to_string(),
    }
}

// ---------------------------------------------------------------------------
// accumulator differential over op sequences

#[derive(Clone, Debug, Serialize, Deserialize)]
pub struct AccCase {
    state: StateSeed,
    walk: Vec<M6>,
}

fn acc_case() -> impl Strategy<Value = AccCase> {
    (state_seed(), prop::collection::vec(m6(), 1..8)).prop_map(|(state, walk)| AccCase { state, walk })
}

fn check_acc(_ctx: &Ctx, c: &AccCase, probe: &mut Probe) -> Check {
    let a = realise_state(&c.state);
    let mut b = a.clone();
    for m in &c.walk {
        mutate6(&mut b, m);
    }
    // the engine root must stay fixed for an op sequence: keep warp 0's root node
    if b.warps[&0].root_node != a.warps[&0].root_node {
        b.warps.get_mut(&0).unwrap().root_node = a.warps[&0].root_node;
        if !b.well_formed() {
            return Ok(());
        }
    }
    let ar = build_real(&a, &[]);
    let br = build_real(&b, &[]);
    let ops = warp_core::echo_verif::diff_state(&ar, &br);
    let patch = warp_core::WarpTickPatchV1::new(0, [0; 32], warp_core::TickCommitStatus::Committed, vec![], vec![], ops);
    let mut s = ar.clone();
    if patch.apply_to_state(&mut s).is_err() {
        probe.class("store-rejects-sequence");
        return Ok(());
    }
    let rk = root_key(&a);
    let store_root = warp_core::echo_verif::store_state_root(&s, &rk);
    let acc = vkit::catch(|| warp_core::echo_verif::accumulator_root_after(&ar, patch.ops().to_vec(), &rk))
        .map_err(|m| Fail::new("C06/accumulator-panics-on-accepted-sequence", format!("{m}; ops={:?}", patch.ops().iter().filter_map(AOp::from_real).collect::<Vec<_>>())))?;
    if acc != store_root {
        vfail!("C06/accumulator-after-ops-disagrees", "ops {:?} from {:?}: store root {} accumulator {}", patch.ops().iter().filter_map(AOp::from_real).collect::<Vec<_>>(), a, hex::encode(store_root), hex::encode(acc));
    }
    if patch.ops().len() >= 3 {
        probe.nontrivial();
    }
    probe.class(format!("ops:{}", patch.ops().len().min(12)));
    Ok(())
}

pub fn subs(_ctx: &Ctx) -> Vec<Box<dyn Sub>> {
    vec![
        prop_sub("order-unreachable-injective-wsc", 30_000, 600_000, c6case(), check_c6),
        prop_sub("accumulator-vs-store-after-ops", 40_000, 800_000, acc_case(), check_acc),
    ]
}
