//! C03 — admission is the canonical greedy independent set with exact blocking witnesses.
//!
//! Uses the `SchedProbe` hook: raw (scope hash, rule id) keys with arbitrary footprints into
//! the real pending queue, the real drain and the real reserve/receipt code.

use proptest::prelude::*;
use serde::{Deserialize, Serialize};
use std::cell::RefCell;
use std::collections::BTreeMap;
use vkit::{enum_sub, prop_sub, vensure, vensure_eq, vfail, Check, Ctx, Probe, Sub};
use vmodel::universe::*;
use warp_core::echo_verif::{RawCandidate, SchedProbe};
use warp_core::{AttachmentKey, Footprint, SchedulerKind, TickReceipt, TickReceiptDisposition, TickReceiptEntry};

thread_local! {
    static PROBES: RefCell<Option<(SchedProbe, SchedProbe)>> = const { RefCell::new(None) };
}

fn with_probe<T>(legacy: bool, f: impl FnOnce(&mut SchedProbe) -> T) -> T {
    PROBES.with(|p| {
        let mut g = p.borrow_mut();
        let pair = g.get_or_insert_with(|| (SchedProbe::new(SchedulerKind::Radix), SchedProbe::new(SchedulerKind::Legacy)));
        f(if legacy { &mut pair.1 } else { &mut pair.0 })
    })
}

// ---------------------------------------------------------------------------
// abstract footprints over a tiny resource universe

/// mode per resource: 0 none, 1 read, 2 write; port: 0 none, 1 in, 2 out, 3 both
#[derive(Clone, Copy, Debug, PartialEq, Eq, PartialOrd, Ord, Serialize, Deserialize)]
pub struct RFoot {
    /// per instance (2): [node, edge, att, port]
    pub m: [[u8; 4]; 2],
}

impl RFoot {
    fn single(code: usize, inst: usize) -> RFoot {
        let mut m = [[0u8; 4]; 2];
        m[inst] = [(code % 3) as u8, ((code / 3) % 3) as u8, ((code / 9) % 3) as u8, ((code / 27) % 4) as u8];
        RFoot { m }
    }
    fn to_real(&self, sound_mask_bits: bool) -> Footprint {
        let mut fp = Footprint::default();
        let mut mask = 0u64;
        for w in 0..2u8 {
            let m = self.m[w as usize];
            let nk = node_key(w, 0);
            let ek = edge_key(w, 0);
            let ak = AttachmentKey::node_alpha(node_key(w, 1));
            match m[0] {
                1 => fp.n_read.insert(nk),
                2 => fp.n_write.insert(nk),
                _ => {}
            }
            match m[1] {
                1 => fp.e_read.insert(ek),
                2 => fp.e_write.insert(ek),
                _ => {}
            }
            match m[2] {
                1 => fp.a_read.insert(ak),
                2 => fp.a_write.insert(ak),
                _ => {}
            }
            if m[3] & 1 != 0 {
                fp.b_in.insert(warp_id(w), 7);
            }
            if m[3] & 2 != 0 {
                fp.b_out.insert(warp_id(w), 7);
            }
            for r in 0..4 {
                if m[r] != 0 {
                    mask |= 1 << (w as usize * 4 + r);
                }
            }
        }
        fp.factor_mask = if sound_mask_bits { mask } else { u64::MAX };
        fp
    }
    /// Reference predicate, from the property statement.
    fn conflicts(&self, o: &RFoot) -> bool {
        for w in 0..2 {
            for r in 0..3 {
                let (a, b) = (self.m[w][r], o.m[w][r]);
                if (a == 2 && b != 0) || (b == 2 && a != 0) {
                    return true;
                }
            }
            if self.m[w][3] != 0 && o.m[w][3] != 0 {
                return true;
            }
        }
        false
    }
    fn touched(&self) -> usize {
        self.m.iter().flatten().filter(|x| **x != 0).count()
    }
}

fn raw(i: usize, f: &RFoot, sound_bits: bool) -> RawCandidate {
    let mut scope_hash = [0u8; 32];
    scope_hash[28..32].copy_from_slice(&(i as u32).to_be_bytes());
    let mut rule_id = [0u8; 32];
    rule_id[31] = 1;
    RawCandidate {
        scope_hash,
        rule_id,
        compact_rule: 1,
        // the instance a candidate is scoped in is independent of the instances its footprint
        // names (a descended rewrite reads portal slots of its parent instance): vary it
        scope: node_key(((i + f.m[1].iter().map(|x| *x as usize).sum::<usize>()) % 2) as u8, (i % 12) as u8),
        footprint: f.to_real(sound_bits),
        tag: i as u64,
    }
}

/// Greedy reference: (accepted flags, blocker lists).
fn greedy(fps: &[RFoot]) -> (Vec<bool>, Vec<Vec<u32>>) {
    let mut acc: Vec<usize> = Vec::new();
    let mut flags = Vec::new();
    let mut bl = Vec::new();
    for (i, f) in fps.iter().enumerate() {
        let b: Vec<u32> = acc.iter().filter(|j| f.conflicts(&fps[**j])).map(|j| *j as u32).collect();
        if b.is_empty() {
            acc.push(i);
            flags.push(true);
        } else {
            flags.push(false);
        }
        bl.push(b);
    }
    (flags, bl)
}

fn check_receipt(receipt: &TickReceipt, tags: &[u64], fps: &[RFoot], what: &str) -> Check {
    let (flags, bl) = greedy(fps);
    let entries = receipt.entries();
    vensure_eq!(entries.len(), fps.len(), "C03/receipt-length", "{what}");
    let mut expect_tags = Vec::new();
    for i in 0..fps.len() {
        let applied = matches!(entries[i].disposition, TickReceiptDisposition::Applied);
        if applied != flags[i] {
            vfail!(
                if flags[i] { "C03/admission/false-reject" } else { "C03/admission/false-accept" },
                "{what}: candidate {i} of {:?}: engine applied={applied}, reference={}", fps, flags[i]
            );
        }
        if receipt.blocked_by(i) != bl[i].as_slice() {
            vfail!("C03/blocking-witness", "{what}: candidate {i} of {:?}: blocked_by {:?}, reference {:?}", fps, receipt.blocked_by(i), bl[i]);
        }
        if flags[i] {
            expect_tags.push(i as u64);
        }
    }
    vensure_eq!(tags, expect_tags.as_slice(), "C03/reserved-set", "{what}");
    // the receipt's own invariants are the property's
    let entries_v: Vec<TickReceiptEntry> = entries.to_vec();
    let blocked: Vec<Vec<u32>> = (0..entries.len()).map(|i| receipt.blocked_by(i).to_vec()).collect();
    if let Err(e) = TickReceipt::try_from_retained_parts(receipt.tx(), entries_v, blocked) {
        vfail!("C03/receipt-invariants", "{what}: produced receipt rejected by try_from_retained_parts: {e:?}");
    }
    Ok(())
}

fn run_admission(fps: &[RFoot], what: &str) -> Check {
    let mut decisions: Vec<Vec<bool>> = Vec::new();
    for (legacy, sound_bits) in [(false, false), (true, false), (true, true)] {
        let cands: Vec<RawCandidate> = fps.iter().enumerate().map(|(i, f)| raw(i, f, sound_bits)).collect();
        let (receipt, tags) = with_probe(legacy, |p| {
            for c in cands.iter().rev() {
                p.enqueue(c.clone());
            }
            let drained = p.drain();
            p.reserve(drained)
        })
        .map_err(|e| vkit::Fail::new("C03/reserve-error", format!("{what}: {e} on {:?}", fps)))?;
        check_receipt(&receipt, &tags, fps, &format!("{what} legacy={legacy} bitmask={sound_bits}"))?;
        decisions.push(receipt.entries().iter().map(|e| matches!(e.disposition, TickReceiptDisposition::Applied)).collect());
    }
    vensure!(decisions[0] == decisions[1] && decisions[1] == decisions[2], "C03/scheduler-kinds-disagree", "{what}: {:?}", fps);
    Ok(())
}

// --- exhaustive pairs (216^2) -------------------------------------------------

#[derive(Clone, Debug, Serialize, Deserialize)]
pub struct PairBlock {
    a: u16,
}

fn pair_blocks(_ctx: &Ctx) -> Box<dyn Iterator<Item = PairBlock>> {
    Box::new((0..216u16).map(|a| PairBlock { a }))
}

fn foot216(i: usize) -> RFoot {
    RFoot::single(i % 108, i / 108)
}

fn check_pair_block(_ctx: &Ctx, b: &PairBlock, probe: &mut Probe) -> Check {
    let fa = foot216(b.a as usize);
    for j in 0..216 {
        let fb = foot216(j);
        run_admission(&[fa, fb], "pair")?;
        if fa.conflicts(&fb) {
            probe.sub_nontrivial(format!("{:?}{:?}", fa, fb).as_bytes());
        }
    }
    probe.evals(216 * 3);
    Ok(())
}

// --- two-instance footprints with <= 2 touched resources, all ordered pairs ---

fn universe2() -> Vec<RFoot> {
    let mut out = vec![RFoot { m: [[0; 4]; 2] }];
    let res: Vec<(usize, usize)> = (0..2).flat_map(|w| (0..4).map(move |r| (w, r))).collect();
    let modes = |r: usize| if r == 3 { vec![1u8, 2] } else { vec![1u8, 2] };
    for (i, (w1, r1)) in res.iter().enumerate() {
        for m1 in modes(*r1) {
            let mut f = RFoot { m: [[0; 4]; 2] };
            f.m[*w1][*r1] = m1;
            out.push(f);
            for (w2, r2) in res.iter().skip(i + 1) {
                for m2 in modes(*r2) {
                    let mut g = f;
                    g.m[*w2][*r2] = m2;
                    out.push(g);
                }
            }
        }
    }
    out
}

#[derive(Clone, Debug, Serialize, Deserialize)]
pub struct U2Block {
    a: u16,
}

fn u2_blocks(_ctx: &Ctx) -> Box<dyn Iterator<Item = U2Block>> {
    Box::new((0..universe2().len() as u16).map(|a| U2Block { a }))
}

fn check_u2_block(_ctx: &Ctx, b: &U2Block, probe: &mut Probe) -> Check {
    let u = universe2();
    let fa = u[b.a as usize];
    for fb in &u {
        run_admission(&[fa, *fb], "pair-2inst")?;
        if fa.conflicts(fb) {
            probe.sub_nontrivial(format!("{:?}{:?}", fa, fb).as_bytes());
        }
    }
    probe.evals(u.len() as u64 * 3);
    Ok(())
}

// --- triples over the 81-element single-instance universe ---------------------

fn foot81(i: usize) -> RFoot {
    let mut m = [[0u8; 4]; 2];
    m[0] = [(i % 3) as u8, ((i / 3) % 3) as u8, ((i / 9) % 3) as u8, ((i / 27) % 3) as u8];
    RFoot { m }
}

#[derive(Clone, Debug, Serialize, Deserialize)]
pub struct TripleBlock {
    a: u8,
    b: u8,
}

fn triple_blocks(ctx: &Ctx) -> Box<dyn Iterator<Item = TripleBlock>> {
    // quick: every (a,b) prefix with a strided third element (1/4 of the triples, all
    // "A accepted, B rejected by A" shapes included); thorough: all 531 441 triples.
    let _ = ctx;
    Box::new((0..81u8).flat_map(|a| (0..81u8).map(move |b| TripleBlock { a, b })))
}

fn check_triple_block(ctx: &Ctx, t: &TripleBlock, probe: &mut Probe) -> Check {
    let fa = foot81(t.a as usize);
    let fb = foot81(t.b as usize);
    let ab_conflict = fa.conflicts(&fb);
    let mut n = 0;
    for c in 0..81usize {
        let _ = ctx;
        let fc = foot81(c);
        run_admission(&[fa, fb, fc], "triple")?;
        n += 1;
        // the decisive shape: A accepted, B rejected by A, C conflicts only with B
        if ab_conflict && fc.conflicts(&fb) && !fc.conflicts(&fa) {
            probe.sub_nontrivial(&[t.a, t.b, c as u8]);
            probe.class("rejected-reserves-nothing-shape");
        }
    }
    probe.evals(n * 3);
    Ok(())
}

// --- random large candidate sets over a 6-resource universe -------------------

#[derive(Clone, Debug, Serialize, Deserialize)]
pub struct LargeCase {
    fps: Vec<[u8; 8]>,
}

fn large_case() -> impl Strategy<Value = LargeCase> {
    let mode = prop_oneof![6 => Just(0u8), 2 => Just(1u8), 1 => Just(2u8)];
    prop::collection::vec(prop::array::uniform8(mode), 2..400).prop_map(|fps| LargeCase { fps })
}

fn check_large(_ctx: &Ctx, c: &LargeCase, probe: &mut Probe) -> Check {
    let fps: Vec<RFoot> = c
        .fps
        .iter()
        .map(|m| RFoot { m: [[m[0], m[1], m[2], m[3] & 3], [m[4], m[5], m[6], m[7] & 3]] })
        .collect();
    run_admission(&fps, "large")?;
    let (flags, _) = greedy(&fps);
    if flags.iter().any(|f| !*f) && flags.iter().filter(|f| **f).count() >= 2 {
        probe.nontrivial();
    }
    probe.class(format!("n:{}", match fps.len() { 0..=9 => "<10", 10..=99 => "10-99", _ => "100+" }));
    let _ = fps.iter().map(|f| f.touched()).sum::<usize>();
    probe.evals(3);
    Ok(())
}

// --- sort order with adversarial keys ----------------------------------------

#[derive(Clone, Debug, Serialize, Deserialize)]
pub struct SortCase {
    /// number of keys
    n: u16,
    /// common prefix length in bytes (0..=30)
    prefix: u8,
    prefix_byte: u8,
    /// which 16-bit digit (0..16) carries the differences; 16 = spread over all bytes
    digit: u8,
    /// per-key material
    keys: Vec<(u16, u8, u16)>,
    /// rule ids in play (compact ids), differing in low or high half
    rules: Vec<u32>,
    /// enqueue order seeds and duplicate re-enqueues
    swaps: Vec<u16>,
    dups: Vec<u16>,
    legacy: bool,
    /// arrival order: 0 random permutation, 1 ascending, 2 descending, 3 ascending with a few swaps
    #[serde(default)]
    order_mode: u8,
    /// where duplicate re-enqueues are inserted (monotone position picks)
    #[serde(default)]
    dup_at: Vec<u16>,
}

fn sort_case() -> impl Strategy<Value = SortCase> {
    (
        prop_oneof![
            3 => 0u16..40,
            3 => 1000u16..1050,
            1 => Just(1023u16), 1 => Just(1024u16), 1 => Just(1025u16),
            2 => 1026u16..5000,
            2 => 40u16..1000,
        ],
        0u8..31,
        any::<u8>(),
        0u8..=16,
        prop::collection::vec((any::<u16>(), any::<u8>(), any::<u16>()), 64),
        prop::collection::vec(prop_oneof![Just(0u32), Just(1), Just(2), Just(0x0001_0000), Just(0x0002_0000), Just(0x0001_0001), Just(0xffff), Just(0xffff_0000), Just(u32::MAX), any::<u32>()], 1..5),
        prop::collection::vec(any::<u16>(), 32),
        prop::collection::vec(any::<u16>(), 0..40),
        any::<bool>(),
        (0u8..4, prop::collection::vec(any::<u16>(), 40)),
    )
        .prop_map(|(n, prefix, prefix_byte, digit, keys, rules, swaps, dups, legacy, (order_mode, dup_at))| SortCase { n, prefix, prefix_byte, digit, keys, rules, swaps, dups, legacy, order_mode, dup_at })
}

fn check_sort(_ctx: &Ctx, c: &SortCase, probe: &mut Probe) -> Check {
    // materialise keys
    let n = c.n as usize;
    let mut cands: Vec<RawCandidate> = Vec::with_capacity(n);
    for i in 0..n {
        let (k16, kb, salt) = c.keys[i % c.keys.len()];
        let mix = (i / c.keys.len()) as u16;
        let mut h = [0u8; 32];
        for b in h.iter_mut().take(c.prefix as usize) {
            *b = c.prefix_byte;
        }
        if c.digit < 16 {
            // differences confined to one 16-bit digit (plus occasionally its neighbour byte)
            let off = 2 * c.digit as usize;
            let v = k16.wrapping_add(mix.wrapping_mul(salt | 1));
            h[off] = (v >> 8) as u8;
            h[off + 1] = v as u8;
        } else {
            let hh = blake3::hash(&[(i & 0xff) as u8, (i >> 8) as u8, kb]);
            let start = c.prefix as usize;
            h[start..].copy_from_slice(&hh.as_bytes()[start..]);
        }
        let compact = c.rules[(kb as usize + i) % c.rules.len()];
        let mut rule_id = [0u8; 32];
        rule_id[..4].copy_from_slice(&compact.to_be_bytes());
        cands.push(RawCandidate {
            scope_hash: h,
            rule_id,
            compact_rule: compact,
            scope: node_key(0, 0),
            footprint: Footprint::default(),
            tag: i as u64,
        });
    }
    // arrival order + duplicate re-enqueues at generated positions (last wins -> new tag)
    let mut seq: Vec<usize> = (0..n).collect();
    let by_key = |a: &usize, b: &usize| (cands[*a].scope_hash, cands[*a].compact_rule).cmp(&(cands[*b].scope_hash, cands[*b].compact_rule));
    match c.order_mode % 4 {
        0 => {
            for i in (1..n).rev() {
                let j = vkit::pick_idx(c.swaps[i % c.swaps.len()].wrapping_add((i as u16).wrapping_mul(40503)), i + 1);
                seq.swap(i, j);
            }
        }
        1 => seq.sort_by(by_key),
        2 => {
            seq.sort_by(by_key);
            seq.reverse();
        }
        _ => {
            seq.sort_by(by_key);
            for k in 0..3.min(n / 2) {
                let a = vkit::pick_idx(c.swaps[(2 * k) % c.swaps.len()], n);
                let b = vkit::pick_idx(c.swaps[(2 * k + 1) % c.swaps.len()], n);
                seq.swap(a, b);
            }
        }
    }
    let mut enq: Vec<RawCandidate> = seq.iter().map(|i| cands[*i].clone()).collect();
    for (k, d) in c.dups.iter().enumerate() {
        if n > 0 {
            let mut again = cands[vkit::pick_idx(*d, n)].clone();
            again.tag = 1_000_000 + k as u64;
            let at = if c.dup_at.is_empty() { enq.len() } else { vkit::pick_idx(c.dup_at[k % c.dup_at.len()], enq.len() + 1) };
            enq.insert(at, again);
        }
    }
    // reference: last-wins per (scope, rule), ascending by (scope bytes, rule)
    let mut reference: BTreeMap<([u8; 32], u32), u64> = BTreeMap::new();
    for e in &enq {
        reference.insert((e.scope_hash, e.compact_rule), e.tag);
    }
    let drained = with_probe(c.legacy, |p| {
        for e in &enq {
            p.enqueue(e.clone());
        }
        p.drain()
    });
    let got: Vec<(([u8; 32], u32), u64)> = drained.iter().map(|d| ((d.scope_hash, d.compact_rule), d.tag)).collect();
    let want: Vec<(([u8; 32], u32), u64)> = reference.into_iter().collect();
    if got.len() != want.len() {
        vfail!("C03/drain/lost-or-duplicated", "drained {} entries, expected {} distinct keys (n={}, legacy={})", got.len(), want.len(), n, c.legacy);
    }
    for (i, (g, w)) in got.iter().zip(want.iter()).enumerate() {
        if g.0 != w.0 {
            vfail!("C03/drain/order", "position {i}: got key {:?}/{:#x}, expected {:?}/{:#x} (n={}, digit={}, legacy={})", &g.0 .0[..], g.0 .1, &w.0 .0[..], w.0 .1, n, c.digit, c.legacy);
        }
        if g.1 != w.1 {
            vfail!("C03/drain/last-wins-payload", "position {i}: payload tag {} but last enqueued was {}", g.1, w.1);
        }
    }
    // queue is empty afterwards
    let again = with_probe(c.legacy, |p| p.drain());
    vensure!(again.is_empty(), "C03/drain/not-empty-after", "second drain returned {} entries", again.len());
    if want.len() > 1024 || (c.digit < 16 && want.len() > 2) {
        probe.nontrivial();
    }
    probe.class(format!("n:{}", match want.len() { 0..=1 => "0-1", 2..=1024 => "2-1024", _ => ">1024" }));
    if c.digit < 16 {
        probe.class(format!("digit:{}", c.digit));
    }
    if c.legacy {
        probe.class("legacy");
    }
    probe.class(format!("arrival:{}", ["random", "ascending", "descending", "nearly-ascending"][(c.order_mode % 4) as usize]));
    probe.note(serde_json::json!({"n": n, "distinct": want.len(), "prefix": c.prefix, "digit": c.digit, "rules": c.rules, "dups": c.dups.len(), "legacy": c.legacy}));
    Ok(())
}


// --- every arrival sequence (with repeats) over 4 keys, length <= 6 ----------------

#[derive(Clone, Debug, Serialize, Deserialize)]
pub struct ArrivalBlock {
    len: u8,
    legacy: bool,
}

fn arrival_blocks(_ctx: &Ctx) -> Box<dyn Iterator<Item = ArrivalBlock>> {
    Box::new((0..=6u8).flat_map(|len| [false, true].into_iter().map(move |legacy| ArrivalBlock { len, legacy })))
}

fn check_arrival_block(_ctx: &Ctx, b: &ArrivalBlock, probe: &mut Probe) -> Check {
    // four keys: two scopes x two rules, scope order opposite to creation order
    let keys: [([u8; 32], u32); 4] = {
        let mut hi = [0u8; 32];
        hi[31] = 9;
        let mut lo = [0u8; 32];
        lo[31] = 3;
        [(hi, 1), (lo, 2), (hi, 2), (lo, 1)]
    };
    let total = 4usize.pow(b.len as u32);
    for code in 0..total {
        let mut c = code;
        let mut seq = Vec::with_capacity(b.len as usize);
        for _ in 0..b.len {
            seq.push(c % 4);
            c /= 4;
        }
        let mut reference: BTreeMap<([u8; 32], u32), u64> = BTreeMap::new();
        let drained = with_probe(b.legacy, |p| {
            for (t, k) in seq.iter().enumerate() {
                let (scope_hash, compact) = keys[*k];
                let mut rule_id = [0u8; 32];
                rule_id[..4].copy_from_slice(&compact.to_be_bytes());
                p.enqueue(RawCandidate { scope_hash, rule_id, compact_rule: compact, scope: node_key(0, 0), footprint: Footprint::default(), tag: t as u64 });
                reference.insert((scope_hash, compact), t as u64);
            }
            p.drain()
        });
        let got: Vec<(([u8; 32], u32), u64)> = drained.iter().map(|d| ((d.scope_hash, d.compact_rule), d.tag)).collect();
        let want: Vec<(([u8; 32], u32), u64)> = reference.into_iter().collect();
        if got != want {
            let pos = got.iter().zip(want.iter()).position(|(g, w)| g != w);
            let what = if got.len() != want.len() { "lost-or-duplicated" } else if pos.map(|i| got[i].0 != want[i].0).unwrap_or(false) { "order" } else { "last-wins-payload" };
            vfail!(format!("C03/drain/{what}"), "arrival sequence {:?} (key indices) drains as {:?}, expected {:?}", seq, got.iter().map(|g| (g.0 .0[31], g.0 .1, g.1)).collect::<Vec<_>>(), want.iter().map(|g| (g.0 .0[31], g.0 .1, g.1)).collect::<Vec<_>>());
        }
        if seq.len() >= 3 && want.len() < seq.len() {
            probe.sub_nontrivial(format!("{:?}{}", seq, b.legacy).as_bytes());
        }
    }
    probe.evals(total as u64);
    Ok(())
}

pub fn subs(_ctx: &Ctx) -> Vec<Box<dyn Sub>> {
    vec![
        enum_sub("pairs-108x2-exhaustive", |_| true, pair_blocks, check_pair_block),
        enum_sub("pairs-two-instance-exhaustive", |_| true, u2_blocks, check_u2_block),
        enum_sub("triples-81-exhaustive", |_| true, triple_blocks, check_triple_block),
        enum_sub("arrival-sequences-4-keys-len<=6-exhaustive", |_| true, arrival_blocks, check_arrival_block),
        prop_sub("large-random-sets", 3000, 60_000, large_case(), check_large),
        prop_sub("sort-adversarial-keys", 1200, 24_000, sort_case(), check_sort),
    ]
}
