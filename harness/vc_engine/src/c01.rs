//! C01 — a tick's outcome depends on the candidate set, never on arrival order.

use proptest::prelude::*;
use serde::{Deserialize, Serialize};
use std::collections::BTreeSet;
use vkit::{prop_sub, vensure, vensure_eq, vfail, Check, Ctx, Fail, Probe, Sub};
use vmodel::dsl::*;
use vmodel::tick::*;
use vmodel::universe::*;

#[derive(Clone, Debug, Serialize, Deserialize)]
pub struct Case {
    pub state: StateSeed,
    pub cands: Vec<CandSeed>,
    /// number of wide (tiny-program) candidates appended; 0 for small/medium classes
    pub wide: u16,
    pub perms: Vec<(Vec<u16>, Vec<u16>)>,
    pub cfg: TickCfg,
}

fn cfg_strategy(allow_chains: bool) -> impl Strategy<Value = TickCfg> {
    (
        any::<bool>(),
        prop_oneof![Just(1u8), Just(2), Just(3), Just(4), Just(8)],
        prop::collection::vec(0..N_SLOTS, 0..8),
        if allow_chains { prop_oneof![3 => Just(false), 1 => Just(true)].boxed() } else { Just(false).boxed() },
        prop::collection::vec(any::<u16>(), 0..6),
    )
        .prop_map(|(legacy, workers, reg_order, chains, build_order)| TickCfg { legacy, workers, reg_order, chains, build_order })
}

fn perms_strategy(k: usize) -> impl Strategy<Value = Vec<(Vec<u16>, Vec<u16>)>> {
    prop::collection::vec(
        (prop::collection::vec(any::<u16>(), 8..24), prop::collection::vec(any::<u16>(), 0..10)),
        k,
    )
}

pub fn small_case() -> impl Strategy<Value = Case> {
    (state_seed(), prop::collection::vec(cand_seed(7), 2..14), perms_strategy(3), cfg_strategy(true))
        .prop_map(|(state, cands, perms, cfg)| Case { state, cands, wide: 0, perms, cfg })
}

pub fn medium_case() -> impl Strategy<Value = Case> {
    (state_seed(), prop::collection::vec(cand_seed(4), 40..200), 10u16..120, perms_strategy(2), cfg_strategy(false))
        .prop_map(|(state, cands, wide, perms, cfg)| Case { state, cands, wide, perms, cfg })
}

pub fn threshold_case() -> impl Strategy<Value = Case> {
    (
        state_seed(),
        prop::collection::vec(cand_seed(3), 5..40),
        prop_oneof![Just(960u16), Just(1000), Just(1023), Just(1024), Just(1025), 1026u16..2600],
        perms_strategy(2),
        cfg_strategy(false),
    )
        .prop_map(|(state, cands, wide, perms, cfg)| Case { state, cands, wide, perms, cfg })
}

pub fn fail_of(e: RunErr, ctxs: &str) -> Fail {
    match e {
        RunErr::Engine(m) => Fail::new("C01/engine-error-on-honest-tick", format!("{ctxs}: {m}")),
        RunErr::Violation(v) => Fail::new(
            format!("C14/honest-rewrite-flagged/{}", v.op_kind),
            format!("{ctxs}: honest program flagged: {v:?}"),
        ),
        RunErr::ViolationWithPanic(v, m) => {
            Fail::new("C14/honest-rewrite-flagged/with-panic", format!("{ctxs}: {v:?} + panic {m}"))
        }
        RunErr::Panic(m) => {
            if m.contains("cross-warp entries in a_read") {
                Fail::new("C14/descent-chain-flagged-by-guard-assert", format!("{ctxs}: {m}"))
            } else {
                Fail::new("C01/panic-on-honest-tick", format!("{ctxs}: {m}"))
            }
        }
        RunErr::Harness(m) => Fail::new("C01/harness", format!("{ctxs}: {m}")),
    }
}

pub fn build_cands(pre: &AState, case: &Case) -> Vec<WCand> {
    let mut cands = realise_cands(pre, &case.cands);
    if case.wide > 0 {
        cands.extend(wide_cands(pre, case.wide as usize, case.cfg.reg_order.first().copied().unwrap_or(0)));
    }
    cands
}

/// changed keys between two abstract states, restricted to warps present in `pre`
fn changed_keys(pre: &AState, post: &AState) -> (BTreeSet<(u8, u8)>, BTreeSet<(u8, u8)>, BTreeSet<ASlot>) {
    let mut nodes = BTreeSet::new();
    let mut edges = BTreeSet::new();
    let mut slots = BTreeSet::new();
    let empty = AWarp::default();
    for (w, a) in &pre.warps {
        let b = post.warps.get(w).unwrap_or(&empty);
        for n in 0..N_NODES {
            if a.nodes.get(&n) != b.nodes.get(&n) {
                nodes.insert((*w, n));
            }
            if a.natt.get(&n) != b.natt.get(&n) {
                slots.insert(ASlot::Node(*w, n));
            }
        }
        for e in 0..N_EDGES {
            if a.edges.get(&e) != b.edges.get(&e) {
                edges.insert((*w, e));
            }
            if a.eatt.get(&e) != b.eatt.get(&e) {
                slots.insert(ASlot::Edge(*w, e));
            }
        }
    }
    (nodes, edges, slots)
}

pub fn check(_ctx: &Ctx, case: &Case, probe: &mut Probe) -> Check {
    let pre = realise_state(&case.state);
    let cands = build_cands(&pre, case);
    install_programs(&cands);
    let n = cands.len();

    let mut runs: Vec<EngineRun> = Vec::new();
    let mut seqs: Vec<Vec<usize>> = Vec::new();
    for (swaps, dups) in &case.perms {
        let seq = enqueue_seq(n, swaps, dups);
        let mut live = make_engine(&pre, &case.cfg).map_err(|e| fail_of(e, "make_engine"))?;
        let run = run_engine_tick(&mut live, &pre, &cands, &seq, &case.cfg, None).map_err(|e| fail_of(e, "tick"))?;
        // C04(i): the emitted patch replays to the post-state
        let mut replay = live.pre_real.clone();
        match run.patch.apply_to_state(&mut replay) {
            Ok(()) => {
                let dumped = AState::from_real(&replay).map_err(|m| Fail::new("C04/replay/dump", m))?;
                if dumped != run.post {
                    vfail!("C04/tick-patch-replay-differs", "patch replay gives {:?}, tick produced {:?}", dumped, run.post);
                }
            }
            Err(e) => vfail!("C04/tick-patch-replay-error", "patch of a committed tick fails to apply: {e:?}"),
        }
        runs.push(run);
        seqs.push(seq);
    }
    probe.evals(runs.len() as u64);

    // (a) metamorphic: identical outcome for every enqueue order / duplication
    for (j, r) in runs.iter().enumerate().skip(1) {
        if r != &runs[0] {
            let what = if r.post != runs[0].post {
                "post-state"
            } else if r.entries != runs[0].entries || r.blocked_by != runs[0].blocked_by {
                "receipt"
            } else if r.patch != runs[0].patch {
                "patch"
            } else {
                "snapshot-hashes"
            };
            vfail!(format!("C01/order-dependence/{what}"), "enqueue order {:?} vs {:?} differ in {what}", seqs[j], seqs[0]);
        }
    }
    let run = &runs[0];

    // (b) reference model
    let set = candidate_set(&pre, &cands, &seqs[0]);
    let m = model_tick(&pre, &set, case.cfg.chains);
    vensure_eq!(run.entries.len(), set.len(), "C01/model/receipt-length", "receipt entries vs candidate set");
    for (i, ci) in m.order.iter().enumerate() {
        let c = set[*ci];
        let (rule_id, scope_hash, scope, applied) = &run.entries[i];
        vensure!(
            *rule_id == slot_rule_id(c.slot)
                && *scope_hash == spec_scope_hash(c.slot, c.w, c.scope)
                && scope.warp_id == warp_id(c.w)
                && scope.local_id == scope_id(c.scope),
            "C03/canonical-order",
            "receipt entry {} is not the {}-th candidate in ascending (scope hash, rule id) order", i, i
        );
        vensure_eq!(*applied, m.accepted[i], "C03/admission-decision", "entry {} ({:?})", i, (c.slot, c.w, c.scope));
        vensure_eq!(run.blocked_by[i], m.blockers[i], "C03/blocking-witness", "entry {}", i);
    }
    match &m.post {
        Ok(p) => {
            if &run.post != p {
                vfail!("C01/model/post-state", "engine post-state {:?} != model {:?}", run.post, p);
            }
        }
        Err(e) => vfail!("C01/harness/model-rejects-honest-set", "generator produced a set whose merged ops do not apply: {e:?}"),
    }
    // no slot outside the union of accepted write footprints differs from the pre-state
    let (cn, ce, cs) = changed_keys(&pre, &run.post);
    let mut wn = BTreeSet::new();
    let mut we = BTreeSet::new();
    let mut ws = BTreeSet::new();
    for ci in &m.accepted_cands {
        let c = set[*ci];
        wn.extend(c.prog.fp.n_write.iter().map(|n| (c.w, *n)));
        we.extend(c.prog.fp.e_write.iter().map(|e| (c.w, *e)));
        ws.extend(c.prog.fp.a_write.iter().cloned());
    }
    vensure!(cn.is_subset(&wn), "C01/effect-outside-accepted-writes/node", "changed {:?} declared {:?}", cn, wn);
    vensure!(ce.is_subset(&we), "C01/effect-outside-accepted-writes/edge", "changed {:?} declared {:?}", ce, we);
    vensure!(cs.is_subset(&ws), "C01/effect-outside-accepted-writes/attachment", "changed {:?} declared {:?}", cs, ws);

    // (b2) metamorphic: removing the rejected candidates changes nothing but the receipt
    let n_rej = m.accepted.iter().filter(|a| !**a).count();
    if n_rej > 0 {
        let keep: Vec<usize> = (0..n)
            .filter(|i| {
                let c = &cands[*i];
                match set.iter().position(|s| std::ptr::eq(*s, c)) {
                    Some(si) => m.accepted_cands.contains(&si),
                    None => false,
                }
            })
            .collect();
        let mut live = make_engine(&pre, &case.cfg).map_err(|e| fail_of(e, "make_engine"))?;
        let r2 = run_engine_tick(&mut live, &pre, &cands, &keep, &case.cfg, None).map_err(|e| fail_of(e, "tick-without-rejected"))?;
        vensure!(r2.post == run.post, "C01/rejected-candidate-left-effect/post-state", "dropping rejected candidates changed the post-state");
        vensure!(
            r2.snapshot.state_root == run.snapshot.state_root
                && r2.snapshot.patch_digest == run.snapshot.patch_digest
                && r2.snapshot.hash == run.snapshot.hash
                && r2.patch == run.patch,
            "C01/rejected-candidate-left-effect/hashes",
            "dropping rejected candidates changed state root / patch / commit id"
        );
        probe.evals(1);
    }

    // (c) the other scheduler kind decides identically (masks are sound: all-ones)
    {
        let mut cfg2 = case.cfg.clone();
        cfg2.legacy = !cfg2.legacy;
        let mut live = make_engine(&pre, &cfg2).map_err(|e| fail_of(e, "make_engine"))?;
        let r3 = run_engine_tick(&mut live, &pre, &cands, &seqs[0], &cfg2, None).map_err(|e| fail_of(e, "tick-other-scheduler"))?;
        if &r3 != run {
            vfail!("C03/scheduler-kinds-disagree", "Radix and Legacy commit different ticks (legacy first = {})", case.cfg.legacy);
        }
        probe.evals(1);
    }

    // classification
    let n_acc = m.accepted_cands.len();
    let multi = pre.warps.len() > 1;
    let portal_op = cands.iter().any(|c| c.prog.instrs.iter().any(|i| matches!(i, Instr::OpenPortal { .. })));
    if (n_acc >= 2 && n_rej >= 1) || portal_op || set.len() > 1024 {
        probe.nontrivial();
    }
    probe.class(format!("size:{}", match set.len() { 0..=15 => "small", 16..=1024 => "medium", _ => ">1024" }));
    if n_rej > 0 {
        probe.class("has-rejected");
    }
    if multi {
        probe.class("multi-instance");
    }
    if portal_op {
        probe.class("opens-portal");
    }
    if case.cfg.chains && set.iter().any(|c| c.w != 0) {
        probe.class("descent-chain-nonempty");
    }
    if case.cfg.legacy {
        probe.class("legacy-first");
    }
    if run.post != pre {
        probe.class("state-changed");
    }
    probe.note(serde_json::json!({
        "candidates": set.len(), "accepted": n_acc, "rejected": n_rej, "warps": pre.warps.len(),
        "workers": case.cfg.workers, "chains": case.cfg.chains,
        "first_candidates": set.iter().take(3).map(|c| serde_json::to_value(c).unwrap()).collect::<Vec<_>>(),
    }));
    Ok(())
}

pub fn subs(_ctx: &Ctx) -> Vec<Box<dyn Sub>> {
    vec![
        prop_sub("small-rich-programs", 10_000, 200_000, small_case(), check),
        prop_sub("medium", 480, 9_600, medium_case(), check),
        prop_sub("across-1024-threshold", 96, 1_600, threshold_case(), check),
    ]
}
