//! C04 — a tick patch replays to exactly the state the tick produced; the state diff either
//! transforms `a` into exactly `b` or fails with a typed error.

use crate::c01::{fail_of, small_case, Case};
use proptest::prelude::*;
use serde::{Deserialize, Serialize};
use std::sync::OnceLock;
use vkit::{prop_sub, vensure, vensure_eq, vfail, Check, Ctx, Fail, Probe, Sub};
#[allow(unused_imports)]
use vmodel::dsl::*;
use vmodel::tick::*;
use vmodel::universe::*;
use warp_core::{compute_commit_hash_v2, WarpOp, WarpState, WorldlineState};

// ---------------------------------------------------------------------------
// (i) tick level: sequences of ticks on one engine

#[derive(Clone, Debug, Serialize, Deserialize)]
pub struct SeqCase {
    pub first: Case,
    pub later: Vec<Vec<CandSeed>>,
}

fn seq_case() -> impl Strategy<Value = SeqCase> {
    (small_case(), prop::collection::vec(prop::collection::vec(cand_seed(7), 1..8), 0..4))
        .prop_map(|(mut first, later)| {
            first.cfg.chains = false;
            first.perms.truncate(1);
            SeqCase { first, later }
        })
}

fn op_classes(ops: &[WarpOp], probe: &mut Probe) -> bool {
    let mut kinds = std::collections::BTreeSet::new();
    let mut nontrivial = false;
    let mut del_edges = std::collections::BTreeSet::new();
    for op in ops {
        match op {
            WarpOp::DeleteEdge { edge_id, .. } => {
                del_edges.insert(*edge_id);
                kinds.insert("DeleteEdge");
            }
            WarpOp::UpsertEdge { .. } => {
                kinds.insert("UpsertEdge");
            }
            WarpOp::DeleteNode { .. } => {
                kinds.insert("DeleteNode");
            }
            WarpOp::UpsertNode { .. } => {
                kinds.insert("UpsertNode");
            }
            WarpOp::SetAttachment { .. } => {
                kinds.insert("SetAttachment");
            }
            WarpOp::OpenPortal { .. } => {
                kinds.insert("OpenPortal");
                nontrivial = true;
            }
            WarpOp::UpsertWarpInstance { .. } => {
                kinds.insert("UpsertWarpInstance");
                nontrivial = true;
            }
            WarpOp::DeleteWarpInstance { .. } => {
                kinds.insert("DeleteWarpInstance");
                nontrivial = true;
            }
        }
    }
    for op in ops {
        if let WarpOp::UpsertEdge { record, .. } = op {
            if del_edges.contains(&record.id) {
                probe.class("delete+upsert-same-edge");
                nontrivial = true;
            }
        }
    }
    for k in &kinds {
        probe.class(format!("op:{k}"));
    }
    nontrivial || kinds.len() >= 3
}

fn check_seq(_ctx: &Ctx, case: &SeqCase, probe: &mut Probe) -> Check {
    let pre0 = realise_state(&case.first.state);
    let cfg = case.first.cfg.clone();
    let mut live = make_engine(&pre0, &cfg).map_err(|e| fail_of(e, "make_engine"))?;
    let root = node_key(0, pre0.warps[&0].root_node);
    let mut pre = pre0.clone();
    let mut pre_real: WarpState = live.pre_real.clone();
    let mut recorded: Vec<AState> = Vec::new();
    let mut prev_hash: Option<[u8; 32]> = None;
    let mut nontrivial = false;
    let ticks: Vec<Vec<CandSeed>> = std::iter::once(case.first.cands.clone()).chain(case.later.iter().cloned()).collect();
    for (t, seeds) in ticks.iter().enumerate() {
        let cands = realise_cands(&pre, seeds);
        install_programs(&cands);
        let seq: Vec<usize> = (0..cands.len()).collect();
        let run = run_engine_tick(&mut live, &pre, &cands, &seq, &cfg, None).map_err(|e| fail_of(e, &format!("tick {t}")))?;
        // patch replays from the pre-state to exactly the post-state
        let mut replay = pre_real.clone();
        if let Err(e) = run.patch.apply_to_state(&mut replay) {
            vfail!("C04/tick-patch-replay-error", "tick {t}: patch of a committed tick fails to apply: {e:?}; ops={:?}", run.patch.ops().iter().filter_map(AOp::from_real).collect::<Vec<_>>());
        }
        let dumped = AState::from_real(&replay).map_err(|m| Fail::new("C04/replay/dump", m))?;
        if dumped != run.post {
            vfail!("C04/tick-patch-replay-differs", "tick {t}: replay {:?} != produced {:?}; ops={:?}", dumped, run.post, run.patch.ops().iter().filter_map(AOp::from_real).collect::<Vec<_>>());
        }
        // state root of the replayed state equals the committed one
        let replay_root = warp_core::echo_verif::store_state_root(&replay, &root);
        vensure_eq!(replay_root, run.snapshot.state_root, "C04/tick-patch-replay-root", "tick {t}: state root of replayed state");
        // worldline-level application
        {
            let mut ws = WorldlineState::new(pre_real.clone(), root).map_err(|e| Fail::new("C04/harness/worldline-state", format!("{e:?}")))?;
            let wp = warp_core::WorldlineTickPatchV1 {
                header: warp_core::WorldlineTickHeaderV1 {
                    commit_global_tick: warp_core::GlobalTick::from_raw(t as u64 + 1),
                    policy_id: run.patch.policy_id(),
                    rule_pack_id: run.patch.rule_pack_id(),
                    plan_digest: run.snapshot.plan_digest,
                    decision_digest: run.snapshot.decision_digest,
                    rewrites_digest: run.snapshot.rewrites_digest,
                },
                warp_id: root.warp_id,
                ops: run.patch.ops().to_vec(),
                in_slots: run.patch.in_slots().to_vec(),
                out_slots: run.patch.out_slots().to_vec(),
                patch_digest: run.patch.digest(),
            };
            if let Err(e) = wp.apply_to_worldline_state(&mut ws) {
                vfail!("C04/worldline-patch-apply-error", "tick {t}: {e:?}");
            }
            let d = AState::from_real(ws.warp_state()).map_err(|m| Fail::new("C04/replay/dump", m))?;
            vensure!(d == run.post, "C04/worldline-patch-replay-differs", "tick {t}");
            vensure_eq!(ws.state_root(), run.snapshot.state_root, "C04/worldline-patch-replay-root", "tick {t}");
        }
        // the patch is the only replay authority: commit id = H(root, parents, patch digest, policy)
        let parents: Vec<[u8; 32]> = prev_hash.into_iter().collect();
        vensure_eq!(run.snapshot.parents, parents, "C05/commit-parents", "tick {t}");
        vensure_eq!(run.snapshot.patch_digest, run.patch.digest(), "C04/snapshot-patch-digest", "tick {t}");
        vensure!(run.patch.validate_digest().is_ok(), "C04/patch-digest-invalid", "tick {t}");
        let expect = compute_commit_hash_v2(&run.snapshot.state_root, &parents, &run.patch.digest(), run.snapshot.policy_id);
        vensure_eq!(run.snapshot.hash, expect, "C05/commit-id-binding", "tick {t}");
        prev_hash = Some(run.snapshot.hash);
        nontrivial |= op_classes(run.patch.ops(), probe);
        recorded.push(run.post.clone());
        pre = run.post;
        pre_real = live.engine.state().clone();
    }
    // jump_to_tick reproduces every recorded tick (in a scrambled visiting order)
    let n = recorded.len();
    let mut order: Vec<usize> = (0..n).rev().collect();
    order.extend(0..n);
    for i in order {
        live.engine.jump_to_tick(i).map_err(|e| Fail::new("C04/jump-to-tick-error", format!("tick {i}: {e:?}")))?;
        let d = AState::from_real(live.engine.state()).map_err(|m| Fail::new("C04/replay/dump", m))?;
        if d != recorded[i] {
            vfail!("C04/jump-to-tick-differs", "jump_to_tick({i}) gives {:?}, live tick produced {:?}", d, recorded[i]);
        }
    }
    probe.evals(n as u64 * 3);
    if nontrivial {
        probe.nontrivial();
    }
    probe.class(format!("ticks:{n}"));
    Ok(())
}

// ---------------------------------------------------------------------------
// (ii) pair level over an enumerated micro-universe

fn micro_universe() -> &'static Vec<AState> {
    static U: OnceLock<Vec<AState>> = OnceLock::new();
    U.get_or_init(|| {
        let atoms = [None, Some(AVal::Atom { ty: 0, bytes: vec![1] }), Some(AVal::Atom { ty: 1, bytes: vec![] })];
        let mut out = Vec::new();
        for n0ty in 0..2u8 {
            for n1 in [None, Some(0u8), Some(1u8)] {
                let nodes: Vec<u8> = if n1.is_some() { vec![0, 1] } else { vec![0] };
                let mut edge_opts: Vec<Option<AEdge>> = vec![None];
                for f in &nodes {
                    for t in &nodes {
                        for ty in 0..2u8 {
                            edge_opts.push(Some(AEdge { from: *f, to: *t, ty }));
                        }
                    }
                }
                for e0 in &edge_opts {
                    for e1 in &edge_opts {
                        // attachments: n0, n1 (if exists), e0, e1 (if exist)
                        let slots: Vec<ASlot> = [
                            Some(ASlot::Node(0, 0)),
                            n1.map(|_| ASlot::Node(0, 1)),
                            e0.as_ref().map(|_| ASlot::Edge(0, 0)),
                            e1.as_ref().map(|_| ASlot::Edge(0, 1)),
                        ]
                        .into_iter()
                        .flatten()
                        .collect();
                        // to keep the universe enumerable: at most two slots carry attachments,
                        // chosen among all slots; values over the 2 atoms
                        let k = slots.len();
                        let mut combos: Vec<Vec<(usize, usize)>> = vec![vec![]];
                        for i in 0..k {
                            for a in 1..3 {
                                combos.push(vec![(i, a)]);
                                for j in (i + 1)..k {
                                    for b in 1..3 {
                                        combos.push(vec![(i, a), (j, b)]);
                                    }
                                }
                            }
                        }
                        for combo in combos {
                            let mut w = AWarp { root_node: 0, ..Default::default() };
                            w.nodes.insert(0, n0ty);
                            if let Some(t) = n1 {
                                w.nodes.insert(1, t);
                            }
                            if let Some(e) = e0 {
                                w.edges.insert(0, e.clone());
                            }
                            if let Some(e) = e1 {
                                w.edges.insert(1, e.clone());
                            }
                            for (si, ai) in combo {
                                match &slots[si] {
                                    ASlot::Node(_, n) => {
                                        w.natt.insert(*n, atoms[ai].clone().unwrap());
                                    }
                                    ASlot::Edge(_, e) => {
                                        w.eatt.insert(*e, atoms[ai].clone().unwrap());
                                    }
                                }
                            }
                            let mut s = AState::default();
                            s.warps.insert(0, w);
                            out.push(s);
                        }
                    }
                }
            }
        }
        out
    })
}

thread_local! {
    static MICRO_REAL: std::cell::RefCell<Vec<Option<WarpState>>> = const { std::cell::RefCell::new(Vec::new()) };
}

fn micro_real(i: usize) -> WarpState {
    MICRO_REAL.with(|m| {
        let mut m = m.borrow_mut();
        if m.is_empty() {
            m.resize(micro_universe().len(), None);
        }
        if m[i].is_none() {
            m[i] = Some(micro_universe()[i].to_real(&[]));
        }
        m[i].clone().unwrap()
    })
}

fn check_pair_states(a: &AState, ar: &WarpState, b: &AState, br: &WarpState, probe: &mut Probe, tag: &str) -> Check {
    let ops = warp_core::echo_verif::diff_state(ar, br);
    let patch = warp_core::WarpTickPatchV1::new(0, [0; 32], warp_core::TickCommitStatus::Committed, vec![], vec![], ops.clone());
    let mut s = ar.clone();
    match patch.apply_to_state(&mut s) {
        Ok(()) => {
            let d = AState::from_real(&s).map_err(|m| Fail::new("C04/diff-apply/dump", m))?;
            if &d != b {
                let aops: Vec<AOp> = ops.iter().filter_map(AOp::from_real).collect();
                vfail!("C04/diff-apply-yields-third-state", "{tag}: apply(diff(a,b),a) = {:?} but b = {:?}; a = {:?}; diff = {:?}", d, b, a, aops);
            }
            probe.class("pair:ok");
        }
        Err(e) => {
            probe.class(format!("pair:typed-error:{}", format!("{e:?}").split('(').next().unwrap_or("?")));
        }
    }
    // diff(a,a) is empty
    if a == b {
        vensure!(ops.is_empty(), "C04/diff-of-equal-states-nonempty", "{tag}: diff(a,a) = {:?}", ops);
    }
    if op_classes(&ops, probe) {
        probe.nontrivial();
    }
    Ok(())
}

#[derive(Clone, Debug, Serialize, Deserialize)]
pub struct MicroPair {
    a: u32,
    b: u32,
}

fn micro_pair() -> impl Strategy<Value = MicroPair> {
    let n = micro_universe().len() as u32;
    (0..n, 0..n).prop_map(|(a, b)| MicroPair { a, b })
}

fn check_micro(_ctx: &Ctx, p: &MicroPair, probe: &mut Probe) -> Check {
    let u = micro_universe();
    probe.class(format!("universe-size:{}", u.len()));
    let (a, b) = (&u[p.a as usize], &u[p.b as usize]);
    let (ar, br) = (micro_real(p.a as usize), micro_real(p.b as usize));
    check_pair_states(a, &ar, b, &br, probe, "micro")
}

// ---------------------------------------------------------------------------
// (ii') pairs by mutation walk over full multi-instance states

#[derive(Clone, Debug, Serialize, Deserialize)]
pub enum MSeed {
    RetypeNode(u8, u8, u8),
    AddNode(u8, u8, u8),
    DeleteNode(u8, u8),
    UpsertEdge(u8, u8, u8, u8, u8),
    ReparentEdge(u8, u8, u8),
    RetargetEdge(u8, u8, u8),
    RetypeEdge(u8, u8, u8),
    DeleteEdge(u8, u8),
    SetNodeAtt(u8, u8, Option<AVal>),
    SetEdgeAtt(u8, u8, Option<AVal>),
    OpenPortal(u8, bool, u8, u8),
    DeleteChild(u8),
}

fn mseed() -> impl Strategy<Value = MSeed> {
    let b = || any::<u8>();
    prop_oneof![
        1 => (b(), b(), 0..N_TYPES).prop_map(|(w, n, t)| MSeed::RetypeNode(w, n, t)),
        1 => (b(), 0..N_NODES, 0..N_TYPES).prop_map(|(w, n, t)| MSeed::AddNode(w, n, t)),
        1 => (b(), b()).prop_map(|(w, n)| MSeed::DeleteNode(w, n)),
        1 => (b(), 0..N_EDGES, b(), b(), 0..N_TYPES).prop_map(|(w, e, f, t, ty)| MSeed::UpsertEdge(w, e, f, t, ty)),
        3 => (b(), b(), b()).prop_map(|(w, e, f)| MSeed::ReparentEdge(w, e, f)),
        1 => (b(), b(), b()).prop_map(|(w, e, t)| MSeed::RetargetEdge(w, e, t)),
        1 => (b(), b(), 0..N_TYPES).prop_map(|(w, e, t)| MSeed::RetypeEdge(w, e, t)),
        1 => (b(), b()).prop_map(|(w, e)| MSeed::DeleteEdge(w, e)),
        2 => (b(), b(), prop::option::of(atom_val())).prop_map(|(w, n, v)| MSeed::SetNodeAtt(w, n, v)),
        2 => (b(), b(), prop::option::of(atom_val())).prop_map(|(w, e, v)| MSeed::SetEdgeAtt(w, e, v)),
        1 => (b(), any::<bool>(), b(), 0..N_NODES).prop_map(|(w, oe, o, r)| MSeed::OpenPortal(w, oe, o, r)),
        1 => b().prop_map(MSeed::DeleteChild),
    ]
}

fn pickv<T: Copy>(v: &[T], i: u8) -> Option<T> {
    if v.is_empty() { None } else { Some(v[i as usize % v.len()]) }
}

fn delete_child_rec(s: &mut AState, c: u8) {
    // delete nested children first
    let nested: Vec<u8> = s.warps.iter().filter(|(_, w)| w.parent.as_ref().map(|p| p.warp()) == Some(c)).map(|(k, _)| *k).collect();
    for n in nested {
        delete_child_rec(s, n);
    }
    if let Some(w) = s.warps.remove(&c) {
        if let Some(p) = w.parent {
            match p {
                ASlot::Node(pw, n) => {
                    if let Some(x) = s.warps.get_mut(&pw) {
                        x.natt.remove(&n);
                    }
                }
                ASlot::Edge(pw, e) => {
                    if let Some(x) = s.warps.get_mut(&pw) {
                        x.eatt.remove(&e);
                    }
                }
            }
        }
    }
}

pub fn mutate(s: &mut AState, m: &MSeed) {
    let warps: Vec<u8> = s.warps.keys().copied().collect();
    let before = s.clone();
    let w = |i: u8| pickv(&warps, i).unwrap_or(0);
    match m {
        MSeed::RetypeNode(wi, n, t) => {
            let wr = s.warps.get_mut(&w(*wi)).unwrap();
            let ns: Vec<u8> = wr.nodes.keys().copied().collect();
            if let Some(n) = pickv(&ns, *n) {
                wr.nodes.insert(n, *t);
            }
        }
        MSeed::AddNode(wi, n, t) => {
            s.warps.get_mut(&w(*wi)).unwrap().nodes.insert(*n, *t);
        }
        MSeed::DeleteNode(wi, n) => {
            let wk = w(*wi);
            let ns: Vec<u8> = s.warps[&wk].nodes.keys().copied().collect();
            if let Some(n) = pickv(&ns, *n) {
                if n != s.warps[&wk].root_node {
                    // remove portals owned by n or by incident edges
                    let inc: Vec<u8> = s.warps[&wk].edges.iter().filter(|(_, r)| r.from == n || r.to == n).map(|(e, _)| *e).collect();
                    let mut kids = Vec::new();
                    if let Some(AVal::Descend(c)) = s.warps[&wk].natt.get(&n) {
                        kids.push(*c);
                    }
                    for e in &inc {
                        if let Some(AVal::Descend(c)) = s.warps[&wk].eatt.get(e) {
                            kids.push(*c);
                        }
                    }
                    for c in kids {
                        delete_child_rec(s, c);
                    }
                    let wr = s.warps.get_mut(&wk).unwrap();
                    for e in inc {
                        wr.edges.remove(&e);
                        wr.eatt.remove(&e);
                    }
                    wr.nodes.remove(&n);
                    wr.natt.remove(&n);
                }
            }
        }
        MSeed::UpsertEdge(wi, e, f, t, ty) => {
            let wr = s.warps.get_mut(&w(*wi)).unwrap();
            let ns: Vec<u8> = wr.nodes.keys().copied().collect();
            if let (Some(f), Some(t)) = (pickv(&ns, *f), pickv(&ns, *t)) {
                wr.edges.insert(*e, AEdge { from: f, to: t, ty: *ty });
            }
        }
        MSeed::ReparentEdge(wi, e, f) | MSeed::RetargetEdge(wi, e, f) | MSeed::RetypeEdge(wi, e, f) => {
            let wr = s.warps.get_mut(&w(*wi)).unwrap();
            let ns: Vec<u8> = wr.nodes.keys().copied().collect();
            let es: Vec<u8> = wr.edges.keys().copied().collect();
            if let (Some(e), Some(nn)) = (pickv(&es, *e), pickv(&ns, *f)) {
                let r = wr.edges.get_mut(&e).unwrap();
                match m {
                    MSeed::ReparentEdge(..) => r.from = nn,
                    MSeed::RetargetEdge(..) => r.to = nn,
                    _ => r.ty = f % N_TYPES,
                }
            }
        }
        MSeed::DeleteEdge(wi, e) => {
            let wk = w(*wi);
            let es: Vec<u8> = s.warps[&wk].edges.keys().copied().collect();
            if let Some(e) = pickv(&es, *e) {
                if let Some(AVal::Descend(c)) = s.warps[&wk].eatt.get(&e).cloned() {
                    delete_child_rec(s, c);
                }
                let wr = s.warps.get_mut(&wk).unwrap();
                wr.edges.remove(&e);
                wr.eatt.remove(&e);
            }
        }
        MSeed::SetNodeAtt(wi, n, v) => {
            let wr = s.warps.get_mut(&w(*wi)).unwrap();
            let ns: Vec<u8> = wr.nodes.keys().copied().filter(|n| !matches!(wr.natt.get(n), Some(AVal::Descend(_)))).collect();
            if let Some(n) = pickv(&ns, *n) {
                match v {
                    Some(v) => {
                        wr.natt.insert(n, v.clone());
                    }
                    None => {
                        wr.natt.remove(&n);
                    }
                }
            }
        }
        MSeed::SetEdgeAtt(wi, e, v) => {
            let wr = s.warps.get_mut(&w(*wi)).unwrap();
            let es: Vec<u8> = wr.edges.keys().copied().filter(|e| !matches!(wr.eatt.get(e), Some(AVal::Descend(_)))).collect();
            if let Some(e) = pickv(&es, *e) {
                match v {
                    Some(v) => {
                        wr.eatt.insert(e, v.clone());
                    }
                    None => {
                        wr.eatt.remove(&e);
                    }
                }
            }
        }
        MSeed::OpenPortal(wi, on_edge, owner, root) => {
            let wk = w(*wi);
            if let Some(child) = (1..N_WARPS).find(|c| !s.warps.contains_key(c)) {
                let wr = &s.warps[&wk];
                let slot = if *on_edge {
                    let es: Vec<u8> = wr.edges.keys().copied().filter(|e| !matches!(wr.eatt.get(e), Some(AVal::Descend(_)))).collect();
                    pickv(&es, *owner).map(|e| ASlot::Edge(wk, e))
                } else {
                    let ns: Vec<u8> = wr.nodes.keys().copied().filter(|n| !matches!(wr.natt.get(n), Some(AVal::Descend(_)))).collect();
                    pickv(&ns, *owner).map(|n| ASlot::Node(wk, n))
                };
                if let Some(slot) = slot {
                    match &slot {
                        ASlot::Node(_, n) => {
                            s.warps.get_mut(&wk).unwrap().natt.insert(*n, AVal::Descend(child));
                        }
                        ASlot::Edge(_, e) => {
                            s.warps.get_mut(&wk).unwrap().eatt.insert(*e, AVal::Descend(child));
                        }
                    }
                    let mut cw = AWarp { root_node: *root, parent: Some(slot), ..Default::default() };
                    cw.nodes.insert(*root, 0);
                    s.warps.insert(child, cw);
                }
            }
        }
        MSeed::DeleteChild(c) => {
            let kids: Vec<u8> = warps.iter().copied().filter(|k| *k != 0).collect();
            if let Some(c) = pickv(&kids, *c) {
                delete_child_rec(s, c);
            }
        }
    }
    if !s.well_formed() {
        *s = before;
    }
}

#[derive(Clone, Debug, Serialize, Deserialize)]
pub struct WalkPair {
    state: StateSeed,
    walk: Vec<MSeed>,
    order_a: Vec<u16>,
    order_b: Vec<u16>,
}

fn walk_pair() -> impl Strategy<Value = WalkPair> {
    (
        state_seed(),
        prop::collection::vec(mseed(), 1..9),
        prop::collection::vec(any::<u16>(), 0..5),
        prop::collection::vec(any::<u16>(), 0..5),
    )
        .prop_map(|(state, walk, order_a, order_b)| WalkPair { state, walk, order_a, order_b })
}

fn check_walk(_ctx: &Ctx, p: &WalkPair, probe: &mut Probe) -> Check {
    let a = realise_state(&p.state);
    let mut b = a.clone();
    for m in &p.walk {
        mutate(&mut b, m);
    }
    let ar = build_real(&a, &p.order_a);
    let br = build_real(&b, &p.order_b);
    check_pair_states(&a, &ar, &b, &br, probe, "walk a->b")?;
    check_pair_states(&b, &br, &a, &ar, probe, "walk b->a")?;
    probe.evals(2);
    if a.warps.len() != b.warps.len() {
        probe.class("instance-count-changes");
    }
    Ok(())
}

pub fn subs(_ctx: &Ctx) -> Vec<Box<dyn Sub>> {
    vec![
        prop_sub("tick-sequences-replay", 2500, 80_000, seq_case(), check_seq),
        prop_sub("pairs-micro-universe", 200_000, 20_000_000, micro_pair(), check_micro),
        prop_sub("pairs-mutation-walk", 20_000, 600_000, walk_pair(), check_walk),
    ]
}

pub fn micro_universe_pub() -> &'static Vec<AState> {
    micro_universe()
}

pub fn mseed_pub() -> impl Strategy<Value = MSeed> {
    mseed()
}
