//! C14 — undeclared access never commits; declared access is never flagged; attributed write
//! targets cover every observable change of an op.

use crate::c01::{build_cands, fail_of, small_case, Case};
use proptest::prelude::*;
use serde::{Deserialize, Serialize};
use vkit::{enum_sub, prop_sub, vensure, vensure_eq, vfail, Check, Ctx, Fail, Probe, Sub};
use vmodel::dsl::*;
use vmodel::tick::*;
use vmodel::universe::*;
use warp_core::{GraphView, ViolationKind, WarpOp, WarpState};

#[derive(Clone, Debug, Serialize, Deserialize)]
pub enum DKind {
    /// remove exactly one entry (picked by index) of the honest footprint
    OmitEntry(u16),
    /// as above, and the program panics at its end
    OmitEntryThenPanic(u16),
    /// emit an op into another instance
    ForeignWrite(u8),
    /// re-point exactly one node/edge READ entry at another instance (same local id): the
    /// access in the rewrite's own instance is then undeclared
    MisdirectRead(u16),
    /// a non-system rule emits an instance-level op
    InstanceOp,
    /// one WRITE entry is omitted and the executor first replaces the delta it was handed by a
    /// fresh one (so the ops it emits do not sit where a position-based check expects them)
    DeltaSwap(u16),
}

#[derive(Clone, Debug, Serialize, Deserialize)]
pub struct VCase {
    pub base: Case,
    pub violator: u16,
    pub kind: DKind,
    pub worker_of_violator: u8,
    pub n_workers: u8,
}

fn vcase() -> impl Strategy<Value = VCase> {
    (
        small_case(),
        any::<u16>(),
        prop_oneof![
            6 => any::<u16>().prop_map(DKind::OmitEntry),
            2 => any::<u16>().prop_map(DKind::OmitEntryThenPanic),
            1 => (0u8..4).prop_map(DKind::ForeignWrite),
            3 => any::<u16>().prop_map(DKind::MisdirectRead),
            1 => Just(DKind::InstanceOp),
            2 => any::<u16>().prop_map(DKind::DeltaSwap),
        ],
        0u8..4,
        1u8..5,
    )
        .prop_map(|(mut base, violator, kind, worker_of_violator, n_workers)| {
            base.cfg.chains = false;
            base.perms.truncate(1);
            VCase { base, violator, kind, worker_of_violator, n_workers }
        })
}

#[derive(Clone, Debug, PartialEq)]
enum Expect {
    NodeRead(u8),
    EdgeRead(u8),
    AttRead(ASlot),
    NodeWrite(u8),
    EdgeWrite(u8),
    AttWrite(ASlot),
    CrossWarp(u8),
    InstanceOp,
}

fn entries(fp: &AFootprint) -> Vec<Expect> {
    let mut v = Vec::new();
    v.extend(fp.n_read.iter().map(|n| Expect::NodeRead(*n)));
    v.extend(fp.e_read.iter().map(|e| Expect::EdgeRead(*e)));
    v.extend(fp.a_read.iter().map(|s| Expect::AttRead(s.clone())));
    v.extend(fp.n_write.iter().map(|n| Expect::NodeWrite(*n)));
    v.extend(fp.e_write.iter().map(|e| Expect::EdgeWrite(*e)));
    v.extend(fp.a_write.iter().map(|s| Expect::AttWrite(s.clone())));
    v
}

fn remove_entry(fp: &mut AFootprint, e: &Expect) {
    match e {
        Expect::NodeRead(n) => {
            fp.n_read.remove(n);
        }
        Expect::EdgeRead(x) => {
            fp.e_read.remove(x);
        }
        Expect::AttRead(s) => {
            fp.a_read.remove(s);
        }
        Expect::NodeWrite(n) => {
            fp.n_write.remove(n);
        }
        Expect::EdgeWrite(x) => {
            fp.e_write.remove(x);
        }
        Expect::AttWrite(s) => {
            fp.a_write.remove(s);
        }
        _ => {}
    }
}

fn kind_matches(k: &ViolationKind, e: &Expect) -> bool {
    match (k, e) {
        (ViolationKind::NodeReadNotDeclared(id), Expect::NodeRead(n)) => *id == node_id(*n),
        (ViolationKind::EdgeReadNotDeclared(id), Expect::EdgeRead(x)) => *id == edge_id(*x),
        (ViolationKind::AttachmentReadNotDeclared(key), Expect::AttRead(s)) => *key == s.key(),
        (ViolationKind::NodeWriteNotDeclared(id), Expect::NodeWrite(n)) => *id == node_id(*n),
        (ViolationKind::EdgeWriteNotDeclared(id), Expect::EdgeWrite(x)) => *id == edge_id(*x),
        (ViolationKind::AttachmentWriteNotDeclared(key), Expect::AttWrite(s)) => *key == s.key(),
        (ViolationKind::CrossWarpEmission { op_warp }, Expect::CrossWarp(w)) => *op_warp == warp_id(*w),
        (ViolationKind::UnauthorizedInstanceOp, Expect::InstanceOp) => true,
        _ => false,
    }
}

fn check_violation(_ctx: &Ctx, case: &VCase, probe: &mut Probe) -> Check {
    let pre = realise_state(&case.base.state);
    let honest = build_cands(&pre, &case.base);
    if honest.is_empty() {
        return Ok(());
    }
    let cfg = {
        let mut c = case.base.cfg.clone();
        c.workers = 1;
        c
    };
    let seq: Vec<usize> = (0..honest.len()).collect();

    // honest baseline (no false positive direction)
    install_programs(&honest);
    let mut live_h = make_engine(&pre, &cfg).map_err(|e| fail_of(e, "make_engine"))?;
    let base = run_engine_tick(&mut live_h, &pre, &honest, &seq, &cfg, None).map_err(|e| fail_of(e, "honest tick"))?;

    // pick the violator among non-system candidates whose condition holds
    let eligible: Vec<usize> = (0..honest.len())
        .filter(|i| !SYSTEM_SLOTS.contains(&honest[*i].slot) && cond_holds(&pre, honest[*i].w, &honest[*i].prog.cond))
        .collect();
    if eligible.is_empty() {
        probe.class("no-eligible-violator");
        return Ok(());
    }
    let vi = eligible[vkit::pick_idx(case.violator, eligible.len())];
    let mut cands = honest.clone();
    let v = &mut cands[vi];
    let expect: Expect = match &case.kind {
        DKind::OmitEntry(p) | DKind::OmitEntryThenPanic(p) => {
            let es = entries(&v.prog.fp);
            if es.is_empty() {
                probe.class("violator-has-empty-footprint");
                return Ok(());
            }
            let e = es[vkit::pick_idx(*p, es.len())].clone();
            remove_entry(&mut v.prog.fp, &e);
            if matches!(case.kind, DKind::OmitEntryThenPanic(_)) {
                v.prog.instrs.push(Instr::Panic);
            }
            e
        }
        DKind::MisdirectRead(p) => {
            let es: Vec<Expect> = entries(&v.prog.fp).into_iter().filter(|e| matches!(e, Expect::NodeRead(_) | Expect::EdgeRead(_))).collect();
            if es.is_empty() {
                probe.class("violator-has-no-node-or-edge-read");
                return Ok(());
            }
            let e = es[vkit::pick_idx(*p, es.len())].clone();
            // a write to the same key keeps the access declared in most guards: only pure reads
            let fw = (v.w + 1 + (*p as u8 % 3)) % 4;
            let fw = if fw == v.w { (fw + 1) % 4 } else { fw };
            match &e {
                Expect::NodeRead(n) if !v.prog.fp.n_write.contains(n) => {
                    v.prog.fp.n_read.remove(n);
                    v.prog.fp.foreign_n_read.insert((fw, *n));
                }
                Expect::EdgeRead(x) if !v.prog.fp.e_write.contains(x) => {
                    v.prog.fp.e_read.remove(x);
                    v.prog.fp.foreign_e_read.insert((fw, *x));
                }
                _ => {
                    probe.class("misdirect:entry-also-written");
                    return Ok(());
                }
            }
            e
        }
        DKind::DeltaSwap(p) => {
            let es: Vec<Expect> = entries(&v.prog.fp).into_iter().filter(|e| matches!(e, Expect::NodeWrite(_) | Expect::EdgeWrite(_) | Expect::AttWrite(_))).collect();
            if es.is_empty() {
                probe.class("violator-writes-nothing");
                return Ok(());
            }
            let e = es[vkit::pick_idx(*p, es.len())].clone();
            remove_entry(&mut v.prog.fp, &e);
            v.prog.instrs.insert(0, Instr::SwapDelta);
            e
        }
        DKind::ForeignWrite(w) => {
            let fw = if *w == v.w { (*w + 1) % 4 } else { *w };
            v.prog.instrs.push(Instr::ForeignUpsertNode { w: fw, n: 0, ty: 0 });
            Expect::CrossWarp(fw)
        }
        DKind::InstanceOp => {
            let owner = pre.warps[&v.w].root_node;
            // half of the cases: a portal to an instance required to exist already (an existing
            // child of this state when there is one, so that nothing else refuses the op)
            if case.violator % 2 == 1 {
                let existing = pre.warps.iter().find(|(w, _)| **w != v.w && **w != 0).map(|(w, st)| (*w, st.root_node));
                let (child, child_root) = existing.unwrap_or((3, 0));
                v.prog.instrs.push(Instr::OpenPortalExisting { slot_on_edge: false, owner, child, child_root });
                probe.class("instance-op:portal-to-existing-instance");
            } else {
                v.prog.instrs.push(Instr::OpenPortal { slot_on_edge: false, owner, child: 3, child_root: 0, ty: 0 });
            }
            v.prog.fp.a_write.insert(ASlot::Node(v.w, owner));
            Expect::InstanceOp
        }
    };
    let with_panic = matches!(case.kind, DKind::OmitEntryThenPanic(_));
    let vkey = (v.slot, v.w, v.scope);
    install_programs(&cands);

    // will the violator be admitted under its (dishonest) declaration?
    let set = candidate_set(&pre, &cands, &seq);
    let m = model_tick(&pre, &set, false);
    let v_accepted = m.accepted_cands.iter().any(|ci| (set[*ci].slot, set[*ci].w, set[*ci].scope) == vkey);

    // learn the unit structure of the dishonest tick to place the violator's unit on a worker
    let mut live = make_engine(&pre, &cfg).map_err(|e| fail_of(e, "make_engine"))?;
    let root_before = live.engine.snapshot().state_root;
    let n_workers = case.n_workers.max(1) as usize;
    // first attempt unscripted to record units (result must obey the same oracle)
    let mut attempts: Vec<Option<Vec<Vec<usize>>>> = vec![None];
    let outcome0 = run_engine_tick(&mut live, &pre, &cands, &seq, &cfg, None);
    let units = warp_core::echo_verif::last_work_units();
    if let Some(vu) = units.iter().position(|(w, scopes)| *w == warp_id(vkey.1) && scopes.contains(&scope_id(vkey.2))) {
        let mut script = vec![Vec::new(); n_workers];
        let vw = (case.worker_of_violator as usize) % n_workers;
        let mut rr = 0;
        for u in 0..units.len() {
            if u == vu {
                script[vw].push(u);
            } else {
                script[rr % n_workers].push(u);
                rr += 1;
            }
        }
        attempts.push(Some(script));
    }
    let mut first = Some(outcome0);
    for script in attempts {
        let outcome = match first.take() {
            Some(o) => o,
            None => {
                // fresh engine for the scripted attempt
                live = make_engine(&pre, &cfg).map_err(|e| fail_of(e, "make_engine"))?;
                run_engine_tick(&mut live, &pre, &cands, &seq, &cfg, script.clone())
            }
        };
        if !v_accepted {
            // the violator is rejected by admission: it never runs, the tick commits
            match outcome {
                Ok(_) => probe.class("violator-rejected-by-admission"),
                Err(e) => return Err(fail_of(e, "tick with a rejected violator")),
            }
            continue;
        }
        match outcome {
            Ok(run) => {
                vfail!(
                    format!("C14/undeclared-access-committed/{}", expect_name(&expect)),
                    "violator {:?} with {:?} (expected {:?}) committed; post == honest post: {}", vkey, case.kind, expect, run.post == base.post
                );
            }
            Err(RunErr::Violation(fv)) => {
                vensure!(!with_panic || matches!(expect, Expect::NodeRead(_) | Expect::EdgeRead(_) | Expect::AttRead(_)),
                    "C14/violation-lost-executor-panic", "expected FootprintViolationWithPanic, got plain violation {:?}", fv);
                vensure!(kind_matches(&fv.kind, &expect), "C14/violation-names-wrong-access", "got {:?}, expected {:?}", fv, expect);
                vensure_eq!(fv.rule_name, SLOT_NAMES[vkey.0 as usize], "C14/violation-names-wrong-rule", "{:?}", fv);
                vensure_eq!(fv.warp_id, warp_id(vkey.1), "C14/violation-names-wrong-warp", "{:?}", fv);
            }
            Err(RunErr::ViolationWithPanic(fv, msg)) => {
                vensure!(with_panic, "C14/unexpected-with-panic", "{:?} {msg}", fv);
                vensure!(kind_matches(&fv.kind, &expect), "C14/violation-names-wrong-access", "got {:?}, expected {:?}", fv, expect);
            }
            Err(RunErr::Panic(_)) if matches!(case.kind, DKind::MisdirectRead(_)) => {
                // the guard refuses a read set that names another instance outright (an
                // assertion when the guard is built): the tick fails before anything runs
                probe.class("misdirected-declaration-refused-at-guard-construction");
            }
            Err(RunErr::Panic(_)) if matches!(case.kind, DKind::DeltaSwap(_)) => {
                // a delta left shorter than it was found is refused outright: the tick fails
                probe.class("delta-swap-refused-by-a-plain-panic");
            }
            Err(RunErr::Panic(msg)) => {
                vfail!("C14/violation-reported-as-plain-panic", "expected a FootprintViolation payload for {:?}, got panic: {msg}", expect);
            }
            Err(e) => return Err(fail_of(e, "dishonest tick")),
        }
        // nothing of the tick is visible
        let after = AState::from_real(live.engine.state()).map_err(|m| Fail::new("C14/dump", m))?;
        vensure!(after == pre, "C14/failed-tick-left-state-change", "state after failed commit differs from the pre-state");
        vensure!(live.engine.get_ledger().is_empty(), "C14/failed-tick-in-ledger", "ledger has {} entries", live.engine.get_ledger().len());
        vensure_eq!(live.engine.snapshot().state_root, root_before, "C14/failed-tick-changed-root", "snapshot root");
        // a following honest tick commits normally and equals the honest baseline
        install_programs(&honest);
        let next = run_engine_tick(&mut live, &pre, &honest, &seq, &cfg, None).map_err(|e| fail_of(e, "honest tick after a failed one"))?;
        vensure!(next.post == base.post && next.snapshot.state_root == base.snapshot.state_root && next.patch == base.patch && next.entries == base.entries,
            "C14/tick-after-failure-differs", "honest tick after the failed tick differs from the honest baseline");
        install_programs(&cands);
        probe.class(format!("detected:{}", expect_name(&expect)));
        if with_panic {
            probe.class("with-executor-panic");
        }
        let pos = m.accepted_cands.iter().position(|ci| (set[*ci].slot, set[*ci].w, set[*ci].scope) == vkey).unwrap_or(0);
        if pos > 0 && m.accepted_cands.len() > 1 && script.as_ref().map(|s| s.iter().filter(|l| !l.is_empty()).count() >= 2).unwrap_or(false) {
            probe.nontrivial();
        }
        probe.evals(2);
    }
    Ok(())
}

fn expect_name(e: &Expect) -> &'static str {
    match e {
        Expect::NodeRead(_) => "node-read",
        Expect::EdgeRead(_) => "edge-existence-read",
        Expect::AttRead(ASlot::Node(..)) => "node-attachment-read",
        Expect::AttRead(ASlot::Edge(..)) => "edge-attachment-read",
        Expect::NodeWrite(_) => "node-write",
        Expect::EdgeWrite(_) => "edge-write",
        Expect::AttWrite(_) => "attachment-write",
        Expect::CrossWarp(_) => "cross-warp-emission",
        Expect::InstanceOp => "instance-op-by-user-rule",
    }
}

// ---------------------------------------------------------------------------
// attribution completeness: op-by-op differential over the micro-universe

#[derive(Clone, Debug, Serialize, Deserialize)]
pub struct AttrBlock {
    op: AOp,
}

fn micro_ops() -> Vec<AOp> {
    let mut ops = Vec::new();
    let atoms = [None, Some(AVal::Atom { ty: 0, bytes: vec![1] }), Some(AVal::Atom { ty: 1, bytes: vec![] })];
    for n in 0..2u8 {
        for ty in 0..2u8 {
            ops.push(AOp::UpsertNode { w: 0, n, ty });
        }
        ops.push(AOp::DeleteNode { w: 0, n });
        for v in &atoms {
            ops.push(AOp::SetAtt { slot: ASlot::Node(0, n), val: v.clone() });
        }
    }
    for e in 0..2u8 {
        for from in 0..2u8 {
            ops.push(AOp::DeleteEdge { w: 0, from, e });
            for to in 0..2u8 {
                for ty in 0..2u8 {
                    ops.push(AOp::UpsertEdge { w: 0, e, from, to, ty });
                }
            }
        }
        for v in &atoms {
            ops.push(AOp::SetAtt { slot: ASlot::Edge(0, e), val: v.clone() });
        }
    }
    ops
}

fn attr_blocks(_ctx: &Ctx) -> Box<dyn Iterator<Item = AttrBlock>> {
    Box::new(micro_ops().into_iter().map(|op| AttrBlock { op }))
}

/// what a GraphView exposes about one store, over the micro ids
fn observe(state: &WarpState) -> Vec<(String, String)> {
    let mut out = Vec::new();
    let Some(store) = state.store(&warp_id(0)) else { return out };
    let view = GraphView::new(store);
    for n in 0..3u8 {
        let id = node_id(n);
        out.push((format!("node:{n}"), format!("{:?}", view.node(&id))));
        let mut adj: Vec<String> = view.edges_from(&id).map(|e| format!("{:?}", e)).collect();
        adj.sort();
        out.push((format!("adj:{n}"), format!("{:?}", adj)));
        out.push((format!("natt:{n}"), format!("{:?}", view.node_attachment(&id))));
    }
    for e in 0..3u8 {
        let id = edge_id(e);
        out.push((format!("has_edge:{e}"), format!("{}", view.has_edge(&id))));
        out.push((format!("eatt:{e}"), format!("{:?}", view.edge_attachment(&id))));
    }
    out
}

fn check_attr(ctx: &Ctx, b: &AttrBlock, probe: &mut Probe) -> Check {
    let real_op: WarpOp = b.op.to_real();
    let t = warp_core::echo_verif::op_write_targets(&real_op);
    let universe = crate::c04::micro_universe_pub();
    let mut applied = 0u64;
    for (i, a) in universe.iter().enumerate() {
        let before = a.to_real(&[]);
        let mut after = before.clone();
        let patch = warp_core::WarpTickPatchV1::new(0, [0; 32], warp_core::TickCommitStatus::Committed, vec![], vec![], vec![real_op.clone()]);
        if patch.apply_to_state(&mut after).is_err() {
            continue;
        }
        applied += 1;
        let (ob, oa) = (observe(&before), observe(&after));
        for ((loc, vb), (_, va)) in ob.iter().zip(oa.iter()) {
            if vb == va {
                continue;
            }
            let (kind, ix) = loc.split_once(':').unwrap();
            let ix: u8 = ix.parse().unwrap();
            let covered = match kind {
                "node" | "adj" => t.nodes.contains(&node_id(ix)),
                "natt" => t.attachments.contains(&ASlot::Node(0, ix).key()),
                "has_edge" => t.edges.contains(&edge_id(ix)),
                "eatt" => t.attachments.contains(&ASlot::Edge(0, ix).key()),
                _ => true,
            };
            if !covered {
                let detail = match (&b.op, kind) {
                    (AOp::UpsertEdge { e, from, .. }, "adj") => {
                        let prev = a.warps[&0].edges.get(e).map(|r| r.from);
                        if ix == *from {
                            "adj-of-new-source"
                        } else if prev == Some(ix) {
                            "adj-of-previous-source-on-reparent"
                        } else {
                            "adj-of-unrelated-node"
                        }
                    }
                    (_, k) => k,
                };
                let sig = format!("C14/attribution-gap/{}/{}", op_name(&b.op), detail);
                if ctx.is_known(&sig) {
                    probe.known(sig);
                    continue;
                }
                vfail!(sig, "op {:?} on micro state #{i} {:?} changes observable location {loc} ({vb} -> {va}) which is not among its attributed targets {:?}", b.op, a, t);
            }
            probe.sub_nontrivial(format!("{:?}|{i}|{loc}", b.op).as_bytes());
        }
    }
    probe.evals(applied);
    Ok(())
}

fn op_name(op: &AOp) -> &'static str {
    match op {
        AOp::UpsertNode { .. } => "UpsertNode",
        AOp::DeleteNode { .. } => "DeleteNode",
        AOp::UpsertEdge { .. } => "UpsertEdge",
        AOp::DeleteEdge { .. } => "DeleteEdge",
        AOp::SetAtt { .. } => "SetAttachment",
        _ => "instance-op",
    }
}

pub fn subs(_ctx: &Ctx) -> Vec<Box<dyn Sub>> {
    vec![
        prop_sub("violator-among-honest-rewrites", 6000, 120_000, vcase(), check_violation),
        enum_sub("attribution-vs-observable-change", |_| true, attr_blocks, check_attr),
    ]
}
