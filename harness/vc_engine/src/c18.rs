//! C18 — materialized output is independent of emission order.
//!
//! Domain: emission sets {(channel, EmitKey, bytes)} over 4 channels x policy, all
//! permutations for <= 7 emissions (inside each case), sampled permutations beyond.
//! Oracles: (1) permutation invariance of FinalizeReport / emissions digest / frame
//! encodings; (2) an independent reference fold per policy; (3) commutative reducers are
//! invariant under bijective re-keying; (4) a repeated (channel,key) is always rejected and
//! leaves the first value in place.

use proptest::prelude::*;
use serde::{Deserialize, Serialize};
use std::collections::BTreeMap;
use vkit::{enum_sub, prop_sub, vensure, vensure_eq, vfail, Check, Ctx, Probe, Sub, Tier};
use warp_core::materialization::{
    decode_frames, decode_v2_packet, encode_frames, encode_v2_packet, ChannelConflict, ChannelPolicy,
    EmissionPort, EmitKey, MaterializationBus, MaterializationErrorKind, MaterializationFrame,
    ReduceOp, ScopedEmitter, V2Entry, V2PacketHeader,
};
use warp_core::{compute_emissions_digest, TypeId, WarpId};

#[derive(Clone, Debug, Serialize, Deserialize, PartialEq, Eq, PartialOrd, Ord)]
pub struct Em {
    pub ch: u8,
    /// scope hash = 31 zero bytes + `scope_hi` at a generated position
    pub scope_pos: u8,
    pub scope_byte: u8,
    pub rule: u32,
    pub subkey: u32,
    pub data: Vec<u8>,
}

#[derive(Clone, Debug, Serialize, Deserialize)]
pub struct Case {
    /// policy index per channel, 0=Log 1=StrictSingle 2..=9 Reduce(op)
    pub pol: [u8; 4],
    pub ems: Vec<Em>,
    /// sampled permutations (Fisher–Yates swap indices), used when len > 7
    pub perms: Vec<Vec<u16>>,
    /// re-keying seeds
    pub rekey: Vec<(u8, u8, u32, u32)>,
    /// duplicate attempts: (index into ems, replacement data)
    pub dups: Vec<(u16, Vec<u8>)>,
    /// use ScopedEmitter instead of bus.emit
    pub scoped: bool,
}

const OPS: [ReduceOp; 8] = [
    ReduceOp::Sum,
    ReduceOp::Max,
    ReduceOp::Min,
    ReduceOp::BitOr,
    ReduceOp::BitAnd,
    ReduceOp::First,
    ReduceOp::Last,
    ReduceOp::Concat,
];

fn policy(ix: u8) -> ChannelPolicy {
    match ix {
        0 => ChannelPolicy::Log,
        1 => ChannelPolicy::StrictSingle,
        n => ChannelPolicy::Reduce(OPS[((n - 2) % 8) as usize]),
    }
}

fn chan(ix: u8) -> TypeId {
    // fixed ids; order of channel ids is not the order of indices
    let mut h = [0u8; 32];
    h[0] = [0x80, 0x10, 0xff, 0x40][(ix % 4) as usize];
    h[31] = ix;
    TypeId(h)
}

fn key_of(e: &Em) -> EmitKey {
    let mut h = [0u8; 32];
    h[(e.scope_pos % 32) as usize] = e.scope_byte;
    EmitKey::with_subkey(h, e.rule, e.subkey)
}

fn key_tuple(k: &EmitKey) -> ([u8; 32], u32, u32) {
    (k.scope_hash, k.rule_id, k.subkey)
}

fn data_strategy() -> impl Strategy<Value = Vec<u8>> {
    prop_oneof![
        Just(vec![]),
        prop::collection::vec(any::<u8>(), 1),
        prop::collection::vec(any::<u8>(), 7),
        prop::collection::vec(any::<u8>(), 8),
        prop::collection::vec(any::<u8>(), 9),
        prop::collection::vec(any::<u8>(), 33),
        prop::collection::vec(any::<u8>(), 0..20),
        prop::collection::vec(prop_oneof![Just(0u8), Just(0xffu8), Just(1u8)], 0..12),
    ]
}

fn em_strategy() -> impl Strategy<Value = Em> {
    (
        0u8..4,
        prop_oneof![Just(0u8), Just(31u8), Just(15u8), 0u8..32],
        prop_oneof![Just(0u8), Just(1u8), Just(0xffu8), any::<u8>()],
        prop_oneof![Just(0u32), Just(1u32), Just(256u32), Just(u32::MAX), 0u32..4],
        prop_oneof![Just(0u32), Just(1u32), Just(1u32 << 31), 0u32..4],
        data_strategy(),
    )
        .prop_map(|(ch, scope_pos, scope_byte, rule, subkey, data)| Em {
            ch,
            scope_pos,
            scope_byte,
            rule,
            subkey,
            data,
        })
}

fn case_strategy(max: usize) -> impl Strategy<Value = Case> {
    (
        prop::array::uniform4(0u8..10),
        prop::collection::vec(em_strategy(), 0..max),
        prop::collection::vec(prop::collection::vec(any::<u16>(), max), 6),
        prop::collection::vec((0u8..32, any::<u8>(), any::<u32>(), any::<u32>()), max),
        prop::collection::vec((any::<u16>(), data_strategy()), 0..4),
        any::<bool>(),
    )
        .prop_map(|(pol, ems, perms, rekey, dups, scoped)| Case {
            pol,
            ems,
            perms,
            rekey,
            dups,
            scoped,
        })
}

/// Canonical emission set: dedupe by (channel, key) keeping the first, in generated order.
fn emission_set(ems: &[Em]) -> Vec<Em> {
    let mut seen = std::collections::BTreeSet::new();
    let mut out = Vec::new();
    for e in ems {
        if seen.insert((e.ch % 4, key_tuple(&key_of(e)))) {
            out.push(e.clone());
        }
    }
    out
}

#[derive(Debug, Clone, PartialEq, Eq)]
struct Outcome {
    channels: Vec<(TypeId, Vec<u8>)>,
    errors: Vec<(TypeId, usize)>,
    digest: [u8; 32],
    frames: Vec<u8>,
    v2: Vec<u8>,
}

fn run_bus(pol: &[u8; 4], order: &[Em], scoped: bool) -> Result<Outcome, vkit::Fail> {
    let mut bus = MaterializationBus::new();
    for c in 0..4u8 {
        bus.register_channel(chan(c), policy(pol[c as usize]));
    }
    for e in order {
        let k = key_of(e);
        let r = if scoped {
            let em = ScopedEmitter::new(&bus, k.scope_hash, k.rule_id);
            if k.subkey == 0 {
                em.emit(chan(e.ch), e.data.clone())
            } else {
                em.emit_with_subkey(chan(e.ch), k.subkey, e.data.clone())
            }
        } else {
            bus.emit(chan(e.ch), k, e.data.clone())
        };
        if r.is_err() {
            return Err(vkit::Fail::new(
                "C18/emit/fresh-key-rejected",
                format!("emission with a fresh (channel,key) was rejected: {e:?}"),
            ));
        }
    }
    let report = bus.finalize();
    if !bus.is_empty() {
        return Err(vkit::Fail::new("C18/finalize/not-cleared", "bus not empty after finalize"));
    }
    let digest = compute_emissions_digest(&report.channels);
    let frames: Vec<MaterializationFrame> = report
        .channels
        .iter()
        .map(|c| MaterializationFrame::new(c.channel, c.data.clone()))
        .collect();
    let fbytes = encode_frames(&frames);
    // round trip of frames (C12 round-trip group)
    match decode_frames(&fbytes) {
        Some(back) if back == frames => {}
        other => {
            return Err(vkit::Fail::new(
                "C18/frames/roundtrip",
                format!("decode_frames(encode_frames(x)) != x: {other:?}"),
            ))
        }
    }
    let header = V2PacketHeader {
        session_id: [1; 32],
        cursor_id: [2; 32],
        worldline_id: [3; 32],
        warp_id: WarpId([4; 32]),
        tick: 7,
        commit_hash: digest,
    };
    let entries: Vec<V2Entry> = report
        .channels
        .iter()
        .map(|c| V2Entry {
            channel: c.channel,
            value_hash: *blake3::hash(&c.data).as_bytes(),
            value: c.data.clone(),
        })
        .collect();
    let v2 = encode_v2_packet(&header, &entries)
        .map_err(|e| vkit::Fail::new("C18/v2/encode", format!("{e:?}")))?;
    match decode_v2_packet(&v2) {
        Ok(p) if p.header == header && p.entries == entries => {}
        other => {
            return Err(vkit::Fail::new(
                "C18/v2/roundtrip",
                format!("decode_v2_packet(encode(x)) != x: {other:?}"),
            ))
        }
    }
    Ok(Outcome {
        channels: report.channels.iter().map(|c| (c.channel, c.data.clone())).collect(),
        errors: report
            .errors
            .iter()
            .map(|ChannelConflict { channel, emission_count, kind }| {
                let MaterializationErrorKind::StrictSingleConflict = kind;
                (*channel, *emission_count)
            })
            .collect(),
        digest,
        frames: fbytes,
        v2,
    })
}

/// Independent reference: per channel, values in EmitKey order, folded per policy.
fn reference(pol: &[u8; 4], set: &[Em]) -> (BTreeMap<TypeId, Vec<u8>>, BTreeMap<TypeId, usize>) {
    let mut per: BTreeMap<u8, BTreeMap<([u8; 32], u32, u32), Vec<u8>>> = BTreeMap::new();
    for e in set {
        per.entry(e.ch % 4)
            .or_default()
            .insert(key_tuple(&key_of(e)), e.data.clone());
    }
    let mut ok = BTreeMap::new();
    let mut err = BTreeMap::new();
    for (c, m) in per {
        let vals: Vec<&Vec<u8>> = m.values().collect();
        let out: Option<Vec<u8>> = match pol[c as usize] {
            0 => {
                let mut r = Vec::new();
                for v in &vals {
                    r.extend_from_slice(&(v.len() as u32).to_le_bytes());
                    r.extend_from_slice(v);
                }
                Some(r)
            }
            1 => {
                if vals.len() > 1 {
                    None
                } else {
                    Some(vals[0].clone())
                }
            }
            n => Some(match (n - 2) % 8 {
                0 => {
                    let mut s = 0u64;
                    for v in &vals {
                        let mut b = [0u8; 8];
                        for (i, x) in v.iter().take(8).enumerate() {
                            b[i] = *x;
                        }
                        s = s.wrapping_add(u64::from_le_bytes(b));
                    }
                    s.to_le_bytes().to_vec()
                }
                1 => vals.iter().max_by(|a, b| a.as_slice().cmp(b.as_slice())).unwrap().to_vec(),
                2 => vals.iter().min_by(|a, b| a.as_slice().cmp(b.as_slice())).unwrap().to_vec(),
                3 => {
                    let len = vals.iter().map(|v| v.len()).max().unwrap();
                    (0..len)
                        .map(|i| vals.iter().fold(0u8, |a, v| a | v.get(i).copied().unwrap_or(0)))
                        .collect()
                }
                4 => {
                    let len = vals.iter().map(|v| v.len()).min().unwrap();
                    (0..len).map(|i| vals.iter().fold(0xffu8, |a, v| a & v[i])).collect()
                }
                5 => vals[0].clone(),
                6 => vals[vals.len() - 1].clone(),
                _ => vals.iter().flat_map(|v| v.iter().copied()).collect(),
            }),
        };
        match out {
            Some(d) => {
                ok.insert(chan(c), d);
            }
            None => {
                err.insert(chan(c), vals.len());
            }
        }
    }
    (ok, err)
}

fn permute(set: &[Em], swaps: &[u16]) -> Vec<Em> {
    let mut v = set.to_vec();
    let n = v.len();
    for i in (1..n).rev() {
        let j = vkit::pick_idx(swaps.get(i).copied().unwrap_or(0), i + 1);
        v.swap(i, j);
    }
    v
}

fn heap_permutations<T: Clone>(items: &[T], mut f: impl FnMut(&[T]) -> Check) -> Check {
    // iterative Heap's algorithm
    let mut a = items.to_vec();
    let n = a.len();
    let mut c = vec![0usize; n];
    f(&a)?;
    let mut i = 0;
    while i < n {
        if c[i] < i {
            if i % 2 == 0 {
                a.swap(0, i);
            } else {
                a.swap(c[i], i);
            }
            f(&a)?;
            c[i] += 1;
            i = 0;
        } else {
            c[i] = 0;
            i += 1;
        }
    }
    Ok(())
}

fn check_case(_ctx: &Ctx, case: &Case, probe: &mut Probe) -> Check {
    let set = emission_set(&case.ems);
    let base = run_bus(&case.pol, &set, case.scoped)?;

    // (2) reference fold
    let (rok, rerr) = reference(&case.pol, &set);
    let got_ok: BTreeMap<TypeId, Vec<u8>> = base.channels.iter().cloned().collect();
    let got_err: BTreeMap<TypeId, usize> = base.errors.iter().cloned().collect();
    vensure_eq!(got_ok, rok, "C18/reference/channel-bytes", "finalized bytes differ from reference fold");
    vensure_eq!(got_err, rerr, "C18/reference/conflicts", "reported conflicts differ from reference");
    vensure!(
        base.channels.len() == got_ok.len() && base.errors.len() == got_err.len(),
        "C18/report/partition",
        "a channel is reported twice"
    );

    // (1) permutation invariance
    let mut nperm = 0u64;
    if set.len() <= 7 {
        heap_permutations(&set, |p| {
            nperm += 1;
            let o = run_bus(&case.pol, p, case.scoped)?;
            if o != base {
                vfail!("C18/permutation/outcome-differs", "order {:?} gives {:?}, base {:?}", p, o, base);
            }
            Ok(())
        })?;
        probe.class("perm:exhaustive");
    } else {
        for sw in &case.perms {
            nperm += 1;
            let p = permute(&set, sw);
            let o = run_bus(&case.pol, &p, case.scoped)?;
            if o != base {
                vfail!("C18/permutation/outcome-differs", "order {:?} gives {:?}, base {:?}", p, o, base);
            }
        }
        let mut rev = set.clone();
        rev.reverse();
        let o = run_bus(&case.pol, &rev, case.scoped)?;
        vensure!(o == base, "C18/permutation/outcome-differs", "reversed order differs");
        nperm += 1;
        probe.class("perm:sampled");
    }
    probe.evals(nperm);

    // (3) re-keying invariance for commutative reducers: replace keys by fresh distinct keys
    {
        let mut used = std::collections::BTreeSet::new();
        let mut rek = Vec::new();
        for (i, e) in set.iter().enumerate() {
            let (p, b, r, s) = case.rekey.get(i).copied().unwrap_or((0, 0, 0, 0));
            let mut ne = Em { scope_pos: p, scope_byte: b, rule: r, subkey: s, ..e.clone() };
            let mut bump = 0u32;
            while !used.insert((ne.ch % 4, key_tuple(&key_of(&ne)))) {
                bump += 1;
                ne.subkey = s.wrapping_add(bump);
            }
            rek.push(ne);
        }
        let o = run_bus(&case.pol, &rek, false)?;
        let o_ok: BTreeMap<TypeId, Vec<u8>> = o.channels.iter().cloned().collect();
        for c in 0..4u8 {
            let commutative = match policy(case.pol[c as usize]) {
                ChannelPolicy::Reduce(op) => op.is_commutative(),
                _ => false,
            };
            if commutative {
                vensure_eq!(
                    o_ok.get(&chan(c)),
                    got_ok.get(&chan(c)),
                    "C18/rekey/commutative-reducer-changed",
                    "channel {} under {:?}", c, policy(case.pol[c as usize])
                );
            }
        }
    }

    // (4) duplicates always rejected, first value stays
    if !set.is_empty() {
        let mut bus = MaterializationBus::new();
        for c in 0..4u8 {
            bus.register_channel(chan(c), policy(case.pol[c as usize]));
        }
        for e in &set {
            let _ = bus.emit(chan(e.ch), key_of(e), e.data.clone());
        }
        for (ix, data) in &case.dups {
            let e = &set[vkit::pick_idx(*ix, set.len())];
            for d in [data.clone(), e.data.clone()] {
                match bus.emit(chan(e.ch), key_of(e), d) {
                    Err(dup) => {
                        vensure!(
                            dup.channel == chan(e.ch) && dup.key == key_of(e),
                            "C18/duplicate/wrong-witness",
                            "DuplicateEmission names the wrong pair"
                        );
                    }
                    Ok(()) => vfail!("C18/duplicate/accepted", "repeated (channel,key) accepted: {:?}", e),
                }
            }
        }
        let report = bus.finalize();
        let after: BTreeMap<TypeId, Vec<u8>> =
            report.channels.iter().map(|c| (c.channel, c.data.clone())).collect();
        vensure_eq!(after, got_ok, "C18/duplicate/changed-output", "rejected duplicate changed output");
        if !case.dups.is_empty() {
            probe.class("dup-attempt");
        }
    }

    // classification
    let mut per_ch: BTreeMap<u8, Vec<usize>> = BTreeMap::new();
    for e in &set {
        per_ch.entry(e.ch % 4).or_default().push(e.data.len());
    }
    let nontrivial = per_ch.values().any(|lens| {
        lens.len() >= 3 && lens.iter().collect::<std::collections::BTreeSet<_>>().len() >= 2
    });
    if nontrivial {
        probe.nontrivial();
    }
    for (c, lens) in &per_ch {
        if lens.len() >= 2 {
            probe.class(format!("multi:{:?}", policy(case.pol[*c as usize])));
        }
    }
    if !base.errors.is_empty() {
        probe.class("strict-single-conflict");
    }
    if case.scoped {
        probe.class("scoped-emitter");
    }
    Ok(())
}

/// Pure reducer law: ReduceOp::apply on all permutations of small value lists equals the
/// reference (commutative ops) — enumerated, RNG-free.
#[derive(Clone, Debug, Serialize, Deserialize)]
pub struct ReduceCase {
    op: u8,
    vals: Vec<Vec<u8>>,
}

fn reduce_enum(ctx: &Ctx) -> Box<dyn Iterator<Item = ReduceCase>> {
    // value alphabet of unequal lengths
    let alphabet: Vec<Vec<u8>> = vec![
        vec![],
        vec![0],
        vec![1],
        vec![0xff],
        vec![1, 0],
        vec![0, 1],
        vec![0xff; 8],
        vec![1, 2, 3, 4, 5, 6, 7, 8, 9],
        vec![0xf0, 0x0f, 0xaa],
    ];
    let n = alphabet.len();
    let maxlen = ctx.tier.pick(3usize, 4usize);
    let mut out = Vec::new();
    for op in 0..8u8 {
        for len in 0..=maxlen {
            let total = n.pow(len as u32);
            for mut code in 0..total {
                let mut vals = Vec::with_capacity(len);
                for _ in 0..len {
                    vals.push(alphabet[code % n].clone());
                    code /= n;
                }
                out.push(ReduceCase { op, vals });
            }
        }
    }
    Box::new(out.into_iter())
}

fn check_reduce(_ctx: &Ctx, c: &ReduceCase, probe: &mut Probe) -> Check {
    let op = OPS[(c.op % 8) as usize];
    let got = op.apply(c.vals.clone());
    if op.is_commutative() {
        let mut sorted = c.vals.clone();
        sorted.sort();
        let got_sorted = op.apply(sorted);
        vensure_eq!(got, got_sorted, "C18/reduce/commutative-order-dependent", "{:?} on {:?}", op, c.vals);
    }
    // reference via the bus-independent fold
    let set: Vec<Em> = c
        .vals
        .iter()
        .enumerate()
        .map(|(i, d)| Em { ch: 0, scope_pos: 0, scope_byte: 0, rule: i as u32, subkey: 0, data: d.clone() })
        .collect();
    if !set.is_empty() {
        let (rok, _) = reference(&[c.op + 2, 0, 0, 0], &set);
        vensure_eq!(Some(&got), rok.get(&chan(0)), "C18/reduce/reference", "{:?} on {:?}", op, c.vals);
    } else {
        let expect: Vec<u8> = if matches!(op, ReduceOp::Sum) { vec![0; 8] } else { vec![] };
        vensure_eq!(got, expect, "C18/reduce/empty", "{:?} on empty", op);
    }
    if c.vals.len() >= 3 && c.vals.iter().map(|v| v.len()).collect::<std::collections::BTreeSet<_>>().len() >= 2 {
        probe.nontrivial();
    }
    Ok(())
}

pub fn subs(_ctx: &Ctx) -> Vec<Box<dyn Sub>> {
    vec![
        prop_sub("bus-small-all-permutations", 3000, 60_000, case_strategy(8), check_case),
        prop_sub("bus-large-sampled-permutations", 600, 12_000, case_strategy(40), check_case),
        enum_sub("reduce-op-enumerated", |_t: Tier| true, reduce_enum, check_reduce),
    ]
}
