//! C02 — parallel execution is invisible: every worker schedule commits the same tick.
//!
//! With the scripted-schedule hook a schedule is (assignment units -> workers, per-worker
//! order). Workers share nothing but the claim counter and an immutable store, so a schedule
//! determines every worker's delta; scripted sequential execution realises every interleaving
//! class. Small unit counts are enumerated exhaustively, large ticks get sampled schedules,
//! real threads run worker counts 1..=32, and the five execution policies run through
//! `execute_parallel_with_policy` + the production merge.

use crate::c01::{build_cands, fail_of, Case};
use proptest::prelude::*;
use serde::{Deserialize, Serialize};
use std::num::NonZeroUsize;
use vkit::{prop_sub, vensure, vfail, Check, Ctx, Fail, Probe, Sub, Tier};
use vmodel::dsl::*;
use vmodel::tick::*;
use vmodel::universe::*;
use warp_core::parallel::{execute_parallel_with_policy, execute_serial, ExecItem, ParallelExecutionPolicy};
use warp_core::{GraphView, OpOrigin};

#[derive(Clone, Debug, Serialize, Deserialize)]
pub struct Case2 {
    pub base: Case,
    /// restrict scopes to this many distinct pool nodes (few work units) — 0 = unrestricted
    pub scope_subset: Vec<u8>,
    /// sampled schedules: (worker per unit, order keys)
    pub schedules: Vec<(Vec<u8>, Vec<u16>)>,
    pub thread_workers: Vec<u8>,
}

fn case2(few_units: bool) -> impl Strategy<Value = Case2> {
    let base = if few_units { crate::c01::small_case().boxed() } else { crate::c01::medium_case().boxed() };
    (
        base,
        if few_units { prop::collection::vec(0..N_NODES, 1..4).boxed() } else { Just(vec![]).boxed() },
        prop::collection::vec((prop::collection::vec(0u8..6, 24), prop::collection::vec(any::<u16>(), 24)), 24),
        prop::collection::vec(prop_oneof![Just(2u8), Just(3), Just(4), Just(7), Just(8), Just(16), Just(31), Just(32), 1u8..=32], 3),
    )
        .prop_map(|(mut base, scope_subset, schedules, thread_workers)| {
            base.cfg.chains = false;
            if !scope_subset.is_empty() {
                for c in &mut base.cands {
                    c.scope = scope_subset[(c.scope as usize) % scope_subset.len()];
                }
            }
            Case2 { base, scope_subset, schedules, thread_workers }
        })
}

fn compositions(n: usize, w: usize, f: &mut dyn FnMut(&[usize])) {
    fn rec(left: usize, parts: usize, cur: &mut Vec<usize>, f: &mut dyn FnMut(&[usize])) {
        if parts == 1 {
            cur.push(left);
            f(cur);
            cur.pop();
            return;
        }
        for k in 0..=left {
            cur.push(k);
            rec(left - k, parts - 1, cur, f);
            cur.pop();
        }
    }
    rec(n, w, &mut Vec::new(), f);
}

fn permutations(n: usize, f: &mut dyn FnMut(&[usize])) {
    let mut a: Vec<usize> = (0..n).collect();
    let mut c = vec![0usize; n];
    f(&a);
    let mut i = 0;
    while i < n {
        if c[i] < i {
            if i % 2 == 0 {
                a.swap(0, i);
            } else {
                a.swap(c[i], i);
            }
            f(&a);
            c[i] += 1;
            i = 0;
        } else {
            c[i] = 0;
            i += 1;
        }
    }
}

fn all_scripts(n_units: usize, workers: usize) -> Vec<Vec<Vec<usize>>> {
    let mut out = Vec::new();
    permutations(n_units, &mut |perm| {
        compositions(n_units, workers, &mut |sizes| {
            let mut script = Vec::with_capacity(workers);
            let mut at = 0;
            for s in sizes {
                script.push(perm[at..at + s].to_vec());
                at += s;
            }
            out.push(script);
        });
    });
    out.sort();
    out.dedup();
    out
}

fn script_count(n: usize, w: usize) -> usize {
    // (n+w-1)!/(w-1)!
    ((w)..(n + w)).product::<usize>()
}

fn diff_what(a: &EngineRun, b: &EngineRun) -> &'static str {
    if a.post != b.post {
        "post-state"
    } else if a.patch != b.patch {
        "patch"
    } else if a.entries != b.entries || a.blocked_by != b.blocked_by {
        "receipt"
    } else {
        "hashes"
    }
}

pub fn check(ctx: &Ctx, case: &Case2, probe: &mut Probe) -> Check {
    let pre = realise_state(&case.base.state);
    let cands = build_cands(&pre, &case.base);
    install_programs(&cands);
    let n = cands.len();
    let seq: Vec<usize> = (0..n).collect();
    let mut cfg = case.base.cfg.clone();
    cfg.workers = 1;

    let mut live = make_engine(&pre, &cfg).map_err(|e| fail_of(e, "make_engine"))?;
    let base = run_engine_tick(&mut live, &pre, &cands, &seq, &cfg, None).map_err(|e| fail_of(e, "serial tick"))?;
    let units = warp_core::echo_verif::last_work_units();
    let n_units = units.len();
    let multi_instance_units = units.iter().map(|(w, _)| *w).collect::<std::collections::BTreeSet<_>>().len() > 1;

    // ops sharing a sort-key prefix (same warp, same kind)
    let mut kinds = std::collections::BTreeMap::new();
    for op in base.patch.ops() {
        if let Some(a) = AOp::from_real(op) {
            *kinds.entry((a.phase(), warp_of(&a))).or_insert(0u32) += 1;
        }
    }
    let shared_prefix = kinds.values().any(|c| *c >= 2);

    let mut evals = 1u64;
    let run_script = |script: Vec<Vec<usize>>| -> Result<EngineRun, Fail> {
        let mut live = make_engine(&pre, &cfg).map_err(|e| fail_of(e, "make_engine"))?;
        run_engine_tick(&mut live, &pre, &cands, &seq, &cfg, Some(script.clone()))
            .map_err(|e| fail_of(e, &format!("scripted tick {script:?}")))
    };

    // --- scripted schedules
    let max_workers = 4usize;
    let budget = ctx.tier.pick(900usize, 7000usize);
    let mut exhaustive_done = false;
    if n_units >= 1 {
        let mut w = max_workers.min(n_units.max(1));
        while w > 1 && script_count(n_units, w) > budget {
            w -= 1;
        }
        if n_units <= 6 && script_count(n_units, w) <= budget && w >= 2.min(n_units) {
            for script in all_scripts(n_units, w) {
                let used = script.iter().filter(|l| !l.is_empty()).count();
                let r = run_script(script.clone())?;
                evals += 1;
                if r != base {
                    vfail!(format!("C02/scripted-schedule-differs/{}", diff_what(&r, &base)), "schedule {:?} over {} units differs from the serial run", script, n_units);
                }
                if used >= 2 && shared_prefix {
                    probe.sub_nontrivial(format!("{:?}|{:?}", script, base.snapshot.hash).as_bytes());
                }
            }
            exhaustive_done = true;
            probe.class(format!("exhaustive:units={n_units},workers={w}"));
        }
    }
    if !exhaustive_done && n_units >= 2 {
        for (assign, order) in case.schedules.iter().take(ctx.tier.pick(12, 64)) {
            let nw = 2 + (assign[0] as usize % 5);
            let mut script: Vec<Vec<(u16, usize)>> = vec![Vec::new(); nw];
            for u in 0..n_units {
                let wk = (assign[u % assign.len()] as usize + u / assign.len()) % nw;
                script[wk].push((order[u % order.len()].wrapping_add((u / order.len()) as u16), u));
            }
            let script: Vec<Vec<usize>> = script
                .into_iter()
                .map(|mut l| {
                    l.sort();
                    l.into_iter().map(|(_, u)| u).collect()
                })
                .collect();
            let used = script.iter().filter(|l| !l.is_empty()).count();
            let r = run_script(script.clone())?;
            evals += 1;
            if r != base {
                vfail!(format!("C02/scripted-schedule-differs/{}", diff_what(&r, &base)), "sampled schedule {:?} over {} units differs", script, n_units);
            }
            if used >= 2 && shared_prefix {
                probe.sub_nontrivial(format!("{:?}|{:?}", script, base.snapshot.hash).as_bytes());
            }
        }
        probe.class("sampled-schedules");
    }

    // --- real racing threads
    for wk in &case.thread_workers {
        let mut cfg_t = cfg.clone();
        cfg_t.workers = *wk;
        let mut live = make_engine(&pre, &cfg_t).map_err(|e| fail_of(e, "make_engine"))?;
        let r = run_engine_tick(&mut live, &pre, &cands, &seq, &cfg_t, None).map_err(|e| fail_of(e, "threaded tick"))?;
        evals += 1;
        if r != base {
            vfail!(format!("C02/real-threads-differ/{}", diff_what(&r, &base)), "workers={} differs from serial", wk);
        }
    }

    // --- five execution policies over each warp's accepted items + production merge
    {
        let set = candidate_set(&pre, &cands, &seq);
        let m = model_tick(&pre, &set, false);
        let real_pre = build_real(&pre, &cfg.build_order);
        let mut by_warp: std::collections::BTreeMap<u8, Vec<ExecItem>> = Default::default();
        for (k, ci) in m.accepted_cands.iter().enumerate() {
            let c = set[*ci];
            let rule = slot_rule(c.slot);
            by_warp.entry(c.w).or_default().push(ExecItem::new(
                rule.executor,
                scope_id(c.scope),
                OpOrigin { intent_id: k as u64, rule_id: c.slot as u32, match_ix: 0, op_ix: 0 },
            ));
        }
        for (w, items) in &by_warp {
            let Some(store) = real_pre.store(&warp_id(*w)) else { continue };
            let view = GraphView::new(store);
            let serial = warp_core::echo_verif::merge_worker_deltas(vec![execute_serial(view, items)])
                .map_err(|e| Fail::new("C02/policy/serial-merge-error", e))?;
            for (pname, policy) in [
                ("dynamic_per_worker", ParallelExecutionPolicy::DYNAMIC_PER_WORKER),
                ("dynamic_per_shard", ParallelExecutionPolicy::DYNAMIC_PER_SHARD),
                ("static_per_worker", ParallelExecutionPolicy::STATIC_PER_WORKER),
                ("static_per_shard", ParallelExecutionPolicy::STATIC_PER_SHARD),
                ("dedicated_per_shard", ParallelExecutionPolicy::DEDICATED_PER_SHARD),
            ] {
                for wk in [1usize, 2, 3, 4, 8] {
                    let deltas = execute_parallel_with_policy(view, items, NonZeroUsize::new(wk).unwrap(), policy);
                    let merged = warp_core::echo_verif::merge_worker_deltas(deltas)
                        .map_err(|e| Fail::new(format!("C02/policy/{pname}/merge-error"), e))?;
                    evals += 1;
                    vensure!(merged == serial, format!("C02/policy/{pname}/merged-ops-differ"), "policy {pname} workers {wk}: merged ops differ from serial execution");
                }
            }
        }
        probe.class("policies");
    }

    probe.evals(evals);
    if n_units >= 2 {
        probe.class(format!("units:{}", n_units.min(9)));
    }
    if multi_instance_units {
        probe.class("multi-instance-units");
    }
    if n_units >= 2 && shared_prefix {
        probe.nontrivial();
    }
    probe.note(serde_json::json!({"units": units.iter().map(|(w, s)| (warp_ix(w), s.len())).collect::<Vec<_>>(), "patch_ops": base.patch.ops().len(), "exhaustive": exhaustive_done}));
    Ok(())
}

fn warp_of(a: &AOp) -> u8 {
    match a {
        AOp::OpenPortal { slot, .. } | AOp::SetAtt { slot, .. } => slot.warp(),
        AOp::UpsertInstance { w, .. }
        | AOp::DeleteInstance { w }
        | AOp::DeleteEdge { w, .. }
        | AOp::DeleteNode { w, .. }
        | AOp::UpsertNode { w, .. }
        | AOp::UpsertEdge { w, .. } => *w,
    }
}

pub fn subs(_ctx: &Ctx) -> Vec<Box<dyn Sub>> {
    let _ = Tier::Quick;
    vec![
        prop_sub("few-units-all-schedules", 400, 10_000, case2(true), check),
        prop_sub("large-ticks-sampled-schedules", 64, 1_500, case2(false), check),
    ]
}
