mod c18;

use vkit::Property;

fn main() {
    vkit::main(vec![Property {
        id: "C18",
        level: "exploration",
        rule: "proptest-generated emission sets over 4 channels x 10 policies (Log, StrictSingle, 8 reducers) with payload lengths 0/1/7/8/9/33/random; every permutation of sets <=7 (Heap's algorithm) and 7 sampled permutations beyond; plus RNG-free enumeration of ReduceOp::apply over a 9-value alphabet up to length 3 (quick) / 4 (thorough). Non-trivial = some channel has >=3 emissions of >=2 distinct lengths; distinct = blake3 of the case JSON.",
        assumptions: &[
            "reference fold per policy is written from the ReduceOp/ChannelPolicy documentation, not from the code",
            "EmitKey order is lexicographic (scope_hash, rule_id, subkey) as documented",
        ],
        subs: c18::subs,
        max_shards: 16,
    }])
}
