mod c01;
mod c02;
mod c03;
mod c04;
mod c06;
mod c14;
mod c18;

use vkit::Property;

fn main() {
    vkit::main(vec![
    Property {
        id: "C01",
        level: "exploration",
        rule: "proptest: generated multi-instance pre-state (3 warps x 12 nodes x 10 edges, typed atoms, node/edge portals) x generated data-driven programs with honest footprints (state-aware construction) x k enqueue permutations with duplications x scheduler kind x worker count x rule registration order; size classes small (2-14 rich programs), medium (50-320), across the 1024 threshold (965-2640 incl. exactly 1023/1024/1025 wide candidates). Oracles: all permutations bit-equal (snapshot, receipt, patch, dump); independent reference tick model M (canonical order, greedy admission, effects vs pre-state); removing rejected candidates changes nothing but the receipt; Radix == Legacy. Non-trivial = >=2 accepted and >=1 rejected, or a portal op, or >1024 candidates; distinct = blake3 of case JSON.",
        assumptions: &[
            "reference model M and honest-footprint attribution are written from docs/spec (scheduler-warp-core, warp-tick-patch, SPEC-0003) and the property text",
            "generated programs respect real callers' implicit preconditions (one write per key per rewrite, DeleteNode after deleting incident edges, attachment writes only to owners that exist)",
        ],
        subs: c01::subs,
        max_shards: 16,
    },
    Property {
        id: "C02",
        level: "exploration",
        rule: "proptest: C01's tick generator (scopes restricted to 1-3 pool nodes for few work units, unrestricted for large ticks) x schedule. Schedules: with the echo_verif scripted-schedule hook, ALL (assignment of units to <=4 workers x per-worker claim order) for ticks with <=6 units while the count (n+w-1)!/(w-1)! stays under 900 (quick) / 7000 (thorough); 12 / 64 sampled schedules otherwise; real racing threads with worker counts drawn from 1..=32; the five ParallelExecutionPolicy constants x workers {1,2,3,4,8} through execute_parallel_with_policy + the production merge. Oracle: every run bit-equal to the serial run (post-state dump, patch, receipt, snapshot hashes) / merged ops equal to serial merged ops. Non-trivial = a schedule using >=2 workers on a tick with >=2 units whose patch has >=2 ops of one kind in one warp (each such distinct (schedule, tick) counted).",
        assumptions: &[
            "workers share only the claim counter and an immutable store (read-verified), so sequential execution of a scripted assignment realises the same per-worker deltas as any interleaving",
            "real-thread runs are observed, not controlled; their oracle (equality) does not depend on which interleaving occurred",
        ],
        subs: c02::subs,
        max_shards: 16,
    },
    Property {
        id: "C03",
        level: "exploration",
        rule: "SchedProbe hook (real pending queue, real drain, real reserve_for_receipt) on raw keys. RNG-free exhaustive: all 46 656 ordered pairs over 108 footprints x 2 instances; all ordered pairs of two-instance footprints with <=2 touched resources (129^2); all 531 441 ordered triples over the 81-element single-instance universe. Each under Radix, Legacy(all-ones mask) and Legacy(one bit per touched resource). every arrival sequence with repeats over 4 keys up to length 6 (5 461 sequences x 2 kinds) against the last-wins sorted reference; proptest: 2-400 random footprints over 2x4 resources; arrival orders random/ascending/descending/nearly-ascending with duplicates inserted at generated positions; sort sets of 0..5000 keys (dense at 1000-1050, exactly 1023/1024/1025) with shared prefixes of 0-30 bytes and differences confined to one chosen 16-bit digit (all 16 scope passes targeted), rule ids differing only in low/high half, duplicate re-enqueues. Oracles: reference greedy predicate with exact ascending blocker lists; try_from_retained_parts accepts; kinds agree; drain == sorted last-wins reference with payload identity. Non-trivial = conflicting pair / the A-accepts,B-rejected,C-conflicts-only-with-B triple shape / set with a reject and >=2 accepts / sort set >1024 or single-digit differences.",
        assumptions: &[
            "conflict predicate is written from the property statement (write vs read/write on node, edge, attachment; any shared port; per instance)",
            "raw generator keeps compact rule id order equal to rule-id byte order (the only case the engine can produce), so Radix and Legacy are comparable",
            "factor_mask = 0 with non-empty sets is an unsound mask and is excluded, per footprints_conflict's own comment",
        ],
        subs: c03::subs,
        max_shards: 16,
    },
    Property {
        id: "C04",
        level: "exploration",
        rule: "proptest. (i) tick level: 1-5 consecutive generated ticks on one engine (C01 generator: node delete with incident edges, edge retype/retarget/re-parent, delete+recreate, attachment set/clear, portal opening by system rules); every committed patch must apply to the pre-state and dump/state-root equal the post-state, likewise through WorldlineTickPatchV1::apply_to_worldline_state, Engine::jump_to_tick(i) must reproduce every recorded tick, commit id must equal H(root, parents, patch digest, policy). (ii) pair level through the echo_verif diff_state hook: ordered pairs of an enumerated micro-universe (2 nodes x 2 edges x <=2 attached atoms; sampled 200k quick / 20M thorough) and pairs (a, b = 1-8 step well-formedness-preserving mutation walk from a, both directions) over full multi-instance states incl. portal open/close; oracle exactly as stated: apply(diff(a,b),a) is Ok(b) or a typed Err, Ok(other) is the violation. Non-trivial = delete+upsert of one edge id, portal/instance op, or >=3 op kinds.",
        assumptions: &[
            "state equality is the public-accessor dump (instances, nodes, edges by id with their from bucket, both attachment planes)",
            "typed apply errors on arbitrary state pairs are allowed by the property and are tallied per error kind, not flagged",
        ],
        subs: c04::subs,
        max_shards: 16,
    },
    Property {
        id: "C06",
        level: "exploration",
        rule: "proptest: generated well-formed multi-instance states (incl. islands unreachable from the root). Per state: 3 construction orders with different edge-bucket layouts and one detour (state reached by applying diff(alt, target) to a mutated alt state) must give equal roots and equal WSC bytes; WorldlineState::state_root == Engine::snapshot().state_root == store root == accumulator root (hook); each warp's WSC bytes read back through WscFile::from_bytes + validate_wsc + WarpView rows to the same store content; 1-3 single semantic mutations (node type/add/delete, edge type/to/from/id, attachment presence/type/byte/length, portal open/move/close, instance root node, root key) classified by an independent reachability reference: root must change iff reachable content changes; all roots of a process are bucketed (birthday search) - two different reachable contents under one root, or one content under two roots, is a violation. Second sub-check: op sequences diff(a, walk(a)) accepted by the store are applied to the columnar accumulator (hook) and the roots compared. Non-trivial = >=2 instances, or an unreachable-only mutation, or atom payloads of unequal lengths.",
        assumptions: &[
            "reachability reference (edges from reachable nodes, Descend on reachable nodes and on edges leaving them) is written from docs/spec/merkle-commit.md",
            "op sequences the store rejects are skipped and counted; the accumulator is internal API there",
        ],
        subs: c06::subs,
        max_shards: 16,
    },
    Property {
        id: "C14",
        level: "exploration",
        rule: "proptest: an honest generated tick (C01 generator, enforcement on) is first committed (no-false-positive direction), then exactly one candidate is made dishonest: one entry of its honest footprint is omitted (every access kind: node read incl. adjacency, node/edge attachment read, edge existence read; every op kind's node/edge/attachment write target), optionally followed by an executor panic, or it emits an op into another instance, or a non-system rule emits OpenPortal. The violator sits at its canonical position among the other rewrites and its work unit is placed on a generated worker of a scripted schedule (plus the unscripted run). Oracle: when the reference model admits the violator, commit must unwind with a FootprintViolation / FootprintViolationWithPanic payload naming exactly that access, rule and warp; state dump, ledger and root are those before the tick; the honest tick then commits on the same engine and equals the honest baseline. RNG-free: every non-instance op over 2 nodes x 2 edges (38 ops) applied to each of the 9 930 micro-universe states: every GraphView-observable location that changes (node, adjacency, node/edge attachment, edge existence) must be among echo_verif::op_write_targets(op). Non-trivial = violator not first among accepted, >=2 accepted, >=2 scripted workers busy / an observable change.",
        assumptions: &[
            "honest footprint attribution is my own reading of footprint_guard.rs docs and DECLARATIVE-RULE-AUTHORSHIP",
            "instance-level ops are excluded from the attribution differential: their contract is the system-rule gate, not write targets",
            "observable = what GraphView exposes (node, edges_from, node_attachment, edge_attachment, has_edge)",
        ],
        subs: c14::subs,
        max_shards: 16,
    },
    Property {
        id: "C18",
        level: "exploration",
        rule: "proptest-generated emission sets over 4 channels x 10 policies (Log, StrictSingle, 8 reducers) with payload lengths 0/1/7/8/9/33/random; every permutation of sets <=7 (Heap's algorithm) and 7 sampled permutations beyond; plus RNG-free enumeration of ReduceOp::apply over a 9-value alphabet up to length 3 (quick) / 4 (thorough). Non-trivial = some channel has >=3 emissions of >=2 distinct lengths; distinct = blake3 of the case JSON.",
        assumptions: &[
            "reference fold per policy is written from the ReduceOp/ChannelPolicy documentation, not from the code",
            "EmitKey order is lexicographic (scope_hash, rule_id, subkey) as documented",
        ],
        subs: c18::subs,
        max_shards: 16,
    }])
}
