//! Byte-oriented host entry points of warp-wasm (C13): the three native boundary functions
//! (`dispatch_intent_cbor`, `observe_cbor`, `dispatch_control_intent_trusted_cbor`) against a
//! freshly installed engine kernel, and the bodies of the remaining exports (request decoding
//! with `decode_cbor`, then the `KernelPort` method) against a fresh `WarpKernel` (reached through
//! the `echo_verif` hook of warp-wasm) — the exports themselves return `js_sys::Uint8Array` and
//! cannot run natively.
//!
//! The kernel is re-created for every input, so no state leaks between inputs.

use crate::targets::{Dec, Target};
use echo_wasm_abi::kernel_port as kp;
use echo_wasm_abi::{decode_cbor, encode_cbor, pack_control_intent_v1, pack_intent_v1};
use warp_wasm::EchoVerifWarpKernel as WarpKernel;

/// The boundary answers with a canonical CBOR envelope `{ ok: bool, ... }`; anything else is
/// neither a value nor a typed error.
fn classify_envelope(out: &[u8], what: &str) -> Dec {
    let v = match echo_wasm_abi::decode_value(out) {
        Ok(v) => v,
        Err(e) => panic!("{what}: the boundary returned {} bytes that are not a canonical CBOR envelope: {e:?}", out.len()),
    };
    let ok = match &v {
        ciborium::value::Value::Map(m) => m.iter().find_map(|(k, val)| match (k, val) {
            (ciborium::value::Value::Text(t), ciborium::value::Value::Bool(b)) if t == "ok" => Some(*b),
            _ => None,
        }),
        _ => None,
    };
    match ok {
        Some(true) => Dec::Accepted { reenc: Vec::new(), law_a: Ok(()) },
        Some(false) => Dec::Rejected,
        None => panic!("{what}: the boundary's envelope has no boolean `ok` field"),
    }
}

fn fresh_installed() -> warp_wasm::EmbeddedHandle {
    match warp_wasm::init_embedded() {
        Ok(h) => h,
        Err(e) => panic!("init_embedded failed: {e:?}"),
    }
}

fn run_dispatch(b: &[u8]) -> Dec {
    fresh_installed();
    // an accepted intent followed by a bounded run: the payload reaches the engine
    let first = warp_wasm::dispatch_intent_cbor(b);
    let d = classify_envelope(&first, "dispatch_intent_cbor");
    if matches!(d, Dec::Accepted { .. }) {
        let start = pack_control_intent_v1(&kp::ControlIntentV1::Start { mode: kp::SchedulerMode::UntilIdle { cycle_limit: Some(2) } }).expect("pack");
        let _ = classify_envelope(&warp_wasm::dispatch_control_intent_trusted_cbor(&start), "dispatch_control_intent_trusted_cbor(start)");
        // a retry of the same bytes stays a lawful answer
        let _ = classify_envelope(&warp_wasm::dispatch_intent_cbor(b), "dispatch_intent_cbor(retry)");
    }
    d
}

fn run_control(b: &[u8]) -> Dec {
    fresh_installed();
    let seed = pack_intent_v1(1, b"x").expect("pack");
    let _ = warp_wasm::dispatch_intent_cbor(&seed);
    classify_envelope(&warp_wasm::dispatch_control_intent_trusted_cbor(b), "dispatch_control_intent_trusted_cbor")
}

fn run_observe(b: &[u8]) -> Dec {
    fresh_installed();
    classify_envelope(&warp_wasm::observe_cbor(b), "observe_cbor")
}

fn warm_kernel() -> WarpKernel {
    use echo_wasm_abi::kernel_port::KernelPort;
    let mut k = match WarpKernel::new() {
        Ok(k) => k,
        Err(e) => panic!("WarpKernel::new failed: {e:?}"),
    };
    let _ = k.dispatch_intent(&pack_intent_v1(1, b"warm").expect("pack"));
    k
}

fn verdict<T>(r: Result<T, kp::AbiError>) -> Dec {
    match r {
        Ok(_) => Dec::Accepted { reenc: Vec::new(), law_a: Ok(()) },
        Err(_) => Dec::Rejected,
    }
}

fn run_observe_optic(b: &[u8]) -> Dec {
    use echo_wasm_abi::kernel_port::KernelPort;
    match decode_cbor::<kp::ObserveOpticRequest>(b) {
        Err(_) => Dec::Rejected,
        Ok(req) => verdict(warm_kernel().observe_optic(req)),
    }
}

fn run_dispatch_optic(b: &[u8]) -> Dec {
    use echo_wasm_abi::kernel_port::KernelPort;
    match decode_cbor::<kp::DispatchOpticIntentRequest>(b) {
        Err(_) => Dec::Rejected,
        Ok(req) => {
            // the export refuses control intents and malformed envelopes before the kernel sees them
            let kp::OpticIntentPayload::EintV1 { bytes } = &req.payload;
            match echo_wasm_abi::unpack_intent_v1(bytes) {
                Err(_) => return Dec::Rejected,
                Ok((op, _)) if op == echo_wasm_abi::CONTROL_INTENT_V1_OP_ID => return Dec::Rejected,
                Ok(_) => {}
            }
            verdict(warm_kernel().dispatch_optic_intent(req))
        }
    }
}

fn run_neighborhood(b: &[u8]) -> Dec {
    use echo_wasm_abi::kernel_port::KernelPort;
    match decode_cbor::<kp::ObservationRequest>(b) {
        Err(_) => Dec::Rejected,
        Ok(req) => {
            let k = warm_kernel();
            let a = k.observe_neighborhood_site(req.clone()).is_ok();
            let c = k.observe_neighborhood_core(req).is_ok();
            if a || c {
                Dec::Accepted { reenc: Vec::new(), law_a: Ok(()) }
            } else {
                Dec::Rejected
            }
        }
    }
}

fn run_settlement(b: &[u8]) -> Dec {
    use echo_wasm_abi::kernel_port::KernelPort;
    match decode_cbor::<kp::SettlementRequest>(b) {
        Err(_) => Dec::Rejected,
        Ok(req) => {
            let mut k = warm_kernel();
            let a = k.compare_settlement(req.clone()).is_ok();
            let p = k.plan_settlement(req.clone()).is_ok();
            let s = k.settle_strand(req).is_ok();
            if a || p || s {
                Dec::Accepted { reenc: Vec::new(), law_a: Ok(()) }
            } else {
                Dec::Rejected
            }
        }
    }
}

pub fn host_targets() -> Vec<Target> {
    let handle = fresh_installed();
    let wl = handle.worldline_id;
    let coord = |at: kp::ObservationAt| kp::ObservationCoordinate { worldline_id: wl, at };
    let mut observe_seeds = Vec::new();
    for at in [kp::ObservationAt::Frontier, kp::ObservationAt::Tick { worldline_tick: kp::WorldlineTick(0) }, kp::ObservationAt::Tick { worldline_tick: kp::WorldlineTick(999) }] {
        for (frame, proj) in [
            (kp::ObservationFrame::CommitBoundary, kp::ObservationProjection::Head),
            (kp::ObservationFrame::CommitBoundary, kp::ObservationProjection::Snapshot),
            (kp::ObservationFrame::RecordedTruth, kp::ObservationProjection::TruthChannels { channels: None }),
            (kp::ObservationFrame::RecordedTruth, kp::ObservationProjection::TruthChannels { channels: Some(vec![vec![7; 32]]) }),
        ] {
            if let Ok(req) = kp::ObservationRequest::builtin_one_shot(coord(at.clone()), frame, proj) {
                if let Ok(b) = encode_cbor(&req) {
                    observe_seeds.push(b);
                }
            }
        }
    }
    let control_seeds: Vec<Vec<u8>> = [
        kp::ControlIntentV1::Start { mode: kp::SchedulerMode::UntilIdle { cycle_limit: Some(1) } },
        kp::ControlIntentV1::Start { mode: kp::SchedulerMode::UntilIdle { cycle_limit: None } },
        kp::ControlIntentV1::Stop,
        kp::ControlIntentV1::SetHeadEligibility { head: kp::WriterHeadKey { worldline_id: wl, head_id: kp::HeadId::from_bytes([0; 32]) }, eligibility: kp::HeadEligibility::Dormant },
    ]
    .iter()
    .filter_map(|c| pack_control_intent_v1(c).ok())
    .collect();
    let dispatch_seeds = vec![pack_intent_v1(1, b"advance").unwrap(), pack_intent_v1(7, &[]).unwrap(), pack_intent_v1(0x1234_5678, &[9; 40]).unwrap()];
    let actor = kp::OpticActorId::from_bytes([4; 32]);
    let family = kp::IntentFamilyId::from_bytes([5; 32]);
    let focus = kp::OpticFocus::Worldline { worldline_id: wl };
    let budget = kp::OpticReadBudget { max_bytes: Some(4096), max_nodes: Some(64), max_ticks: Some(8), max_attachments: Some(0) };
    let optic_dispatch = kp::DispatchOpticIntentRequest {
        optic_id: kp::OpticId::from_bytes([1; 32]),
        base_coordinate: kp::EchoCoordinate::Worldline { worldline_id: wl, at: kp::CoordinateAt::Frontier },
        intent_family: family,
        focus: focus.clone(),
        cause: kp::OpticCause { actor, cause_hash: vec![6; 32], label: Some("seed".into()) },
        capability: kp::OpticCapability {
            capability_id: kp::OpticCapabilityId::from_bytes([7; 32]),
            actor,
            issuer_ref: None,
            policy_hash: vec![8; 32],
            allowed_focus: focus.clone(),
            projection_version: kp::ProjectionVersion(1),
            reducer_version: None,
            allowed_intent_family: family,
            max_budget: budget,
        },
        admission_law: kp::AdmissionLawId::from_bytes([9; 32]),
        payload: kp::OpticIntentPayload::EintV1 { bytes: pack_intent_v1(2, b"write").unwrap() },
    };
    let optic_observe: Vec<Vec<u8>> = [kp::OpticApertureShape::Head, kp::OpticApertureShape::SnapshotMetadata, kp::OpticApertureShape::TruthChannels { channels: None }]
        .into_iter()
        .filter_map(|shape| {
            encode_cbor(&kp::ObserveOpticRequest {
                optic_id: kp::OpticId::from_bytes([1; 32]),
                focus: focus.clone(),
                coordinate: kp::EchoCoordinate::Worldline { worldline_id: wl, at: kp::CoordinateAt::Frontier },
                aperture: kp::OpticAperture { shape, budget, attachment_descent: kp::AttachmentDescentPolicy::BoundaryOnly },
                projection_version: kp::ProjectionVersion(1),
                reducer_version: None,
                capability: kp::OpticCapabilityId::from_bytes([7; 32]),
            })
            .ok()
        })
        .collect();
    let settlement_seeds: Vec<Vec<u8>> = [[0u8; 32], [3u8; 32]].iter().filter_map(|b| encode_cbor(&kp::SettlementRequest { strand_id: kp::StrandId::from_bytes(*b) }).ok()).collect();
    // allocation: these entry points run a kernel, not only a decoder; what they may allocate is
    // bounded by the (fresh, tiny) kernel state plus the input, not by the input alone
    const KERNEL_CAP: usize = 32 << 20;
    vec![
        Target { name: "host.dispatch-intent", law_b: false, seeds: dispatch_seeds, run: run_dispatch, alloc_cap: KERNEL_CAP },
        Target { name: "host.control-intent", law_b: false, seeds: control_seeds, run: run_control, alloc_cap: KERNEL_CAP },
        Target { name: "host.observe", law_b: false, seeds: observe_seeds.clone(), run: run_observe, alloc_cap: KERNEL_CAP },
        Target { name: "host.observe-neighborhood", law_b: false, seeds: observe_seeds, run: run_neighborhood, alloc_cap: KERNEL_CAP },
        Target { name: "host.observe-optic", law_b: false, seeds: optic_observe, run: run_observe_optic, alloc_cap: KERNEL_CAP },
        Target { name: "host.dispatch-optic-intent", law_b: false, seeds: encode_cbor(&optic_dispatch).ok().into_iter().collect(), run: run_dispatch_optic, alloc_cap: KERNEL_CAP },
        Target { name: "host.settlement", law_b: false, seeds: settlement_seeds, run: run_settlement, alloc_cap: KERNEL_CAP },
    ]
}
