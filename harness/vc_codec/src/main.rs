fn main() { vkit::main(vec![]) }
