mod alloc;
mod c12;
mod c13;
mod cbor_gen;
mod hosttargets;
mod livewal;
mod targets;

use vkit::Property;

#[global_allocator]
static GLOBAL: alloc::Counting = alloc::Counting;

fn main() {
    let args: Vec<String> = std::env::args().collect();
    if args.len() >= 3 && args[1] == "--c13-child" {
        c13::child_main(&args[2]);
    }
    if args.len() >= 2 && args[1] == "--live-wal" {
        for (k, v) in livewal::live_wal_payloads() {
            println!("{k}: {} payloads, sizes {:?}", v.len(), v.iter().map(|b| b.len()).collect::<Vec<_>>());
        }
        return;
    }
    if args.len() >= 2 && args[1] == "--list-codecs" {
        for t in targets::targets() {
            println!("{} {}", t.name, if t.law_b { "canonical" } else { "roundtrip" });
        }
        return;
    }
    if args.len() >= 3 && args[1] == "--dump-seeds" {
        // one directory per codec, one file per encoder-produced seed (fuzz starting corpora)
        for t in targets::targets() {
            let d = std::path::Path::new(&args[2]).join(t.name);
            std::fs::create_dir_all(&d).expect("mkdir");
            for (i, s) in t.seeds.iter().enumerate() {
                std::fs::write(d.join(format!("seed-{i:03}")), s).expect("write seed");
            }
        }
        return;
    }
    vkit::main(vec![
        Property {
            id: "C12",
            level: "exploration",
            rule: "Law A (decode(encode(v)) == documented normal form of v; encoder deterministic) over proptest-generated values: ABI CBOR Value trees (depth<=6, boundary integers 0/23/24/255/256/65535/65536/2^32+-1/2^63/2^64-1/-1/-24/-25/.../i64::MIN, every float class incl. NaN payloads, +-0, subnormals, f16/f32/f64-exact, integral floats up to 1e39), Edict CanonicalValueV1, serde DTOs through encode_cbor/decode_cbor, a record using every Reader/Writer primitive. Law B (decode(b)=Ok(v) => encode(v)==b) for canonical-form codecs (ABI value, Edict value, intent envelope, intent log, ingress-envelope retention v2, 14 WAL payload records): RNG-free enumeration of EVERY byte string of length 0..=2 for all of them and of length 3 for the two CBOR value codecs (16.8M strings each); structure-aware mutation of valid CBOR (widen heads, swap/duplicate map entries, indefinite lengths, tags, float width changes, NaN payload/sign, -0.0, int-as-float, trailing bytes); byte-level mutation (bit flips, splices, truncation, adversarial length fields) of encoder-produced seeds for every codec. Round-trip-only group (scene CBOR, MBUS frames v1/v2): Law A on accepted mutants. Non-trivial = nesting>=2 or boundary number (Law A); accepted input (Law B) - counted per distinct (codec, bytes).",
            assumptions: &[
                "ABI normal form: integral floats within the CBOR integer range become integers, NaN becomes the canonical NaN, -0.0 becomes 0, map order by encoded key (documented in canonical.rs / js-cbor-mapping.md)",
                "ABI integer domain is i64 U u64 (documented ciborium Integer limit)",
                "IngressEnvelope Law B is claimed for the v2 magic only (v1 is a documented legacy reader); codec.rs read_f32_le normalises on read by design",
                "DTO-level Law B is not claimed (serde may ignore unknown fields); DTO encodings are checked at the value level",
            ],
            subs: c12::subs,
            max_shards: 16,
        },
        Property {
            id: "C13",
            level: "exploration",
            rule: "Every decoder of C12 plus WscFile::from_bytes+validate_wsc+every WarpView accessor, recover_wal_segment_bytes and seven warp-wasm host boundary entry points (dispatch_intent_cbor, dispatch_control_intent_trusted_cbor, observe_cbor against a freshly installed engine kernel; the bodies of observe_optic, dispatch_optic_intent, observe_neighborhood_site/core, compare/plan/settle_strand against a fresh WarpKernel), fed (a) a deterministic adversarial template grid: declared lengths 2^16..2^64-1 in every CBOR major type and in every aligned 4/8-byte window of valid encodings (LE and BE), nested heads that each declare an admissible count (255..100000 at depth 2..256: arrays, maps through keys, maps through values), nesting depth 50..10^6 through arrays, map values, map keys, tags and indefinite markers, every truncation cut of valid encodings, 1 MiB tails; (b) proptest-seeded byte mutants of valid encodings; (c) random bytes up to 4 KiB. Each input runs in an isolated child process (counting global allocator, 64 MiB decode-thread stack, RLIMIT_AS 6 GiB). Oracle: result is a value or typed error; no panic (caught in child, reported with message), no process death (SIGSEGV = stack overflow, SIGABRT = abort/alloc failure), no result-less 20 s, and peak live allocation during the call <= 1 MiB + 1024 x input_len (+ the codec's documented fixed cap: eintlog MAX_FRAME_LEN). Non-trivial = accepted input or structure-aware derivative of a valid encoding; distinct by (codec, bytes).",
            assumptions: &[
                "1024x proportionality is deliberately generous (a 1-byte CBOR item legitimately becomes a ~32-byte Value node, then a serde_value node); a pre-allocation driven by a declared length exceeds it",
                "the child isolates crashes; a crash is attributed to the last started input",
                "documented fixed caps: eintlog MAX_FRAME_LEN; Edict MAX_CANONICAL_DECODE_NODES_V1 x 64 bytes; 32 MiB for host boundary entry points (kernel state, not only decoding); the host kernel is re-created for every input",
            ],
            subs: c13::subs,
            max_shards: 16,
        },
    ])
}
