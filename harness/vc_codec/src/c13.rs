//! C13 — decoders and byte-level entry points are total.
//!
//! Inputs are generated in the parent (seeded proptest strategies + deterministic template
//! grids) and executed in an isolated child process with a counting allocator, a 64 MiB decode
//! thread stack and RLIMIT_AS. The parent classifies: typed result (ok), panic (caught in the
//! child), crash (signal: stack overflow / abort), peak allocation out of proportion, hang.

use crate::c12::{apply_bmut, bmut, BMut};
use crate::targets::{Dec, Target};
use proptest::prelude::*;
use proptest::strategy::ValueTree;
use proptest::test_runner::{Config, RngAlgorithm, TestRng, TestRunner};
use serde::{Deserialize, Serialize};
use serde_json::{json, Value};
use std::io::{Read, Write};
use std::process::{Command, Stdio};
use std::time::{Duration, Instant};

thread_local! {
    static ENTRY_POINTS: std::cell::RefCell<Option<std::rc::Rc<Vec<Target>>>> = const { std::cell::RefCell::new(None) };
}
/// Codecs, readers and the host boundary (the child indexes the same list).
fn entry_points() -> std::rc::Rc<Vec<Target>> {
    ENTRY_POINTS.with(|t| t.borrow_mut().get_or_insert_with(|| std::rc::Rc::new(crate::targets::targets())).clone())
}
use vkit::{Check, Ctx, Fail, Recorder, Sub, Violation};

pub const ALLOC_BASE: usize = 1 << 20;
pub const ALLOC_FACTOR: usize = 1024;

#[derive(Clone, Debug, Serialize, Deserialize)]
pub struct Input {
    pub target: String,
    pub hex: String,
}

#[derive(Clone, Debug, PartialEq)]
pub enum Outcome {
    Rejected { peak: usize },
    Accepted { peak: usize },
    Panic(String),
    Crash(String),
    Hang,
    /// the isolated child could not be run at all (spawn failure, death before the first
    /// input, an outcome that does not reproduce): harness trouble, never a verdict
    Harness(String),
}

// ---------------------------------------------------------------------------
// child side

pub fn child_main(path: &str) -> ! {
    // RLIMIT_AS 6 GiB: a decoder trying to allocate a declared 2^40 bytes gets a clean
    // allocation failure (abort) instead of dragging the machine down.
    unsafe {
        let lim = libc::rlimit { rlim_cur: 6 << 30, rlim_max: 6 << 30 };
        libc::setrlimit(libc::RLIMIT_AS, &lim);
        let nocore = libc::rlimit { rlim_cur: 0, rlim_max: 0 };
        libc::setrlimit(libc::RLIMIT_CORE, &nocore);
    }
    std::panic::set_hook(Box::new(|_| {}));
    let data = std::fs::read(path).expect("batch file");
    // one decode thread with a 64 MiB stack processes the whole batch
    let worker = std::thread::Builder::new()
        .stack_size(64 << 20)
        .spawn(move || {
            let targets = crate::targets::targets();
            let mut at = 0usize;
            let rd32 = |at: &mut usize| {
                let v = u32::from_le_bytes(data[*at..*at + 4].try_into().unwrap());
                *at += 4;
                v as usize
            };
            let n = rd32(&mut at);
            let out = std::io::stdout();
            for i in 0..n {
                let ti = rd32(&mut at);
                let len = rd32(&mut at);
                let input = &data[at..at + len];
                at += len;
                {
                    let mut o = out.lock();
                    writeln!(o, "S {i}").ok();
                    o.flush().ok();
                }
                let run = targets[ti].run;
                let base = crate::alloc::mark();
                let r = std::panic::catch_unwind(|| run(input));
                let peak = crate::alloc::peak().saturating_sub(base);
                let r = r.map(|d| matches!(d, Dec::Accepted { .. })).map_err(|p| vkit::panic_message(&p));
                let mut o = out.lock();
                match r {
                    Ok(acc) => writeln!(o, "R {i} {} {peak}", if acc { 1 } else { 0 }).ok(),
                    Err(msg) => writeln!(o, "P {i} {}", msg.replace('\n', " ")).ok(),
                };
                o.flush().ok();
            }
        })
        .expect("spawn");
    let _ = worker.join();
    std::process::exit(0);
}

// ---------------------------------------------------------------------------
// parent side

fn run_child(ctx: &Ctx, items: &[(usize, Vec<u8>)], per_item_timeout: Duration) -> (Vec<Option<Outcome>>, Option<String>) {
    let dir = ctx.scratch("c13");
    let path = dir.join("batch.bin");
    let mut buf = Vec::new();
    buf.extend_from_slice(&(items.len() as u32).to_le_bytes());
    for (t, b) in items {
        buf.extend_from_slice(&(*t as u32).to_le_bytes());
        buf.extend_from_slice(&(b.len() as u32).to_le_bytes());
        buf.extend_from_slice(b);
    }
    std::fs::write(&path, &buf).expect("write batch");
    let exe = std::env::current_exe().expect("exe");
    let mut child = Command::new(exe)
        .arg("--c13-child")
        .arg(&path)
        .stdout(Stdio::piped())
        .stderr(Stdio::piped())
        .spawn()
        .expect("spawn child");
    let mut stdout = child.stdout.take().unwrap();
    let mut stderr = child.stderr.take().unwrap();
    let err_reader = std::thread::spawn(move || {
        let mut s = Vec::new();
        let _ = stderr.read_to_end(&mut s);
        String::from_utf8_lossy(&s[s.len().saturating_sub(4000)..]).to_string()
    });
    // reader thread collects output
    let (tx, rx) = std::sync::mpsc::channel::<String>();
    let reader = std::thread::spawn(move || {
        let mut acc = String::new();
        let mut chunk = [0u8; 65536];
        loop {
            match stdout.read(&mut chunk) {
                Ok(0) | Err(_) => break,
                Ok(n) => {
                    acc.push_str(&String::from_utf8_lossy(&chunk[..n]));
                    while let Some(p) = acc.find('\n') {
                        let line: String = acc.drain(..=p).collect();
                        if tx.send(line.trim_end().to_string()).is_err() {
                            return;
                        }
                    }
                }
            }
        }
    });
    let mut outcomes: Vec<Option<Outcome>> = vec![None; items.len()];
    let mut started: Option<(usize, Instant)> = None;
    let mut died: Option<String> = None;
    loop {
        match rx.recv_timeout(Duration::from_millis(200)) {
            Ok(line) => {
                let mut it = line.splitn(3, ' ');
                let (k, i) = (it.next().unwrap_or(""), it.next().and_then(|s| s.parse::<usize>().ok()));
                match (k, i) {
                    ("S", Some(i)) => started = Some((i, Instant::now())),
                    ("R", Some(i)) => {
                        let rest = it.next().unwrap_or("");
                        let mut p = rest.split(' ');
                        let acc = p.next() == Some("1");
                        let peak = p.next().and_then(|s| s.parse().ok()).unwrap_or(0);
                        outcomes[i] = Some(if acc { Outcome::Accepted { peak } } else { Outcome::Rejected { peak } });
                        started = None;
                    }
                    ("P", Some(i)) => {
                        outcomes[i] = Some(Outcome::Panic(it.next().unwrap_or("").to_string()));
                        started = None;
                    }
                    _ => {}
                }
            }
            Err(std::sync::mpsc::RecvTimeoutError::Timeout) => {
                if let Some((i, t0)) = started {
                    if t0.elapsed() > per_item_timeout {
                        let _ = child.kill();
                        outcomes[i] = Some(Outcome::Hang);
                        died = Some("killed after per-input timeout".into());
                        break;
                    }
                }
                if let Ok(Some(_)) = child.try_wait() {
                    // drain remaining lines
                    std::thread::sleep(Duration::from_millis(50));
                    while let Ok(line) = rx.try_recv() {
                        let mut it = line.splitn(3, ' ');
                        let (k, i) = (it.next().unwrap_or(""), it.next().and_then(|s| s.parse::<usize>().ok()));
                        match (k, i) {
                            ("S", Some(i)) => started = Some((i, Instant::now())),
                            ("R", Some(i)) => {
                                let rest = it.next().unwrap_or("");
                                let mut p = rest.split(' ');
                                let acc = p.next() == Some("1");
                                let peak = p.next().and_then(|s| s.parse().ok()).unwrap_or(0);
                                outcomes[i] = Some(if acc { Outcome::Accepted { peak } } else { Outcome::Rejected { peak } });
                                started = None;
                            }
                            ("P", Some(i)) => {
                                outcomes[i] = Some(Outcome::Panic(it.next().unwrap_or("").to_string()));
                                started = None;
                            }
                            _ => {}
                        }
                    }
                    break;
                }
            }
            Err(std::sync::mpsc::RecvTimeoutError::Disconnected) => break,
        }
    }
    let status = child.wait().ok();
    let _ = reader.join();
    let err_tail = err_reader.join().unwrap_or_default();
    let _ = std::fs::remove_dir_all(&dir);
    if died.is_none() {
        if let Some(st) = status {
            if !st.success() {
                use std::os::unix::process::ExitStatusExt;
                let what = match st.signal() {
                    Some(_) if err_tail.contains("overflowed its stack") => "stack overflow (thread overflowed its 64 MiB stack, process aborted)".to_string(),
                    Some(6) if err_tail.contains("memory allocation of") => format!("allocation failure abort ({})", err_tail.lines().find(|l| l.contains("memory allocation of")).unwrap_or("").trim()),
                    Some(11) => "signal 11 (SIGSEGV: stack overflow or invalid access)".to_string(),
                    Some(6) => "signal 6 (SIGABRT: abort / allocation failure)".to_string(),
                    Some(s) => format!("signal {s}"),
                    None => format!("exit code {:?}", st.code()),
                };
                if let Some((i, _)) = started {
                    outcomes[i] = Some(Outcome::Crash(what.clone()));
                }
                died = Some(format!("{what}; stderr tail: {}", err_tail.chars().rev().take(300).collect::<String>().chars().rev().collect::<String>().replace('\n', " | ")));
            }
        }
    }
    (outcomes, died)
}

/// Run all items, restarting the child after a crash/hang at the culprit.
pub fn run_all(ctx: &Ctx, items: &[(usize, Vec<u8>)]) -> Vec<Outcome> {
    let mut out: Vec<Outcome> = Vec::with_capacity(items.len());
    let mut start = 0;
    while start < items.len() {
        let end = (start + 4000).min(items.len());
        let (res, died) = run_child(ctx, &items[start..end], Duration::from_secs(20));
        let mut advanced = 0;
        for r in res {
            match r {
                Some(o) => {
                    out.push(o);
                    advanced += 1;
                }
                None => break,
            }
        }
        if advanced == 0 {
            // the child died before starting anything (memory pressure, spawn failure): that
            // says nothing about the decoder. Retry, then record harness trouble and move on.
            let mut recovered = false;
            let mut why = died.unwrap_or_else(|| "no exit status".into());
            for attempt in 1..=4u64 {
                std::thread::sleep(Duration::from_millis(300 * attempt));
                let (res2, died2) = run_child(ctx, &items[start..(start + 1).min(items.len())], Duration::from_secs(20));
                if let Some(d) = died2 {
                    why = d;
                }
                if let Some(Some(o)) = res2.into_iter().next() {
                    out.push(o);
                    recovered = true;
                    break;
                }
            }
            if !recovered {
                out.push(Outcome::Harness(format!("isolated child died before processing any input (5 attempts): {why}")));
            }
            advanced = 1;
        }
        start += advanced;
    }
    out
}

fn norm_msg(m: &str) -> String {
    let s: String = m.chars().map(|c| if c.is_ascii_digit() { '#' } else { c }).collect();
    let mut s: String = s.chars().take(70).collect();
    while s.contains("##") {
        s = s.replace("##", "#");
    }
    s
}

pub fn judge(t: &Target, input: &[u8], o: &Outcome) -> Check {
    let show = || hex::encode(&input[..input.len().min(96)]);
    match o {
        Outcome::Panic(m) => Err(Fail::new(format!("C13/{}/panic:{}", t.name, norm_msg(m)), format!("input ({} bytes) {}…: panic: {m}", input.len(), show()))),
        Outcome::Crash(w) => Err(Fail::new(format!("C13/{}/crash:{}", t.name, norm_msg(w)), format!("input ({} bytes) {}…: child process died: {w}", input.len(), show()))),
        Outcome::Hang => Err(Fail::new(format!("C13/{}/non-termination", t.name), format!("input ({} bytes) {}…: no result within 20 s", input.len(), show()))),
        Outcome::Harness(_) => Ok(()),
        Outcome::Accepted { peak } | Outcome::Rejected { peak } => {
            let allowed = ALLOC_BASE + ALLOC_FACTOR * input.len() + t.alloc_cap;
            if *peak > allowed {
                Err(Fail::new(
                    format!("C13/{}/alloc-out-of-proportion", t.name),
                    format!("input ({} bytes) {}…: peak allocation {} bytes > allowed {} (1 MiB + 1024 x len + documented cap {})", input.len(), show(), peak, allowed, t.alloc_cap),
                ))
            } else {
                Ok(())
            }
        }
    }
}

// ---------------------------------------------------------------------------
// input generation

fn random_bytes() -> impl Strategy<Value = Vec<u8>> {
    prop_oneof![
        6 => prop::collection::vec(any::<u8>(), 0..64),
        3 => prop::collection::vec(any::<u8>(), 64..4096),
        1 => prop::collection::vec(prop_oneof![Just(0u8), Just(0xff), Just(0x81), Just(0x9f), Just(0xbf), any::<u8>()], 0..512),
    ]
}

/// CBOR-ish adversarial templates (huge declared lengths, deep nesting) and generic ones.
pub fn templates(thorough: bool) -> Vec<Vec<u8>> {
    let mut v: Vec<Vec<u8>> = Vec::new();
    for major in [2u8, 3, 4, 5] {
        for (info, arg) in [
            (27u8, u64::MAX.to_be_bytes().to_vec()),
            (27, (1u64 << 63).to_be_bytes().to_vec()),
            (27, (1u64 << 32).to_be_bytes().to_vec()),
            (27, (1u64 << 40).to_be_bytes().to_vec()),
            (26, u32::MAX.to_be_bytes().to_vec()),
            (26, (1u32 << 31).to_be_bytes().to_vec()),
            (26, 100_000u32.to_be_bytes().to_vec()),
            (26, 50_000_000u32.to_be_bytes().to_vec()),
            (25, u16::MAX.to_be_bytes().to_vec()),
        ] {
            let mut b = vec![(major << 5) | info];
            b.extend_from_slice(&arg);
            v.push(b.clone());
            // nested inside an array and as a map value
            let mut c = vec![0x81];
            c.extend_from_slice(&b);
            v.push(c);
            let mut d = vec![0xa1, 0x00];
            d.extend_from_slice(&b);
            v.push(d);
            // followed by some elements
            let mut e = b.clone();
            e.extend_from_slice(&[0u8; 32]);
            v.push(e);
        }
    }
    let depths: &[usize] = if thorough { &[50, 129, 200, 1000, 10_000, 100_000, 500_000, 1_000_000] } else { &[50, 129, 200, 1000, 10_000, 100_000, 1_000_000] };
    for n in depths {
        v.push(vec![0x81; *n]);
        let mut m = Vec::with_capacity(2 * n);
        for _ in 0..*n {
            m.extend_from_slice(&[0xa1, 0x00]);
        }
        v.push(m);
        v.push(vec![0xc0; *n]);
        v.push(vec![0x9f; *n]);
        let mut k = Vec::with_capacity(*n + 1);
        k.extend(std::iter::repeat(0x81).take(*n));
        k.push(0x00);
        v.push(k);
        let mut mk = Vec::new(); // nesting through map KEYS
        for _ in 0..*n {
            mk.push(0xa1);
        }
        v.push(mk);
    }
    // nested length amplification: every level declares a count that is admissible on its own
    // (there are at least that many bytes left), so a decoder that reserves per declared entry
    // before it has decoded any holds depth x count slots for an input of about `count` bytes
    let amp_depths: &[usize] = if thorough { &[2, 8, 32, 64, 100, 120, 126, 127, 128, 129, 200, 256, 1000] } else { &[2, 8, 32, 64, 120, 127, 128, 129, 256] };
    for count in [255u32, 4096, 32_000, 65_535, 100_000] {
        let head = |major: u8| -> Vec<u8> {
            if count < 256 {
                vec![(major << 5) | 24, count as u8]
            } else if count < 65_536 {
                let mut h = vec![(major << 5) | 25];
                h.extend_from_slice(&(count as u16).to_be_bytes());
                h
            } else {
                let mut h = vec![(major << 5) | 26];
                h.extend_from_slice(&count.to_be_bytes());
                h
            }
        };
        for d in amp_depths {
            // arrays in arrays; maps whose first KEY is the next map; maps whose first VALUE is
            for style in 0..3u8 {
                let mut b = Vec::new();
                for _ in 0..*d {
                    match style {
                        0 => b.extend_from_slice(&head(4)),
                        1 => b.extend_from_slice(&head(5)),
                        _ => {
                            b.extend_from_slice(&head(5));
                            b.push(0x00);
                        }
                    }
                }
                b.extend(std::iter::repeat(0u8).take(count as usize));
                v.push(b);
            }
        }
    }
    v.push(vec![0xff; 1 << 20]);
    v.push(vec![0x00; 1 << 20]);
    v.push(vec![0x61; 1 << 20]);
    v.push(vec![0xf9, 0x7e, 0x01]);
    v.push(vec![0x7f, 0x61, 0x61, 0xff]);
    v.push(vec![0x62, 0xff, 0xfe]);
    v
}

pub fn seed_templates(t: &Target) -> Vec<Vec<u8>> {
    let mut v = Vec::new();
    for seed in t.seeds.iter().take(3) {
        // truncated tails at every cut (bounded)
        let step = (seed.len() / 400).max(1);
        for cut in (0..seed.len()).step_by(step) {
            v.push(seed[..cut].to_vec());
        }
        // adversarial lengths in every aligned 8- and 4-byte window
        for val in [1u64 << 31, (1 << 32) - 1, 1 << 32, 1 << 63, u64::MAX, seed.len() as u64 + 1] {
            let step8 = (seed.len() / 8 / 200).max(1);
            for i in (0..seed.len().saturating_sub(7)).step_by(step8) {
                let mut b = seed.clone();
                b[i..i + 8].copy_from_slice(&val.to_le_bytes());
                v.push(b);
                let mut b = seed.clone();
                b[i..i + 8].copy_from_slice(&val.to_be_bytes());
                v.push(b);
            }
            let step4 = (seed.len() / 4 / 200).max(1);
            for i in (0..seed.len().saturating_sub(3)).step_by(step4) {
                let mut b = seed.clone();
                b[i..i + 4].copy_from_slice(&(val as u32).to_le_bytes());
                v.push(b);
            }
        }
        // seed followed by a large tail
        let mut b = seed.clone();
        b.extend(std::iter::repeat(0u8).take(1 << 20));
        v.push(b);
    }
    v
}

pub struct C13Sub {
    pub name: &'static str,
    pub kind: u8,
}

fn draw_many<S: Strategy>(ctx: &Ctx, sub: &str, s: &S, n: usize) -> Vec<S::Value> {
    let rng = TestRng::from_seed(RngAlgorithm::ChaCha, &ctx.sub_seed(sub));
    let mut runner = TestRunner::new_with_rng(Config::default(), rng);
    (0..n).map(|_| s.new_tree(&mut runner).expect("gen").current()).collect()
}

impl C13Sub {
    fn inputs(&self, ctx: &Ctx, t: &[Target]) -> Vec<(usize, Vec<u8>, bool)> {
        let mut items: Vec<(usize, Vec<u8>, bool)> = Vec::new();
        match self.kind {
            0 => {
                let per = ctx.tier.pick(6_000, 150_000) / ctx.nshards as usize;
                for (ti, _) in t.iter().enumerate() {
                    for b in draw_many(ctx, &format!("{}-{ti}", self.name), &random_bytes(), per) {
                        items.push((ti, b, false));
                    }
                }
            }
            1 => {
                let per = ctx.tier.pick(12_000, 300_000) / ctx.nshards as usize;
                let strat = (any::<u8>(), prop::collection::vec(bmut(), 1..6));
                for (ti, tg) in t.iter().enumerate() {
                    if tg.seeds.is_empty() {
                        continue;
                    }
                    for (s, muts) in draw_many(ctx, &format!("{}-{ti}", self.name), &strat, per) {
                        let mut b = tg.seeds[s as usize % tg.seeds.len()].clone();
                        for m in &muts {
                            b = apply_bmut(&b, &tg.seeds, m);
                        }
                        items.push((ti, b, muts.len() <= 2));
                    }
                }
            }
            _ => {
                // deterministic template grid, split across shards by index
                let mut all: Vec<(usize, Vec<u8>, bool)> = Vec::new();
                let generic = templates(ctx.tier == vkit::Tier::Thorough);
                for (ti, tg) in t.iter().enumerate() {
                    for g in &generic {
                        all.push((ti, g.clone(), false));
                    }
                    for s in seed_templates(tg) {
                        all.push((ti, s, true));
                    }
                }
                for (i, it) in all.into_iter().enumerate() {
                    if i as u32 % ctx.nshards == ctx.shard {
                        items.push(it);
                    }
                }
            }
        }
        items
    }
}

impl Sub for C13Sub {
    fn name(&self) -> String {
        self.name.to_string()
    }
    fn run(&self, ctx: &Ctx, rec: &mut Recorder) {
        let t0 = Instant::now();
        let t = entry_points();
        let items = self.inputs(ctx, &t);
        let plain: Vec<(usize, Vec<u8>)> = items.iter().map(|(a, b, _)| (*a, b.clone())).collect();
        let outcomes = run_all(ctx, &plain);
        let st = rec.subs.entry(self.name.to_string()).or_default();
        let mut fails: Vec<(usize, Fail)> = Vec::new();
        let mut harness_trouble: Vec<String> = Vec::new();
        for (i, o) in outcomes.iter().enumerate() {
            let (ti, input, structured) = &items[i];
            st.evaluations += 1;
            st.cases += 1;
            let cls = match o {
                Outcome::Accepted { .. } => "accepted",
                Outcome::Rejected { .. } => "rejected",
                Outcome::Panic(_) => "panic",
                Outcome::Crash(_) => "crash",
                Outcome::Hang => "hang",
                Outcome::Harness(_) => "harness-trouble",
            };
            *st.classes.entry(format!("{}:{cls}", t[*ti].name)).or_default() += 1;
            if matches!(o, Outcome::Accepted { .. }) || *structured {
                let fresh = st.nontrivial.insert(vkit::h64(&[t[*ti].name.as_bytes(), input.as_slice()].concat()));
                if fresh && st.samples.len() < 3 && input.len() < 300 {
                    st.samples.push(json!({"target": t[*ti].name, "input_hex": hex::encode(input), "outcome": cls}));
                }
            }
            if let Outcome::Harness(m) = o {
                harness_trouble.push(format!("{}: {m}", t[*ti].name));
                continue;
            }
            // a process-level outcome (death, silence) must reproduce in a fresh child of its
            // own before it counts: a loaded machine can kill or starve a child
            let confirmed;
            let o = if matches!(o, Outcome::Crash(_) | Outcome::Hang) {
                let again = run_all(ctx, &[(*ti, input.clone())]);
                match again.into_iter().next() {
                    Some(o2 @ (Outcome::Crash(_) | Outcome::Hang | Outcome::Panic(_))) => {
                        confirmed = o2;
                        &confirmed
                    }
                    _ => {
                        harness_trouble.push(format!("{}: a child death / silence did not reproduce in a fresh child", t[*ti].name));
                        continue;
                    }
                }
            } else {
                o
            };
            if let Err(f) = judge(&t[*ti], input, o) {
                if ctx.is_known(&f.sig) {
                    *st.known.entry(f.sig).or_default() += 1;
                } else if !fails.iter().any(|(_, g)| g.sig == f.sig) {
                    fails.push((i, f));
                }
            }
        }
        st.exhaustive = self.kind == 2;
        st.wall_s = t0.elapsed().as_secs_f64();
        harness_trouble.sort();
        harness_trouble.dedup();
        rec.inconclusive.extend(harness_trouble.into_iter().map(|m| format!("{}: {m}", self.name)));
        for (i, f) in fails {
            let (ti, input, _) = &items[i];
            // minimise: shortest prefix / halving that still fails with the same signature
            let mut best = input.clone();
            let mut tries = 0;
            let mut cut = best.len() / 2;
            while cut > 0 && tries < 24 {
                tries += 1;
                let cand: Vec<u8> = best[..best.len() - cut].to_vec();
                let o = run_all(ctx, &[(*ti, cand.clone())]);
                if matches!(judge(&t[*ti], &cand, &o[0]), Err(ref g) if g.sig == f.sig) {
                    best = cand;
                    cut = (best.len() / 2).min(cut);
                } else {
                    cut /= 2;
                }
            }
            rec.violations.push(Violation {
                sub: self.name.to_string(),
                sig: f.sig,
                msg: f.msg,
                case: serde_json::to_value(Input { target: t[*ti].name.to_string(), hex: hex::encode(&best) }).unwrap(),
            });
        }
    }
    fn replay(&self, ctx: &Ctx, case: &Value) -> Check {
        let inp: Input = serde_json::from_value(case.clone()).map_err(|e| Fail::new("replay/decode", e.to_string()))?;
        let t = entry_points();
        let ti = t.iter().position(|x| x.name == inp.target).ok_or_else(|| Fail::new("replay/decode", "unknown target"))?;
        let bytes = hex::decode(&inp.hex).map_err(|e| Fail::new("replay/decode", e.to_string()))?;
        let o = run_all(ctx, &[(ti, bytes.clone())]);
        judge(&t[ti], &bytes, &o[0])
    }
}

// ---------------------------------------------------------------------------
// structured entry point below the byte level: retained receipt parts
//
// `TickReceipt::try_from_retained_parts` is what every retained-provenance decoder calls with
// whatever entry table and blocker lists the bytes contained. It is fed arbitrary parts
// directly (the byte-level targets reach it only through correctly framed records).

#[derive(Clone, Debug, serde::Serialize, serde::Deserialize)]
pub struct PartsCase {
    /// per entry: disposition (0 applied, 1 footprint conflict, 2 obstruction) and blockers
    entries: Vec<(u8, Vec<u32>)>,
    /// extra blocker lists (length mismatch) when non-zero
    extra_lists: u8,
}

fn parts_case() -> impl proptest::strategy::Strategy<Value = PartsCase> {
    use proptest::prelude::*;
    let blocker = prop_oneof![6 => 0u32..12, 1 => Just(u32::MAX), 1 => 12u32..4000, 1 => any::<u32>()];
    (prop::collection::vec((prop_oneof![3 => Just(0u8), 3 => Just(1u8), 1 => Just(2u8)], prop::collection::vec(blocker, 0..5)), 0..10), prop_oneof![9 => Just(0u8), 1 => 1u8..3])
        .prop_map(|(entries, extra_lists)| PartsCase { entries, extra_lists })
}

fn check_parts(_ctx: &Ctx, c: &PartsCase, probe: &mut vkit::Probe) -> vkit::Check {
    use warp_core::{NodeKey, TickReceipt, TickReceiptDisposition, TickReceiptEntry, TickReceiptRejection};
    let entries: Vec<TickReceiptEntry> = c
        .entries
        .iter()
        .enumerate()
        .map(|(i, (d, _))| TickReceiptEntry {
            rule_id: [i as u8; 32],
            scope_hash: [i as u8 + 1; 32],
            scope: NodeKey { warp_id: warp_core::make_warp_id("root"), local_id: warp_core::NodeId([i as u8; 32]) },
            disposition: match d {
                0 => TickReceiptDisposition::Applied,
                1 => TickReceiptDisposition::Rejected(TickReceiptRejection::FootprintConflict),
                _ => TickReceiptDisposition::Rejected(TickReceiptRejection::ExecutableOperationObstruction),
            },
        })
        .collect();
    let mut lists: Vec<Vec<u32>> = c.entries.iter().map(|(_, b)| b.clone()).collect();
    for _ in 0..c.extra_lists {
        lists.push(vec![0]);
    }
    let r = vkit::catch(|| TickReceipt::try_from_retained_parts(warp_core::TxId::from_raw(1), entries.clone(), lists.clone()));
    match r {
        Err(msg) => vkit::vfail!("C13/receipt.retained-parts/panic", "try_from_retained_parts panicked on blocker lists {:?}: {msg}", lists),
        Ok(Err(_)) => probe.class("typed-error"),
        Ok(Ok(rc)) => {
            // accepted parts obey the documented invariants
            for (i, e) in rc.entries().iter().enumerate() {
                let b = rc.blocked_by(i);
                vkit::vensure!(b.windows(2).all(|w| w[0] < w[1]), "C13/receipt.retained-parts/accepted-unsorted-blockers", "entry {i}: {b:?}");
                vkit::vensure!(b.iter().all(|x| (*x as usize) < i && rc.entries()[*x as usize].disposition == TickReceiptDisposition::Applied), "C13/receipt.retained-parts/accepted-bad-blocker", "entry {i}: {b:?}");
                vkit::vensure!((e.disposition == TickReceiptDisposition::Rejected(TickReceiptRejection::FootprintConflict)) == !b.is_empty(), "C13/receipt.retained-parts/accepted-disposition-blocker-mismatch", "entry {i}");
            }
            probe.class("accepted");
            if rc.entries().len() >= 3 {
                probe.nontrivial();
            }
        }
    }
    if lists.iter().any(|l| l.len() >= 2 && l.windows(2).any(|w| w[0] >= w[1])) {
        probe.nontrivial();
        probe.class("unsorted-multi-blocker-list");
    }
    Ok(())
}

pub fn subs(_ctx: &Ctx) -> Vec<Box<dyn Sub>> {
    vec![
        vkit::prop_sub("structured-receipt-parts", 60_000, 2_000_000, parts_case(), check_parts),
        Box::new(C13Sub { name: "adversarial-templates", kind: 2 }),
        Box::new(C13Sub { name: "seed-mutants", kind: 1 }),
        Box::new(C13Sub { name: "random-bytes", kind: 0 }),
    ]
}

#[allow(dead_code)]
fn _unused(_: BMut) {}
