//! Payloads of WAL records as a REAL trusted runtime host writes them: a few fixed host
//! scripts (durable submissions, staging, scheduler passes over DSL contract intents) run
//! against a filesystem WAL on tmpfs; every committed frame's canonical payload bytes are
//! collected by record kind. They seed the byte-level checks of record types whose values
//! cannot be assembled from public fields (runtime state deltas, receipt batches, ...), and add
//! realistic seeds for the others.

use std::collections::BTreeMap;
use vmodel::host::*;
use vmodel::rt::{realise_prog_for, wl_id};
use warp_core::causal_wal as cw;

pub fn live_wal_payloads() -> BTreeMap<String, Vec<Vec<u8>>> {
    let mut out: BTreeMap<String, Vec<Vec<u8>>> = BTreeMap::new();
    for script in 0..3u8 {
        let seed = vkit::draw(&host_seed(2), &[0x40 + script; 32]);
        let ops: Vec<HostOp> = vkit::draw(&proptest::collection::vec(host_op(), 10..16), &[0x60 + script; 32]);
        let base = if std::path::Path::new("/dev/shm").is_dir() { std::path::PathBuf::from("/dev/shm") } else { std::path::PathBuf::from("/verif/target/scratch") };
        let root = base.join("verif-scratch").join(format!("vc_codec-livewal-{}-{script}", std::process::id()));
        let _ = std::fs::remove_dir_all(&root);
        if std::fs::create_dir_all(&root).is_err() {
            continue;
        }
        if let Ok(mut host) = open_host(&seed, &root) {
            let n_wl = seed.worldlines.len() as u8;
            let mut subs: Vec<(warp_core::IngressEnvelope, [u8; 32], u8)> = Vec::new();
            for op in &ops {
                match op {
                    HostOp::Submit { wl, prog, salt } => {
                        let wl = wl % n_wl;
                        let Some(ws) = host.runtime().worldlines().get(&wl_id(wl)).map(|f| f.state().clone()) else { continue };
                        let p = realise_prog_for(&ws, prog);
                        let env = dsl_envelope(wl, &p, *salt);
                        if let Ok(h) = host.app().submit_intent_with_runtime_wal_ack(env.clone()) {
                            subs.push((env, h.submission_id, (*salt % 3) as u8));
                        }
                    }
                    HostOp::Resubmit { which } if !subs.is_empty() => {
                        let (env, _, _) = subs[vkit::pick_idx(*which, subs.len())].clone();
                        let _ = host.app().submit_intent_with_runtime_wal_ack(env);
                    }
                    HostOp::Stage { which } if !subs.is_empty() => {
                        let (env, id, t) = subs[vkit::pick_idx(*which, subs.len())].clone();
                        let _ = host.stage_installed_contract_submission(id, &host_ticket(t, &env.ingress_id()));
                    }
                    HostOp::Tick => {
                        let _ = host.tick_once();
                    }
                    _ => {}
                }
            }
            // make sure something was staged and committed
            for (env, id, t) in subs.clone() {
                let _ = host.stage_installed_contract_submission(id, &host_ticket(t, &env.ingress_id()));
            }
            let _ = host.tick_once();
            drop(host);
            if let Ok(rd) = std::fs::read_dir(root.join("segments")) {
                let mut files: Vec<_> = rd.flatten().map(|e| e.path()).collect();
                files.sort();
                for (i, f) in files.iter().enumerate() {
                    let Ok(bytes) = std::fs::read(f) else { continue };
                    if i == 0 && bytes.len() <= 64 * 1024 {
                        out.entry("__segment__".to_string()).or_default().push(bytes.clone());
                    }
                    if let Ok(rec) = cw::recover_wal_segment_bytes(cw::WalSegmentId::from_raw(i as u64 + 1), &bytes, cw::RecoveryAccessMode::ReadOnly) {
                        for t in &rec.report.transactions {
                            for fr in &t.frames {
                                let v = out.entry(format!("{:?}", fr.payload.kind)).or_default();
                                if v.len() < 6 && !v.contains(&fr.payload.canonical_bytes) {
                                    v.push(fr.payload.canonical_bytes.clone());
                                }
                            }
                        }
                    }
                }
            }
        }
        let _ = std::fs::remove_dir_all(&root);
    }
    out
}
