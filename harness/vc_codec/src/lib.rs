//! Library face of the codec registry, so the coverage-guided fuzz target (harness/fuzz) drives
//! exactly the decode / re-encode entry points the proptest checks use.
#![allow(dead_code)]
pub mod cbor_gen;
pub mod hosttargets;
pub mod livewal;
pub mod targets;
