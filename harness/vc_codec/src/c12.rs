//! C12 — canonical encodings are bijective.
//! Law A: decode(encode(v)) == norm(v), encode deterministic.
//! Law B (canonical-form codecs): decode(b) = Ok(v)  =>  encode(v) == b.

use crate::cbor_gen::*;
use crate::targets::{codec_targets, Dec, Target};
use proptest::prelude::*;
use serde::{Deserialize, Serialize};
use std::cell::RefCell;
use vkit::{enum_sub, prop_sub, vensure, vensure_eq, vfail, Check, Ctx, Fail, Probe, Sub, Tier};

thread_local! {
    static TARGETS: RefCell<Option<std::rc::Rc<Vec<Target>>>> = const { RefCell::new(None) };
}
pub fn all_targets() -> std::rc::Rc<Vec<Target>> {
    TARGETS.with(|t| t.borrow_mut().get_or_insert_with(|| std::rc::Rc::new(codec_targets())).clone())
}

/// Law A + Law B on one input for one target. Returns whether it was accepted.
pub fn laws(t: &Target, input: &[u8]) -> Result<bool, Fail> {
    match (t.run)(input) {
        Dec::Rejected => Ok(false),
        Dec::Accepted { reenc, law_a } => {
            if let Err(m) = law_a {
                return Err(Fail::new(format!("C12/{}/law-a-roundtrip", t.name), format!("input {}: {m}", hex::encode(&input[..input.len().min(200)]))));
            }
            if t.law_b && reenc != input {
                let class = classify_noncanonical(t.name, input, &reenc);
                return Err(Fail::new(
                    format!("C12/{}/accepted-noncanonical/{class}", t.name),
                    format!("decoder accepted {} but the value re-encodes to {}", hex::encode(&input[..input.len().min(200)]), hex::encode(&reenc[..reenc.len().min(200)])),
                ));
            }
            Ok(true)
        }
    }
}

/// Coarse, stable class of a Law-B failure (part of the finding signature).
fn classify_noncanonical(name: &str, input: &[u8], reenc: &[u8]) -> &'static str {
    if name.contains("cbor") {
        // find first differing byte and look at the item head there
        let i = input.iter().zip(reenc.iter()).position(|(a, b)| a != b).unwrap_or(input.len().min(reenc.len()));
        // walk back to a plausible head: f9/fa/fb within 8 bytes
        for back in 0..9 {
            if i >= back {
                match input.get(i - back) {
                    Some(0xf9) if back <= 2 => return "f16-nan-payload-or-sign",
                    Some(0xfa) if back <= 4 => return "f32-float",
                    Some(0xfb) if back <= 8 => return "f64-float",
                    _ => {}
                }
            }
        }
        if input.len() > reenc.len() {
            return "longer-than-canonical";
        }
        return "other-cbor";
    }
    if input.len() > reenc.len() && input.starts_with(reenc) {
        return "trailing-bytes-ignored";
    }
    if input.len() == reenc.len() {
        return "normalised-on-read";
    }
    "other"
}

// --- Law A over generated values ------------------------------------------------

fn check_abi_value(_ctx: &Ctx, v: &CVal, probe: &mut Probe) -> Check {
    let cv = v.to_cbor();
    let e1 = echo_wasm_abi::encode_value(&cv);
    let e2 = echo_wasm_abi::encode_value(&cv);
    let (e1, e2) = match (e1, e2) {
        (Ok(a), Ok(b)) => (a, b),
        (Err(echo_wasm_abi::CanonError::MapKeyDuplicate), _) => {
            probe.class("refused:duplicate-map-key");
            return Ok(());
        }
        (a, b) => vfail!("C12/abi.cbor-value/encode-error", "encoder refused a domain value: {:?} / {:?} for {:?}", a.err(), b.err(), v),
    };
    vensure!(e1 == e2, "C12/abi.cbor-value/encoder-nondeterministic", "{:?}", v);
    match echo_wasm_abi::decode_value(&e1) {
        Ok(back) => {
            let (n1, n2) = (abi_norm(&back), abi_norm(&cv));
            if n1 != n2 {
                vfail!("C12/abi.cbor-value/law-a-roundtrip", "value {:?} encodes to {} which decodes to {:?}", v, hex::encode(&e1), back);
            }
            let e3 = echo_wasm_abi::encode_value(&back).map_err(|e| Fail::new("C12/abi.cbor-value/encode-error", format!("{e:?}")))?;
            vensure!(e3 == e1, "C12/abi.cbor-value/accepted-noncanonical/encoder-output", "encode(decode(encode(v))) != encode(v) for {:?}", v);
        }
        Err(e) => vfail!("C12/abi.cbor-value/encoder-output-rejected", "value {:?} encodes to {} which the decoder rejects: {e:?}", v, hex::encode(&e1)),
    }
    if v.depth() >= 2 || v.has_boundary() {
        probe.nontrivial();
    }
    probe.class(format!("depth:{}", v.depth().min(6)));
    Ok(())
}

fn to_edict(v: &CVal) -> Option<echo_edict_canonical::CanonicalValueV1> {
    use echo_edict_canonical::CanonicalValueV1 as E;
    Some(match v {
        CVal::Null => E::Null,
        CVal::Bool(b) => E::Bool(*b),
        CVal::Int(i) => E::Integer(*i),
        CVal::F(_) => return None,
        CVal::Text(s) => E::Text(s.clone()),
        CVal::Bytes(b) => E::Bytes(b.clone()),
        CVal::Array(a) => E::Array(a.iter().map(to_edict).collect::<Option<Vec<_>>>()?),
        CVal::Map(m) => E::Map(m.iter().map(|(k, v)| Some((to_edict(k)?, to_edict(v)?))).collect::<Option<Vec<_>>>()?),
    })
}

fn strip_floats(v: &CVal) -> CVal {
    match v {
        CVal::F(b) => CVal::Int((*b % 1000) as i128 - 500),
        CVal::Array(a) => CVal::Array(a.iter().map(strip_floats).collect()),
        CVal::Map(m) => CVal::Map(m.iter().map(|(k, v)| (strip_floats(k), strip_floats(v))).collect()),
        other => other.clone(),
    }
}

fn check_edict_value(_ctx: &Ctx, v: &CVal, probe: &mut Probe) -> Check {
    use echo_edict_canonical::*;
    let v = strip_floats(v);
    let ev = to_edict(&v).unwrap();
    let e1 = match encode_canonical_cbor_v1(&ev) {
        Ok(e) => e,
        Err(e) if e.kind() == CanonicalValueErrorKind::DuplicateMapKey => {
            probe.class("refused:duplicate-map-key");
            return Ok(());
        }
        Err(e) => vfail!("C12/edict.cbor-value/encode-error", "{e} for {:?}", ev),
    };
    vensure!(encode_canonical_cbor_v1(&ev).ok().as_ref() == Some(&e1), "C12/edict.cbor-value/encoder-nondeterministic", "{:?}", ev);
    match decode_canonical_cbor_v1(&e1) {
        Ok(back) => {
            // normal form: map entries ordered by encoded key
            let e2 = encode_canonical_cbor_v1(&back).map_err(|e| Fail::new("C12/edict.cbor-value/encode-error", format!("{e}")))?;
            vensure!(e2 == e1, "C12/edict.cbor-value/law-a-roundtrip", "{:?}", ev);
            fn norm(v: &CanonicalValueV1) -> String {
                match v {
                    CanonicalValueV1::Array(a) => format!("[{}]", a.iter().map(norm).collect::<Vec<_>>().join(",")),
                    CanonicalValueV1::Map(m) => {
                        let mut es: Vec<String> = m.iter().map(|(k, v)| format!("{}:{}", norm(k), norm(v))).collect();
                        es.sort();
                        format!("{{{}}}", es.join(","))
                    }
                    other => format!("{other:?}"),
                }
            }
            vensure_eq!(norm(&back), norm(&ev), "C12/edict.cbor-value/law-a-roundtrip", "value changed through the codec");
            // artifact digest is a function of the value (insertion order of map entries is not)
            if let CanonicalValueV1::Map(m) = &ev {
                let mut rev = m.clone();
                rev.reverse();
                let d1 = digest_canonical_value_v1("verif", &ev);
                let d2 = digest_canonical_value_v1("verif", &CanonicalValueV1::Map(rev));
                vensure!(d1 == d2, "C12/edict.cbor-value/digest-depends-on-insertion-order", "{:?}", ev);
            }
        }
        Err(e) => vfail!("C12/edict.cbor-value/encoder-output-rejected", "{:?} -> {}: {e}", ev, hex::encode(&e1)),
    }
    if v.depth() >= 2 || v.has_boundary() {
        probe.nontrivial();
    }
    Ok(())
}

// --- DTOs through encode_cbor / decode_cbor -------------------------------------

#[derive(Clone, Debug, PartialEq, Serialize, Deserialize)]
pub struct Dto {
    a: u64,
    b: i64,
    c: Option<Box<Dto>>,
    d: Vec<u32>,
    e: std::collections::BTreeMap<String, i32>,
    f: f64,
    g: f32,
    h: String,
    i: (bool, u8),
    j: DtoEnum,
}
#[derive(Clone, Debug, PartialEq, Serialize, Deserialize)]
pub enum DtoEnum {
    Unit,
    New(u16),
    Tuple(i8, String),
    Struct { x: i64, y: Vec<u8> },
}

fn dto_leaf() -> impl Strategy<Value = Dto> {
    (
        prop_oneof![Just(0u64), Just(23), Just(24), Just(u64::MAX), any::<u64>()],
        prop_oneof![Just(0i64), Just(-1), Just(-24), Just(-25), Just(i64::MIN), Just(i64::MAX), any::<i64>()],
        prop::collection::vec(any::<u32>(), 0..5),
        prop::collection::btree_map("[a-z]{0,4}", any::<i32>(), 0..4),
        float_bits(),
        any::<f32>(),
        "[ -~]{0,10}",
        (any::<bool>(), any::<u8>()),
        prop_oneof![
            Just(DtoEnum::Unit),
            any::<u16>().prop_map(DtoEnum::New),
            (any::<i8>(), "[a-z]{0,3}").prop_map(|(a, b)| DtoEnum::Tuple(a, b)),
            (any::<i64>(), prop::collection::vec(any::<u8>(), 0..4)).prop_map(|(x, y)| DtoEnum::Struct { x, y }),
        ],
    )
        .prop_map(|(a, b, d, e, f, g, h, i, j)| Dto { a, b, c: None, d, e, f: f64::from_bits(f), g, h, i, j })
}

fn dto() -> impl Strategy<Value = Dto> {
    (dto_leaf(), prop::option::of(dto_leaf())).prop_map(|(mut d, c)| {
        d.c = c.map(Box::new);
        d
    })
}

fn dto_norm(d: &Dto) -> String {
    // documented normal form of the ABI encoder for floats: NaN -> canonical NaN, -0.0 -> 0
    fn nf(f: f64) -> String {
        if f.is_nan() { "NaN".into() } else if f == 0.0 { "0".into() } else { format!("{:016x}", f.to_bits()) }
    }
    format!("{}|{}|{}|{:?}|{:?}|{}|{}|{:?}|{:?}|{:?}", d.a, d.b, d.c.as_ref().map(|c| dto_norm(c)).unwrap_or_default(), d.d, d.e, nf(d.f), nf(d.g as f64), d.h, d.i, d.j)
}

fn check_dto(_ctx: &Ctx, d: &Dto, probe: &mut Probe) -> Check {
    let e1 = echo_wasm_abi::encode_cbor(d).map_err(|e| Fail::new("C12/abi.dto/encode-error", format!("{e:?} for {d:?}")))?;
    let e2 = echo_wasm_abi::encode_cbor(d).map_err(|e| Fail::new("C12/abi.dto/encode-error", format!("{e:?}")))?;
    vensure!(e1 == e2, "C12/abi.dto/encoder-nondeterministic", "{:?}", d);
    let back: Dto = echo_wasm_abi::decode_cbor(&e1).map_err(|e| Fail::new("C12/abi.dto/encoder-output-rejected", format!("{e:?} for {d:?} -> {}", hex::encode(&e1))))?;
    if dto_norm(&back) != dto_norm(d) {
        vfail!("C12/abi.dto/law-a-roundtrip", "{:?} -> {} -> {:?}", d, hex::encode(&e1), back);
    }
    // bytes are canonical at the value level
    let t = all_targets();
    laws(&t[0], &e1)?;
    if d.c.is_some() {
        probe.nontrivial();
    }
    Ok(())
}

// --- exhaustive short byte strings ---------------------------------------------

#[derive(Clone, Debug, Serialize, Deserialize)]
pub struct ShortBlock {
    len: u8,
    first: u16,
}

fn short_blocks(ctx: &Ctx) -> Box<dyn Iterator<Item = ShortBlock>> {
    let _ = ctx;
    let mut v = vec![ShortBlock { len: 0, first: 0 }, ShortBlock { len: 1, first: 0 }];
    v.extend((0..256u16).map(|f| ShortBlock { len: 2, first: f }));
    v.extend((0..256u16).map(|f| ShortBlock { len: 3, first: f }));
    Box::new(v.into_iter())
}

fn check_short(_ctx: &Ctx, b: &ShortBlock, probe: &mut Probe) -> Check {
    let t = all_targets();
    let mut n = 0u64;
    let mut run_all = |input: &[u8], cbor_only: bool| -> Check {
        for tg in t.iter().filter(|tg| tg.law_b) {
            if cbor_only && !tg.name.contains("cbor") {
                continue;
            }
            n += 1;
            if laws(tg, input)? {
                probe.sub_nontrivial(format!("{}|{}", tg.name, hex::encode(input)).as_bytes());
            }
        }
        Ok(())
    };
    match b.len {
        0 => run_all(&[], false)?,
        1 => {
            for x in 0..=255u8 {
                run_all(&[x], false)?;
            }
        }
        2 => {
            for y in 0..=255u8 {
                run_all(&[b.first as u8, y], false)?;
            }
        }
        _ => {
            for y in 0..=255u8 {
                for z in 0..=255u8 {
                    run_all(&[b.first as u8, y, z], true)?;
                }
            }
        }
    }
    probe.evals(n);
    Ok(())
}

// --- structure-aware CBOR mutation ---------------------------------------------

#[derive(Clone, Debug, Serialize, Deserialize)]
pub struct CborMutCase {
    v: CVal,
    muts: Vec<CMut>,
}

fn cbor_mut_case() -> impl Strategy<Value = CborMutCase> {
    (cval(), prop::collection::vec(cmut(), 1..4)).prop_map(|(v, muts)| CborMutCase { v, muts })
}

fn check_cbor_mut(_ctx: &Ctx, c: &CborMutCase, probe: &mut Probe) -> Check {
    let t = all_targets();
    let Ok(valid) = echo_wasm_abi::encode_value(&c.v.to_cbor()) else { return Ok(()) };
    if echo_wasm_abi::decode_value(&valid).is_err() {
        return Ok(()); // Law A sub-check reports this
    }
    for m in &c.muts {
        let Some(bytes) = mutate_cbor(&valid, m) else { continue };
        let name = format!("{:?}", m).split('(').next().unwrap_or("?").to_string();
        let acc_abi = laws(&t[0], &bytes)?;
        let acc_edict = laws(&t[1], &bytes)?;
        probe.class(format!("{}:{}", name, if acc_abi { "accepted-canonical" } else { "rejected" }));
        let _ = acc_edict;
        probe.evals(2);
        probe.sub_nontrivial(&bytes);
    }
    Ok(())
}

// --- byte-level mutation of seeds for every target ------------------------------

#[derive(Clone, Debug, Serialize, Deserialize)]
pub enum BMut {
    BitFlip(u16, u8),
    SetByte(u16, u8),
    Truncate(u16),
    Append(Vec<u8>),
    Insert(u16, Vec<u8>),
    Delete(u16, u8),
    Splice(u8, u16, u8, u16),
    ZeroRange(u16, u8),
    SetLen(u16, u8),
}

pub fn bmut() -> impl Strategy<Value = BMut> {
    prop_oneof![
        4 => (any::<u16>(), 0u8..8).prop_map(|(p, b)| BMut::BitFlip(p, b)),
        3 => (any::<u16>(), prop_oneof![Just(0u8), Just(1), Just(2), Just(3), Just(0xff), any::<u8>()]).prop_map(|(p, b)| BMut::SetByte(p, b)),
        2 => any::<u16>().prop_map(BMut::Truncate),
        2 => prop::collection::vec(any::<u8>(), 1..4).prop_map(BMut::Append),
        1 => (any::<u16>(), prop::collection::vec(any::<u8>(), 1..4)).prop_map(|(p, b)| BMut::Insert(p, b)),
        1 => (any::<u16>(), 1u8..9).prop_map(|(p, n)| BMut::Delete(p, n)),
        2 => (any::<u8>(), any::<u16>(), 1u8..80, any::<u16>()).prop_map(|(s, f, n, a)| BMut::Splice(s, f, n, a)),
        1 => (any::<u16>(), prop_oneof![Just(1u8), Just(4), Just(8), Just(32)]).prop_map(|(p, n)| BMut::ZeroRange(p, n)),
        2 => (any::<u16>(), 0u8..8).prop_map(|(p, k)| BMut::SetLen(p, k)),
    ]
}

pub fn apply_bmut(seed: &[u8], seeds: &[Vec<u8>], m: &BMut) -> Vec<u8> {
    let mut b = seed.to_vec();
    let n = b.len();
    let at = |p: u16, n: usize| vkit::pick_idx(p, n.max(1));
    match m {
        BMut::BitFlip(p, bit) => {
            if n > 0 {
                b[at(*p, n)] ^= 1 << bit;
            }
        }
        BMut::SetByte(p, v) => {
            if n > 0 {
                b[at(*p, n)] = *v;
            }
        }
        BMut::Truncate(p) => b.truncate(at(*p, n + 1)),
        BMut::Append(x) => b.extend_from_slice(x),
        BMut::Insert(p, x) => {
            let i = at(*p, n + 1);
            b.splice(i..i, x.iter().copied());
        }
        BMut::Delete(p, k) => {
            if n > 0 {
                let i = at(*p, n);
                let j = (i + *k as usize).min(n);
                b.drain(i..j);
            }
        }
        BMut::Splice(s, f, k, a) => {
            if !seeds.is_empty() {
                let o = &seeds[*s as usize % seeds.len()];
                if !o.is_empty() && n > 0 {
                    let i = at(*f, o.len());
                    let j = (i + *k as usize).min(o.len());
                    let d = at(*a, n);
                    let e = (d + (j - i)).min(n);
                    b.splice(d..e, o[i..j].iter().copied());
                }
            }
        }
        BMut::ZeroRange(p, k) => {
            if n > 0 {
                let i = at(*p, n);
                for x in b.iter_mut().skip(i).take(*k as usize) {
                    *x = 0;
                }
            }
        }
        BMut::SetLen(p, k) => {
            // overwrite 8 (or 4) bytes with an adversarial little-endian length
            let vals: [u64; 8] = [0, 1, 1 << 31, (1 << 32) - 1, 1 << 32, 1 << 63, u64::MAX, (n as u64).wrapping_add(1)];
            let v = vals[*k as usize % 8];
            if n >= 8 {
                let i = at(*p, n - 7);
                b[i..i + 8].copy_from_slice(&v.to_le_bytes());
            } else if n >= 4 {
                let i = at(*p, n - 3);
                b[i..i + 4].copy_from_slice(&(v as u32).to_le_bytes());
            }
        }
    }
    b
}

#[derive(Clone, Debug, Serialize, Deserialize)]
pub struct ByteMutCase {
    pub target: u8,
    pub seed: u8,
    pub muts: Vec<BMut>,
}

pub fn byte_mut_case() -> impl Strategy<Value = ByteMutCase> {
    (any::<u8>(), any::<u8>(), prop::collection::vec(bmut(), 0..4)).prop_map(|(target, seed, muts)| ByteMutCase { target, seed, muts })
}

pub fn materialise(t: &[Target], c: &ByteMutCase) -> Option<(usize, Vec<u8>)> {
    let with_seeds: Vec<usize> = (0..t.len()).filter(|i| !t[*i].seeds.is_empty()).collect();
    let ti = with_seeds[c.target as usize % with_seeds.len()];
    let tg = &t[ti];
    let mut b = tg.seeds[c.seed as usize % tg.seeds.len()].clone();
    for m in &c.muts {
        b = apply_bmut(&b, &tg.seeds, m);
    }
    Some((ti, b))
}

fn check_byte_mut(_ctx: &Ctx, c: &ByteMutCase, probe: &mut Probe) -> Check {
    let t = all_targets();
    let Some((ti, bytes)) = materialise(&t, c) else { return Ok(()) };
    let tg = &t[ti];
    let accepted = laws(tg, &bytes)?;
    probe.class(format!("{}:{}", tg.name, if accepted { "accepted" } else { "rejected" }));
    if accepted && !c.muts.is_empty() {
        probe.nontrivial();
    }
    Ok(())
}

// --- seeds themselves are valid and canonical (health gate as a checked fact) ----

#[derive(Clone, Debug, Serialize, Deserialize)]
pub struct SeedRef {
    target: usize,
}

fn seed_refs(_ctx: &Ctx) -> Box<dyn Iterator<Item = SeedRef>> {
    let n = all_targets().len();
    Box::new((0..n).map(|target| SeedRef { target }))
}

fn check_seed(_ctx: &Ctx, s: &SeedRef, probe: &mut Probe) -> Check {
    let t = all_targets();
    let tg = &t[s.target];
    for seed in &tg.seeds {
        let acc = laws(tg, seed)?;
        vensure!(acc || tg.name == "wal.segment", "C12/harness/seed-rejected", "{}: encoder output {} rejected by its decoder", tg.name, hex::encode(&seed[..seed.len().min(64)]));
        probe.sub_nontrivial(seed);
    }
    probe.evals(tg.seeds.len() as u64);
    Ok(())
}

// --- codec.rs Reader/Writer toolkit through a record using every primitive --------

#[derive(Clone, Debug, PartialEq, Serialize, Deserialize)]
pub struct ToolkitRec {
    a: u8,
    b: u16,
    c: u32,
    d: i32,
    e: i64,
    f: bool,
    g: Option<u32>,
    h: Vec<u16>,
    s: String,
    bytes: Vec<u8>,
    arr: [u8; 4],
    fl: u32,
}

const MAX_STR: usize = 64;

fn enc_toolkit(r: &ToolkitRec) -> Result<Vec<u8>, echo_wasm_abi::codec::CodecError> {
    use echo_wasm_abi::codec::Writer;
    let mut w = Writer::with_capacity(64);
    w.write_u8(r.a);
    w.write_u16_le(r.b);
    w.write_u32_le(r.c);
    w.write_i32_le(r.d);
    w.write_i64_le(r.e);
    w.write_bool(r.f);
    w.write_option(r.g, |w, v| {
        w.write_u32_le(v);
        Ok(())
    })?;
    w.write_list(&r.h, |w, v| {
        w.write_u16_le(*v);
        Ok(())
    })?;
    w.write_string(&r.s, MAX_STR)?;
    w.write_len_prefixed_bytes(&r.bytes)?;
    w.write_bytes(&r.arr);
    w.write_f32_le(f32::from_bits(r.fl));
    Ok(w.into_vec())
}

fn dec_toolkit(b: &[u8]) -> Result<ToolkitRec, echo_wasm_abi::codec::CodecError> {
    use echo_wasm_abi::codec::Reader;
    let mut r = Reader::new(b);
    let rec = ToolkitRec {
        a: r.read_u8()?,
        b: r.read_u16_le()?,
        c: r.read_u32_le()?,
        d: r.read_i32_le()?,
        e: r.read_i64_le()?,
        f: r.read_bool()?,
        g: r.read_option(|r| r.read_u32_le())?,
        h: r.read_list(|r| r.read_u16_le())?,
        s: r.read_string(MAX_STR)?,
        bytes: r.read_len_prefixed_bytes(1 << 16)?.to_vec(),
        arr: r.read_byte_array::<4>()?,
        fl: r.read_f32_le()?.to_bits(),
    };
    if r.remaining() != 0 {
        return Err(echo_wasm_abi::codec::CodecError::Trailing);
    }
    Ok(rec)
}

#[derive(Clone, Debug, Serialize, Deserialize)]
pub struct ToolkitCase {
    rec: ToolkitRec,
    muts: Vec<BMut>,
}

fn toolkit_case() -> impl Strategy<Value = ToolkitCase> {
    (
        (any::<u8>(), any::<u16>(), any::<u32>(), any::<i32>(), any::<i64>(), any::<bool>(), prop::option::of(any::<u32>())),
        (prop::collection::vec(any::<u16>(), 0..5), "[a-z\u{e9}]{0,8}", prop::collection::vec(any::<u8>(), 0..9), any::<[u8; 4]>(), any::<u32>()),
        prop::collection::vec(bmut(), 0..3),
    )
        .prop_map(|((a, b, c, d, e, f, g), (h, s, bytes, arr, fl), muts)| ToolkitCase { rec: ToolkitRec { a, b, c, d, e, f, g, h, s, bytes, arr, fl }, muts })
}

fn check_toolkit(_ctx: &Ctx, c: &ToolkitCase, probe: &mut Probe) -> Check {
    use echo_wasm_abi::codec::canonicalize_f32;
    let e = enc_toolkit(&c.rec).map_err(|e| Fail::new("C12/abi.codec-toolkit/encode-error", format!("{e:?}")))?;
    let back = dec_toolkit(&e).map_err(|er| Fail::new("C12/abi.codec-toolkit/encoder-output-rejected", format!("{er:?} for {:?}", c.rec)))?;
    let mut expect = c.rec.clone();
    // documented: write_f32_le canonicalises the float
    expect.fl = canonicalize_f32(f32::from_bits(c.rec.fl)).to_bits();
    if back != expect && !(f32::from_bits(back.fl).is_nan() && f32::from_bits(expect.fl).is_nan() && ToolkitRec { fl: 0, ..back.clone() } == ToolkitRec { fl: 0, ..expect.clone() }) {
        vfail!("C12/abi.codec-toolkit/law-a-roundtrip", "{:?} -> {:?}", c.rec, back);
    }
    // byte-level direction on mutants: accepted => re-encodes to the same bytes, except that
    // the f32 field is normalised on read by design (last 4 bytes)
    let mut b = e.clone();
    for m in &c.muts {
        b = apply_bmut(&b, &[], m);
    }
    match dec_toolkit(&b) {
        Err(_) => probe.class("mutant:rejected"),
        Ok(v) => {
            let re = enc_toolkit(&v).map_err(|e| Fail::new("C12/abi.codec-toolkit/encode-error", format!("{e:?}")))?;
            let n = b.len();
            if n < 4 || re.len() != n || re[..n - 4] != b[..n - 4] {
                vfail!("C12/abi.codec-toolkit/accepted-noncanonical", "accepted {} re-encodes to {}", hex::encode(&b), hex::encode(&re));
            }
            probe.class("mutant:accepted");
            if !c.muts.is_empty() {
                probe.nontrivial();
            }
        }
    }
    Ok(())
}

// ---------------------------------------------------------------------------
// WAL payload records that carry canonical LISTS (generated values, not only seeds)

#[derive(Clone, Debug, serde::Serialize, serde::Deserialize)]
pub struct RefSeed {
    wl: u8,
    tick: u8,
    gtick: u8,
    h: u8,
}

#[derive(Clone, Debug, serde::Serialize, serde::Deserialize)]
pub struct CorrCase {
    this: RefSeed,
    parents: Vec<RefSeed>,
    swap: u16,
}

fn ref_seed() -> impl Strategy<Value = RefSeed> {
    (0u8..2, 0u8..12, 0u8..12, 0u8..3).prop_map(|(wl, tick, gtick, h)| RefSeed { wl, tick, gtick, h })
}

/// tick values around byte and word boundaries (wire integers are little-endian: byte order
/// and numeric order disagree exactly there)
const TICKS: [u64; 12] = [0, 1, 2, 255, 256, 257, 511, 512, 65535, 65536, 0xffff_ffff, 0x1_0000_0000];

fn real_ref(r: &RefSeed) -> warp_core::CausalTickReceiptRef {
    let hh = |x: u8| *blake3::hash(&[x]).as_bytes();
    warp_core::CausalTickReceiptRef {
        worldline_id: warp_core::WorldlineId::from_bytes([0x40 + r.wl; 32]),
        worldline_tick_after: warp_core::WorldlineTick::from_raw(TICKS[r.tick as usize % 12]),
        commit_global_tick: warp_core::GlobalTick::from_raw(TICKS[r.gtick as usize % 12]),
        commit_hash: hh(r.h),
        submission_id: hh(r.h + 10),
        ticket_digest: hh(r.h + 20),
        receipt_content_digest: hh(r.h + 30),
    }
}

fn corr_case() -> impl Strategy<Value = CorrCase> {
    (ref_seed(), prop::collection::vec(ref_seed(), 0..5), any::<u16>()).prop_map(|(this, parents, swap)| CorrCase { this, parents, swap })
}

fn check_corr(_ctx: &Ctx, c: &CorrCase, probe: &mut Probe) -> Check {
    use warp_core::causal_wal::WalReceiptCorrelationRecord as R;
    let rec = R { receipt_ref: real_ref(&c.this), causal_parent_receipts: c.parents.iter().map(real_ref).collect() };
    let bytes = rec.to_payload_bytes();
    vensure!(rec.to_payload_bytes() == bytes, "C12/wal.receipt-correlation/encoder-not-deterministic", "");
    // Law A
    let v = match R::from_payload_bytes(&bytes) {
        Ok(v) => v,
        Err(e) => vfail!("C12/wal.receipt-correlation/law-a-roundtrip", "the decoder refuses the encoder's own output for parents {:?}: {e:?}", c.parents),
    };
    let mut want: Vec<_> = rec.causal_parent_receipts.clone();
    want.sort();
    want.dedup();
    let mut got = v.causal_parent_receipts.clone();
    got.sort();
    vensure!(v.receipt_ref == rec.receipt_ref && got == want, "C12/wal.receipt-correlation/law-a-roundtrip", "decode(encode(v)) holds other parents than v: {:?} vs {:?}", v.causal_parent_receipts, want);
    vensure!(v.to_payload_bytes() == bytes, "C12/wal.receipt-correlation/law-a-reencode", "");
    // Law B on permuted parent blocks: the canonical bytes of k parents with two adjacent
    // fixed-width blocks swapped must be refused (or re-encode to themselves)
    let k = want.len();
    if k >= 2 {
        // block width from the encoder itself (a count word precedes a non-empty list)
        let l1 = R { receipt_ref: rec.receipt_ref, causal_parent_receipts: vec![want[0]] }.to_payload_bytes().len();
        let l2 = R { receipt_ref: rec.receipt_ref, causal_parent_receipts: vec![want[0], want[1]] }.to_payload_bytes().len();
        let w = l2 - l1;
        if w > 0 && bytes.len() == l1 + (k - 1) * w {
            let i = vkit::pick_idx(c.swap, k - 1);
            let base = bytes.len() - k * w;
            let (a, b) = (base + i * w, base + (i + 1) * w);
            let mut m = bytes.clone();
            let (x, y) = (bytes[a..a + w].to_vec(), bytes[b..b + w].to_vec());
            m[a..a + w].copy_from_slice(&y);
            m[b..b + w].copy_from_slice(&x);
            if m != bytes {
                if let Ok(v2) = R::from_payload_bytes(&m) {
                    let re = v2.to_payload_bytes();
                    vensure!(re == m, "C12/wal.receipt-correlation/accepted-noncanonical/parents-out-of-order", "parents {i} and {} swapped on the wire were accepted and re-encode differently (ticks {:?})", i + 1, want.iter().map(|p| p.worldline_tick_after.as_u64()).collect::<Vec<_>>());
                }
                probe.class("parent-blocks-swapped");
            }
            // same worldline, ticks that order differently as bytes and as integers
            if want.windows(2).any(|p| p[0].worldline_id == p[1].worldline_id && (p[0].worldline_tick_after.as_u64().to_le_bytes() > p[1].worldline_tick_after.as_u64().to_le_bytes()) != (p[0].worldline_tick_after > p[1].worldline_tick_after)) {
                probe.nontrivial();
                probe.class("byte-order-disagrees-with-value-order");
            }
        } else {
            probe.class("layout-assumption-not-met(skipped)");
        }
    }
    Ok(())
}

pub fn subs(_ctx: &Ctx) -> Vec<Box<dyn Sub>> {
    vec![
        enum_sub("seeds-valid-and-canonical", |_| true, seed_refs, check_seed),
        prop_sub("abi-value-law-a", 20_000, 600_000, cval(), check_abi_value),
        prop_sub("edict-value-law-a", 8_000, 200_000, cval(), check_edict_value),
        prop_sub("abi-dto-law-a", 8_000, 200_000, dto(), check_dto),
        enum_sub("all-byte-strings-up-to-3", |_| true, short_blocks, check_short),
        prop_sub("cbor-structure-aware-mutation", 30_000, 800_000, cbor_mut_case(), check_cbor_mut),
        prop_sub("seed-byte-mutation-all-codecs", 60_000, 2_000_000, byte_mut_case(), check_byte_mut),
        prop_sub("codec-toolkit-record", 20_000, 400_000, toolkit_case(), check_toolkit),
        prop_sub("wal-receipt-correlation-generated", 30_000, 600_000, corr_case(), check_corr),
    ]
}

#[allow(dead_code)]
fn _unused(_t: Tier) {}
