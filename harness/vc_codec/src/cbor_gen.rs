//! CBOR value generators (mirror type with serde), normal forms, and structure-aware
//! non-canonical re-serialisation of valid encodings.

use ciborium::value::{Integer, Value};
use proptest::prelude::*;
use serde::{Deserialize, Serialize};

#[derive(Clone, Debug, PartialEq, Serialize, Deserialize)]
pub enum CVal {
    Null,
    Bool(bool),
    /// within i64 ∪ u64 (the ABI codec's documented integer domain)
    Int(i128),
    /// f64 bit pattern
    F(u64),
    Text(String),
    Bytes(Vec<u8>),
    Array(Vec<CVal>),
    Map(Vec<(CVal, CVal)>),
}

pub fn boundary_ints() -> Vec<i128> {
    let mut v: Vec<i128> = vec![0, 1, 23, 24, 25, 255, 256, 65535, 65536, (1 << 32) - 1, 1 << 32, (1 << 32) + 1, 1 << 53, (1i128 << 63) - 1, 1i128 << 63, (1i128 << 64) - 1];
    v.extend([-1, -24, -25, -256, -257, -65536, -65537, -(1i128 << 32), -(1i128 << 32) - 1, -(1i128 << 63) + 1, -(1i128 << 63)]);
    v
}

pub fn float_bits() -> impl Strategy<Value = u64> {
    prop_oneof![
        // specials
        Just(0f64.to_bits()),
        Just((-0f64).to_bits()),
        Just(f64::INFINITY.to_bits()),
        Just(f64::NEG_INFINITY.to_bits()),
        Just(f64::NAN.to_bits()),
        Just(0x7ff8_0000_0000_0001u64), // NaN with payload
        Just(0xfff8_0000_0000_0000u64), // negative NaN
        Just(0x7ff0_0000_0000_0001u64), // signalling NaN
        Just(f64::MIN_POSITIVE.to_bits()),
        Just(1u64),                      // smallest subnormal
        // f16-exact
        Just(1.5f64.to_bits()),
        Just(0.5f64.to_bits()),
        Just((-2.5f64).to_bits()),
        Just(65504.5f64.to_bits()),
        Just(5.960464477539063e-8f64.to_bits()), // smallest f16 subnormal
        // f32-exact, not f16
        Just((1.0f64 + 2f64.powi(-20)).to_bits()),
        Just((f32::MAX as f64 / 3.0).to_bits()),
        Just(f64::from(1.1f32).to_bits()),
        // f64 only
        Just(1.1f64.to_bits()),
        Just(std::f64::consts::PI.to_bits()),
        Just(1e300f64.to_bits()),
        // integral floats of every size class
        Just(1e0f64.to_bits()),
        Just(3e9f64.to_bits()),
        Just(9.007199254740992e15f64.to_bits()),
        Just(1.8446744073709552e19f64.to_bits()), // 2^64
        Just(1e20f64.to_bits()),
        Just((-1e20f64).to_bits()),
        Just(1e30f64.to_bits()),
        Just((-1.8446744073709552e19f64).to_bits()),
        Just((-9.223372036854775808e18f64).to_bits()),
        Just(3.4028234663852886e38f64.to_bits()),
        Just(1e39f64.to_bits()),
        any::<u64>(),
        any::<f32>().prop_map(|f| f64::from(f).to_bits()),
    ]
}

pub fn cval_leaf() -> impl Strategy<Value = CVal> {
    prop_oneof![
        1 => Just(CVal::Null),
        1 => any::<bool>().prop_map(CVal::Bool),
        3 => prop::sample::select(boundary_ints()).prop_map(CVal::Int),
        2 => any::<i64>().prop_map(|v| CVal::Int(v as i128)),
        1 => any::<u64>().prop_map(|v| CVal::Int(v as i128)),
        4 => float_bits().prop_map(CVal::F),
        2 => "[a-z\u{e9}\u{4e16}]{0,12}".prop_map(CVal::Text),
        1 => prop::collection::vec(any::<u8>(), 0..30).prop_map(CVal::Bytes),
        1 => prop::collection::vec(any::<u8>(), 23..26).prop_map(CVal::Bytes),
        1 => Just(CVal::Text("x".repeat(256))),
    ]
}

pub fn cval() -> impl Strategy<Value = CVal> {
    cval_leaf().prop_recursive(6, 64, 12, |inner| {
        prop_oneof![
            prop::collection::vec(inner.clone(), 0..12).prop_map(CVal::Array),
            prop::collection::vec((inner.clone(), inner.clone()), 0..8).prop_map(CVal::Map),
            prop::collection::vec(inner, 23..26).prop_map(CVal::Array),
        ]
    })
}

impl CVal {
    pub fn to_cbor(&self) -> Value {
        match self {
            CVal::Null => Value::Null,
            CVal::Bool(b) => Value::Bool(*b),
            CVal::Int(i) => Value::Integer(Integer::try_from(*i).expect("domain")),
            CVal::F(b) => Value::Float(f64::from_bits(*b)),
            CVal::Text(s) => Value::Text(s.clone()),
            CVal::Bytes(b) => Value::Bytes(b.clone()),
            CVal::Array(v) => Value::Array(v.iter().map(|x| x.to_cbor()).collect()),
            CVal::Map(m) => Value::Map(m.iter().map(|(k, v)| (k.to_cbor(), v.to_cbor())).collect()),
        }
    }
    pub fn depth(&self) -> usize {
        match self {
            CVal::Array(v) => 1 + v.iter().map(|x| x.depth()).max().unwrap_or(0),
            CVal::Map(m) => 1 + m.iter().map(|(k, v)| k.depth().max(v.depth())).max().unwrap_or(0),
            _ => 0,
        }
    }
    pub fn has_boundary(&self) -> bool {
        match self {
            CVal::Int(i) => boundary_ints().contains(i),
            CVal::F(_) => true,
            CVal::Array(v) => v.iter().any(|x| x.has_boundary()),
            CVal::Map(m) => m.iter().any(|(k, v)| k.has_boundary() || v.has_boundary()),
            _ => false,
        }
    }
}

/// The ABI codec's documented normal form of a value, as a comparable structure:
/// integral floats that fit the CBOR integer range become integers, NaN becomes one canonical
/// NaN, map entries are ordered by encoded key (we compare maps as sorted lists of normalised
/// (key, value) pairs rendered to strings).
pub fn abi_norm(v: &Value) -> String {
    match v {
        Value::Null => "null".into(),
        Value::Bool(b) => format!("b{b}"),
        Value::Integer(i) => format!("i{}", i128::from(*i)),
        Value::Float(f) => {
            if f.is_nan() {
                "fNaN".into()
            } else if f.is_finite() && f.fract() == 0.0 && *f >= -18446744073709551616.0 && *f < 18446744073709551616.0 {
                format!("i{}", *f as i128)
            } else {
                format!("f{:016x}", f.to_bits())
            }
        }
        Value::Text(s) => format!("t{s:?}"),
        Value::Bytes(b) => format!("x{}", hex::encode(b)),
        Value::Array(a) => format!("[{}]", a.iter().map(abi_norm).collect::<Vec<_>>().join(",")),
        Value::Map(m) => {
            let mut es: Vec<String> = m.iter().map(|(k, v)| format!("{}:{}", abi_norm(k), abi_norm(v))).collect();
            es.sort();
            format!("{{{}}}", es.join(","))
        }
        other => format!("?{other:?}"),
    }
}

// ---------------------------------------------------------------------------
// a tiny independent CBOR item parser used only to re-serialise VALID encodings in
// non-canonical ways (structure-aware mutation)

#[derive(Clone, Debug)]
pub enum Item {
    /// major 0/1 with argument
    Int(u8, u64),
    Bytes(u8, Vec<u8>),
    Array(Vec<Item>),
    Map(Vec<(Item, Item)>),
    /// simple/float: raw initial byte + following bytes
    Simple(u8, Vec<u8>),
}

pub fn parse(bytes: &[u8], idx: &mut usize, depth: usize) -> Option<Item> {
    if depth > 64 {
        return None;
    }
    let b0 = *bytes.get(*idx)?;
    *idx += 1;
    let (major, info) = (b0 >> 5, b0 & 0x1f);
    let mut arg = |idx: &mut usize| -> Option<u64> {
        let n = match info {
            0..=23 => return Some(info as u64),
            24 => 1,
            25 => 2,
            26 => 4,
            27 => 8,
            _ => return None,
        };
        let s = bytes.get(*idx..*idx + n)?;
        *idx += n;
        Some(s.iter().fold(0u64, |a, b| (a << 8) | *b as u64))
    };
    match major {
        0 | 1 => Some(Item::Int(major, arg(idx)?)),
        2 | 3 => {
            let len = arg(idx)? as usize;
            let s = bytes.get(*idx..idx.checked_add(len)?)?;
            *idx += len;
            Some(Item::Bytes(major, s.to_vec()))
        }
        4 => {
            let len = arg(idx)?;
            let mut v = Vec::new();
            for _ in 0..len {
                v.push(parse(bytes, idx, depth + 1)?);
            }
            Some(Item::Array(v))
        }
        5 => {
            let len = arg(idx)?;
            let mut v = Vec::new();
            for _ in 0..len {
                let k = parse(bytes, idx, depth + 1)?;
                let x = parse(bytes, idx, depth + 1)?;
                v.push((k, x));
            }
            Some(Item::Map(v))
        }
        7 => {
            let n = match info {
                0..=23 => 0,
                24 => 1,
                25 => 2,
                26 => 4,
                27 => 8,
                _ => return None,
            };
            let s = bytes.get(*idx..*idx + n)?;
            *idx += n;
            Some(Item::Simple(b0, s.to_vec()))
        }
        _ => None,
    }
}

fn head(major: u8, n: u64, width: u8, out: &mut Vec<u8>) {
    // width: 0 = minimal, 1/2/4/8 = forced width (if it fits)
    let minimal = |out: &mut Vec<u8>| match n {
        0..=23 => out.push((major << 5) | n as u8),
        24..=0xff => out.extend_from_slice(&[(major << 5) | 24, n as u8]),
        0x100..=0xffff => {
            out.push((major << 5) | 25);
            out.extend_from_slice(&(n as u16).to_be_bytes());
        }
        0x1_0000..=0xffff_ffff => {
            out.push((major << 5) | 26);
            out.extend_from_slice(&(n as u32).to_be_bytes());
        }
        _ => {
            out.push((major << 5) | 27);
            out.extend_from_slice(&n.to_be_bytes());
        }
    };
    match width {
        1 if n <= 0xff => out.extend_from_slice(&[(major << 5) | 24, n as u8]),
        2 if n <= 0xffff => {
            out.push((major << 5) | 25);
            out.extend_from_slice(&(n as u16).to_be_bytes());
        }
        4 if n <= 0xffff_ffff => {
            out.push((major << 5) | 26);
            out.extend_from_slice(&(n as u32).to_be_bytes());
        }
        8 => {
            out.push((major << 5) | 27);
            out.extend_from_slice(&n.to_be_bytes());
        }
        _ => minimal(out),
    }
}

#[derive(Clone, Debug, Serialize, Deserialize)]
pub enum CMut {
    /// widen the head of the k-th item (pre-order) to the given width
    Widen(u16, u8),
    /// swap two entries of the k-th map
    SwapMapEntries(u16, u8, u8),
    /// duplicate an entry of the k-th map
    DupMapEntry(u16, u8),
    /// make the k-th array/map/string indefinite-length
    Indefinite(u16),
    /// wrap the k-th item in a tag
    Tag(u16, u8),
    /// change float width of the k-th float item (0=f16,1=f32,2=f64)
    FloatWidth(u16, u8),
    /// perturb NaN payload / sign of a float item, or replace by -0.0
    FloatBits(u16, u8),
    /// replace an integer item by the float encoding of the same number
    IntAsFloat(u16, u8),
    /// append bytes
    Trailing(Vec<u8>),
    /// replace simple value byte
    SimpleByte(u16, u8),
}

pub fn cmut() -> impl Strategy<Value = CMut> {
    prop_oneof![
        4 => (any::<u16>(), prop::sample::select(vec![1u8, 2, 4, 8])).prop_map(|(k, w)| CMut::Widen(k, w)),
        3 => (any::<u16>(), any::<u8>(), any::<u8>()).prop_map(|(k, a, b)| CMut::SwapMapEntries(k, a, b)),
        2 => (any::<u16>(), any::<u8>()).prop_map(|(k, a)| CMut::DupMapEntry(k, a)),
        2 => any::<u16>().prop_map(CMut::Indefinite),
        2 => (any::<u16>(), any::<u8>()).prop_map(|(k, t)| CMut::Tag(k, t)),
        3 => (any::<u16>(), 0u8..3).prop_map(|(k, w)| CMut::FloatWidth(k, w)),
        3 => (any::<u16>(), any::<u8>()).prop_map(|(k, w)| CMut::FloatBits(k, w)),
        2 => (any::<u16>(), 0u8..3).prop_map(|(k, w)| CMut::IntAsFloat(k, w)),
        2 => prop::collection::vec(any::<u8>(), 1..3).prop_map(CMut::Trailing),
        1 => (any::<u16>(), any::<u8>()).prop_map(|(k, b)| CMut::SimpleByte(k, b)),
    ]
}

fn count(item: &Item) -> usize {
    1 + match item {
        Item::Array(v) => v.iter().map(count).sum(),
        Item::Map(m) => m.iter().map(|(k, v)| count(k) + count(v)).sum(),
        _ => 0,
    }
}

fn float_of(b0: u8, raw: &[u8]) -> Option<f64> {
    match (b0, raw.len()) {
        (0xf9, 2) => Some(half::f16::from_bits(u16::from_be_bytes([raw[0], raw[1]])).to_f64()),
        (0xfa, 4) => Some(f32::from_be_bytes(raw.try_into().ok()?) as f64),
        (0xfb, 8) => Some(f64::from_be_bytes(raw.try_into().ok()?)),
        _ => None,
    }
}

fn write_float(f: f64, w: u8, out: &mut Vec<u8>) {
    match w {
        0 => {
            out.push(0xf9);
            out.extend_from_slice(&half::f16::from_f64(f).to_bits().to_be_bytes());
        }
        1 => {
            out.push(0xfa);
            out.extend_from_slice(&(f as f32).to_be_bytes());
        }
        _ => {
            out.push(0xfb);
            out.extend_from_slice(&f.to_be_bytes());
        }
    }
}

/// Serialise `item`, applying `m` at the `target`-th pre-order position.
pub fn emit(item: &Item, m: &CMut, pos: &mut usize, target: usize, out: &mut Vec<u8>) {
    let here = *pos == target;
    *pos += 1;
    if here {
        if let CMut::Tag(_, t) = m {
            head(6, *t as u64, 0, out);
        }
    }
    let width = match (here, m) {
        (true, CMut::Widen(_, w)) => *w,
        _ => 0,
    };
    match item {
        Item::Int(major, n) => {
            if here {
                if let CMut::IntAsFloat(_, w) = m {
                    let f = if *major == 0 { *n as f64 } else { -1.0 - (*n as f64) };
                    write_float(f, *w, out);
                    return;
                }
            }
            head(*major, *n, width, out)
        }
        Item::Bytes(major, b) => {
            if here && matches!(m, CMut::Indefinite(_)) {
                out.push((major << 5) | 31);
                head(*major, b.len() as u64, 0, out);
                out.extend_from_slice(b);
                out.push(0xff);
            } else {
                head(*major, b.len() as u64, width, out);
                out.extend_from_slice(b);
            }
        }
        Item::Array(v) => {
            let indef = here && matches!(m, CMut::Indefinite(_));
            if indef {
                out.push(0x9f);
            } else {
                head(4, v.len() as u64, width, out);
            }
            for x in v {
                emit(x, m, pos, target, out);
            }
            if indef {
                out.push(0xff);
            }
        }
        Item::Map(es) => {
            let mut es: Vec<&(Item, Item)> = es.iter().collect();
            let mut extra: Option<&(Item, Item)> = None;
            if here && !es.is_empty() {
                match m {
                    CMut::SwapMapEntries(_, a, b) => {
                        let (a, b) = (*a as usize % es.len(), *b as usize % es.len());
                        es.swap(a, b);
                    }
                    CMut::DupMapEntry(_, a) => extra = Some(es[*a as usize % es.len()]),
                    _ => {}
                }
            }
            let indef = here && matches!(m, CMut::Indefinite(_));
            let n = es.len() + extra.is_some() as usize;
            if indef {
                out.push(0xbf);
            } else {
                head(5, n as u64, width, out);
            }
            for (k, v) in es.iter() {
                emit(k, m, pos, target, out);
                emit(v, m, pos, target, out);
            }
            if let Some((k, v)) = extra {
                let mut p2 = usize::MAX / 2;
                emit(k, m, &mut p2, target, out);
                emit(v, m, &mut p2, target, out);
            }
            if indef {
                out.push(0xff);
            }
        }
        Item::Simple(b0, raw) => {
            if here {
                match m {
                    CMut::FloatWidth(_, w) => {
                        if let Some(f) = float_of(*b0, raw) {
                            write_float(f, *w, out);
                            return;
                        }
                    }
                    CMut::FloatBits(_, x) => {
                        if float_of(*b0, raw).is_some() {
                            match x % 6 {
                                0 => out.extend_from_slice(&[0xf9, 0x7e, 0x01]),
                                1 => out.extend_from_slice(&[0xf9, 0xfe, 0x00]),
                                2 => out.extend_from_slice(&[0xf9, 0x7c, *x | 1]),
                                3 => out.extend_from_slice(&[0xf9, 0x80, 0x00]),
                                4 => out.extend_from_slice(&[0xfa, 0x7f, 0xc0, 0x00, 0x01]),
                                _ => out.extend_from_slice(&[0xfb, 0x7f, 0xf8, 0, 0, 0, 0, 0, *x]),
                            }
                            return;
                        }
                    }
                    CMut::SimpleByte(_, b) => {
                        out.push(0xe0 | (b & 0x1f));
                        out.extend_from_slice(raw);
                        return;
                    }
                    _ => {}
                }
            }
            out.push(*b0);
            out.extend_from_slice(raw);
        }
    }
}

/// Apply a structure-aware mutation to a valid encoding. Returns None if the bytes do not
/// parse with the mini parser.
pub fn mutate_cbor(valid: &[u8], m: &CMut) -> Option<Vec<u8>> {
    let mut idx = 0;
    let item = parse(valid, &mut idx, 0)?;
    if idx != valid.len() {
        return None;
    }
    let n = count(&item);
    let k = match m {
        CMut::Widen(k, _)
        | CMut::SwapMapEntries(k, _, _)
        | CMut::DupMapEntry(k, _)
        | CMut::Indefinite(k)
        | CMut::Tag(k, _)
        | CMut::FloatWidth(k, _)
        | CMut::FloatBits(k, _)
        | CMut::IntAsFloat(k, _)
        | CMut::SimpleByte(k, _) => *k,
        CMut::Trailing(_) => 0,
    };
    // choose a position where the mutation applies, starting from the monotone pick
    let start = vkit::pick_idx(k, n);
    let applies = |it: &Item| match (m, it) {
        (CMut::SwapMapEntries(..) | CMut::DupMapEntry(..), Item::Map(es)) => !es.is_empty(),
        (CMut::SwapMapEntries(..) | CMut::DupMapEntry(..), _) => false,
        (CMut::Indefinite(_), Item::Array(_) | Item::Map(_) | Item::Bytes(..)) => true,
        (CMut::Indefinite(_), _) => false,
        (CMut::FloatWidth(..) | CMut::FloatBits(..), Item::Simple(b0, raw)) => float_of(*b0, raw).is_some(),
        (CMut::FloatWidth(..) | CMut::FloatBits(..), _) => false,
        (CMut::IntAsFloat(..), Item::Int(..)) => true,
        (CMut::IntAsFloat(..), _) => false,
        (CMut::SimpleByte(..), Item::Simple(_, raw)) => raw.is_empty(),
        (CMut::SimpleByte(..), _) => false,
        (CMut::Widen(..), Item::Simple(..)) => false,
        _ => true,
    };
    let mut flat: Vec<&Item> = Vec::new();
    fn flatten<'a>(it: &'a Item, out: &mut Vec<&'a Item>) {
        out.push(it);
        match it {
            Item::Array(v) => v.iter().for_each(|x| flatten(x, out)),
            Item::Map(m) => m.iter().for_each(|(k, v)| {
                flatten(k, out);
                flatten(v, out)
            }),
            _ => {}
        }
    }
    flatten(&item, &mut flat);
    let target = (0..n).map(|d| (start + d) % n).find(|i| applies(flat[*i]))?;
    let mut out = Vec::new();
    let mut pos = 0;
    emit(&item, m, &mut pos, target, &mut out);
    if let CMut::Trailing(t) = m {
        out.extend_from_slice(t);
    }
    if out == valid {
        None
    } else {
        Some(out)
    }
}
