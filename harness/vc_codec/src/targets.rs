//! Registry of byte-level codecs: seeds (valid encodings produced by the encoders) and a
//! uniform decode / re-encode entry point.

use warp_core::causal_wal as cw;

pub enum Dec {
    Rejected,
    /// accepted; `reenc` = encoder output for the decoded value; `law_a` = Err(msg) if
    /// decode(encode(v)) != v or the encoder is not deterministic
    Accepted { reenc: Vec<u8>, law_a: Result<(), String> },
}

pub struct Target {
    pub name: &'static str,
    /// canonical-form codec: accepted bytes must re-encode to themselves
    pub law_b: bool,
    pub seeds: Vec<Vec<u8>>,
    pub run: fn(&[u8]) -> Dec,
    /// documented fixed allocation cap of the decoder beyond input proportionality (bytes)
    pub alloc_cap: usize,
}

macro_rules! wal_record {
    ($t:ty) => {
        |b: &[u8]| -> Dec {
            match <$t>::from_payload_bytes(b) {
                Err(_) => Dec::Rejected,
                Ok(v) => {
                    let e = v.to_payload_bytes();
                    let law_a = match <$t>::from_payload_bytes(&e) {
                        Ok(v2) if v2 == v && v2.to_payload_bytes() == e => Ok(()),
                        Ok(v2) => Err(format!("decode(encode(v)) = {v2:?} != {v:?}")),
                        Err(err) => Err(format!("encoder output rejected: {err:?} for {v:?}")),
                    };
                    Dec::Accepted { reenc: e, law_a }
                }
            }
        }
    };
}

fn h(b: u8) -> [u8; 32] {
    let mut x = [b; 32];
    x[31] = b.wrapping_add(1);
    x
}

fn wl(b: u8) -> warp_core::WorldlineId {
    warp_core::WorldlineId::from_bytes(h(b))
}
fn head_key(a: u8, b: u8) -> warp_core::WriterHeadKey {
    warp_core::WriterHeadKey { worldline_id: wl(a), head_id: warp_core::HeadId::from_bytes(h(b)) }
}
fn receipt_ref(b: u8) -> warp_core::CausalTickReceiptRef {
    warp_core::CausalTickReceiptRef {
        worldline_id: wl(b),
        worldline_tick_after: warp_core::WorldlineTick::from_raw(3 + b as u64),
        commit_global_tick: warp_core::GlobalTick::from_raw(9 + b as u64),
        commit_hash: h(b.wrapping_add(1)),
        submission_id: h(b.wrapping_add(2)),
        ticket_digest: h(b.wrapping_add(3)),
        receipt_content_digest: h(b.wrapping_add(4)),
    }
}

fn ingress_seeds() -> Vec<Vec<u8>> {
    use warp_core::{InboxAddress, IngressCausalParent, IngressEnvelope, IngressTarget, IntentKind};
    let kind = IntentKind::from_hash(h(9));
    let mut out = Vec::new();
    let targets = vec![
        IngressTarget::DefaultWriter { worldline_id: wl(1) },
        IngressTarget::InboxAddress { worldline_id: wl(2), inbox: InboxAddress("orders".into()) },
        IngressTarget::ExactHead { key: head_key(3, 4) },
    ];
    for (i, t) in targets.into_iter().enumerate() {
        let parents = match i {
            0 => vec![],
            1 => vec![IngressCausalParent::TickReceipt { receipt_ref: receipt_ref(1) }],
            _ => vec![
                IngressCausalParent::TickReceipt { receipt_ref: receipt_ref(1) },
                IngressCausalParent::ContractInverseTarget { receipt_ref: receipt_ref(7) },
            ],
        };
        let env = IngressEnvelope::local_intent_with_causal_parents(t, kind, vec![1, 2, 3, i as u8], parents);
        out.push(env.to_retained_bytes_v2());
    }
    out
}

fn run_ingress(b: &[u8]) -> Dec {
    use warp_core::IngressEnvelope;
    match IngressEnvelope::from_retained_bytes(b) {
        Err(_) => Dec::Rejected,
        Ok(v) => {
            let e = v.to_retained_bytes_v2();
            let law_a = match IngressEnvelope::from_retained_bytes(&e) {
                Ok(v2) if v2 == v => Ok(()),
                Ok(v2) => Err(format!("decode(encode(v)) = {v2:?} != {v:?}")),
                Err(err) => Err(format!("encoder output rejected: {err:?}")),
            };
            // Law B is claimed for the v2 magic only (v1 is a documented legacy reader)
            if b.starts_with(b"ECHOIE1\0") || !b.starts_with(&e[..8.min(e.len())]) {
                return Dec::Accepted { reenc: b.to_vec(), law_a };
            }
            Dec::Accepted { reenc: e, law_a }
        }
    }
}

fn run_abi_value(b: &[u8]) -> Dec {
    match echo_wasm_abi::decode_value(b) {
        Err(_) => Dec::Rejected,
        Ok(v) => match echo_wasm_abi::encode_value(&v) {
            Err(e) => Dec::Accepted { reenc: vec![], law_a: Err(format!("decoded value cannot be encoded: {e:?}")) },
            Ok(e) => {
                let law_a = match echo_wasm_abi::decode_value(&e) {
                    Ok(v2) if crate::cbor_gen::abi_norm(&v2) == crate::cbor_gen::abi_norm(&v) => Ok(()),
                    Ok(v2) => Err(format!("decode(encode(v)) = {v2:?} != {v:?}")),
                    Err(err) => Err(format!("encoder output rejected: {err:?} for {v:?}")),
                };
                Dec::Accepted { reenc: e, law_a }
            }
        },
    }
}

fn run_edict(b: &[u8]) -> Dec {
    use echo_edict_canonical::{decode_canonical_cbor_v1, encode_canonical_cbor_v1};
    match decode_canonical_cbor_v1(b) {
        Err(_) => Dec::Rejected,
        Ok(v) => match encode_canonical_cbor_v1(&v) {
            Err(e) => Dec::Accepted { reenc: vec![], law_a: Err(format!("decoded value cannot be encoded: {e:?}")) },
            Ok(e) => {
                let law_a = match decode_canonical_cbor_v1(&e) {
                    Ok(v2) if v2 == v => Ok(()),
                    other => Err(format!("decode(encode(v)) = {other:?} != {v:?}")),
                };
                Dec::Accepted { reenc: e, law_a }
            }
        },
    }
}

fn run_intent(b: &[u8]) -> Dec {
    match echo_wasm_abi::unpack_intent_v1(b) {
        Err(_) => Dec::Rejected,
        Ok((op, vars)) => {
            let e = match echo_wasm_abi::pack_intent_v1(op, vars) {
                Ok(e) => e,
                Err(echo_wasm_abi::EnvelopeError::ReservedOpId) => {
                    // reserved ids are packed by the typed control/import packers; the raw
                    // layout is fixed, so re-encode by the documented layout
                    let mut e = b"EINT".to_vec();
                    e.extend_from_slice(&op.to_le_bytes());
                    e.extend_from_slice(&(vars.len() as u32).to_le_bytes());
                    e.extend_from_slice(vars);
                    e
                }
                Err(err) => return Dec::Accepted { reenc: vec![], law_a: Err(format!("unpacked envelope cannot be packed: {err:?}")) },
            };
            let law_a = match echo_wasm_abi::unpack_intent_v1(&e) {
                Ok((o2, v2)) if o2 == op && v2 == vars => Ok(()),
                other => Err(format!("unpack(pack(v)) = {other:?}")),
            };
            Dec::Accepted { reenc: e, law_a }
        }
    }
}

fn run_elog(b: &[u8]) -> Dec {
    use echo_wasm_abi::{read_elog_frame, read_elog_header, write_elog_frame, write_elog_header};
    let mut r = std::io::Cursor::new(b);
    let Ok(hdr) = read_elog_header(&mut r) else { return Dec::Rejected };
    let mut frames = Vec::new();
    loop {
        match read_elog_frame(&mut r) {
            Ok(Some(f)) => frames.push(f),
            Ok(None) => break,
            Err(_) => return Dec::Rejected,
        }
    }
    let mut e = Vec::new();
    let mut ok = write_elog_header(&mut e, &hdr).is_ok();
    for f in &frames {
        ok &= write_elog_frame(&mut e, f).is_ok();
    }
    let law_a = if ok { Ok(()) } else { Err("writer refused what the reader returned".to_string()) };
    Dec::Accepted { reenc: e, law_a }
}

fn elog_seeds() -> Vec<Vec<u8>> {
    use echo_wasm_abi::{pack_intent_v1, write_elog_frame, write_elog_header, ElogHeader};
    let mut out = Vec::new();
    for n in 0..3 {
        let mut e = Vec::new();
        write_elog_header(&mut e, &ElogHeader { schema_hash: h(5), flags: 0 }).unwrap();
        for i in 0..n {
            write_elog_frame(&mut e, &pack_intent_v1(7 + i, &[i as u8; 5]).unwrap()).unwrap();
        }
        out.push(e);
    }
    out
}

fn run_scene_delta(b: &[u8]) -> Dec {
    use echo_scene_codec::{decode_scene_delta, encode_scene_delta};
    match decode_scene_delta(b) {
        Err(_) => Dec::Rejected,
        Ok(v) => {
            let e = encode_scene_delta(&v);
            let law_a = match decode_scene_delta(&e) {
                Ok(v2) if encode_scene_delta(&v2) == e => Ok(()),
                other => Err(format!("decode(encode(v)) differs: {other:?}")),
            };
            Dec::Accepted { reenc: e, law_a }
        }
    }
}
fn run_camera(b: &[u8]) -> Dec {
    use echo_scene_codec::{decode_camera_state, encode_camera_state};
    match decode_camera_state(b) {
        Err(_) => Dec::Rejected,
        Ok(v) => {
            let e = encode_camera_state(&v);
            let law_a = match decode_camera_state(&e) {
                Ok(v2) if encode_camera_state(&v2) == e => Ok(()),
                other => Err(format!("decode(encode(v)) differs: {other:?}")),
            };
            Dec::Accepted { reenc: e, law_a }
        }
    }
}
fn run_highlight(b: &[u8]) -> Dec {
    use echo_scene_codec::{decode_highlight_state, encode_highlight_state};
    match decode_highlight_state(b) {
        Err(_) => Dec::Rejected,
        Ok(v) => {
            let e = encode_highlight_state(&v);
            let law_a = match decode_highlight_state(&e) {
                Ok(v2) if v2 == v => Ok(()),
                other => Err(format!("decode(encode(v)) differs: {other:?}")),
            };
            Dec::Accepted { reenc: e, law_a }
        }
    }
}

fn scene_seeds() -> (Vec<Vec<u8>>, Vec<Vec<u8>>, Vec<Vec<u8>>) {
    use echo_scene_port::*;
    let node = NodeDef { key: NodeKey(h(1)), position: [1.0, -2.5, 0.0], radius: 0.5, shape: NodeShape::Sphere, color: [1, 2, 3, 4] };
    let edge = EdgeDef { key: EdgeKey(h(2)), a: NodeKey(h(1)), b: NodeKey(h(3)), width: 1.25, style: EdgeStyle::Solid, color: [9, 9, 9, 255] };
    let label = LabelDef { key: LabelKey(h(4)), text: "héllo".into(), font_size: 12.0, color: [0, 0, 0, 255], anchor: LabelAnchor::Node { key: NodeKey(h(1)) }, offset: [0.0, 1.0, 0.0] };
    let delta = SceneDelta {
        session_id: h(7),
        cursor_id: h(8),
        epoch: 3,
        ops: vec![
            SceneOp::UpsertNode(node),
            SceneOp::UpsertEdge(edge),
            SceneOp::UpsertLabel(label),
            SceneOp::RemoveNode { key: NodeKey(h(5)) },
            SceneOp::RemoveEdge { key: EdgeKey(h(5)) },
            SceneOp::RemoveLabel { key: LabelKey(h(5)) },
            SceneOp::Clear,
        ],
    };
    let cam = CameraState::default();
    let hl = HighlightState { selected_nodes: vec![NodeKey(h(1))], selected_edges: vec![EdgeKey(h(2))], hovered_node: Some(NodeKey(h(3))), hovered_edge: None };
    (
        vec![echo_scene_codec::encode_scene_delta(&delta), echo_scene_codec::encode_scene_delta(&SceneDelta { session_id: h(1), cursor_id: h(2), epoch: 0, ops: vec![] })],
        vec![echo_scene_codec::encode_camera_state(&cam)],
        vec![echo_scene_codec::encode_highlight_state(&hl), echo_scene_codec::encode_highlight_state(&HighlightState::default())],
    )
}

fn run_mbus_v1(b: &[u8]) -> Dec {
    use warp_core::materialization::{decode_frames, encode_frames};
    match decode_frames(b) {
        None => Dec::Rejected,
        Some(fs) => {
            let e = encode_frames(&fs);
            let law_a = match decode_frames(&e) {
                Some(f2) if f2 == fs => Ok(()),
                other => Err(format!("decode(encode(v)) = {other:?}")),
            };
            Dec::Accepted { reenc: e, law_a }
        }
    }
}
fn run_mbus_v2(b: &[u8]) -> Dec {
    use warp_core::materialization::{decode_v2_packet, encode_v2_packet};
    match decode_v2_packet(b) {
        Err(_) => Dec::Rejected,
        Ok(p) => match encode_v2_packet(&p.header, &p.entries) {
            Err(e) => Dec::Accepted { reenc: vec![], law_a: Err(format!("{e:?}")) },
            Ok(e) => {
                let law_a = match decode_v2_packet(&e) {
                    Ok(p2) if p2 == p => Ok(()),
                    other => Err(format!("decode(encode(v)) = {other:?}")),
                };
                Dec::Accepted { reenc: e, law_a }
            }
        },
    }
}

fn run_wsc(b: &[u8]) -> Dec {
    use warp_core::wsc::{validate_wsc, WscFile};
    let Ok(f) = WscFile::from_bytes(b.to_vec()) else { return Dec::Rejected };
    if validate_wsc(&f).is_err() {
        return Dec::Rejected;
    }
    // touch every accessor (totality of the view)
    for i in 0..f.warp_count() {
        if let Ok(v) = f.warp_view(i) {
            let _ = v.validate_index_ranges();
            for (ix, n) in v.nodes().iter().enumerate() {
                let _ = v.node_ix(&n.node_id);
                let _ = v.out_edges_for_node(ix);
                for a in v.node_attachments(ix) {
                    let _ = v.blob_for_attachment(a);
                }
            }
            for (ix, e) in v.edges().iter().enumerate() {
                let _ = v.edge_ix(&e.edge_id);
                for a in v.edge_attachments(ix) {
                    let _ = v.blob_for_attachment(a);
                }
            }
        }
    }
    Dec::Accepted { reenc: b.to_vec(), law_a: Ok(()) }
}

fn wsc_seeds() -> Vec<Vec<u8>> {
    use vmodel::universe::*;
    let seeds = [[1u8; 32], [2u8; 32], [3u8; 32]];
    let mut out = Vec::new();
    for s in seeds {
        let st = vkit::draw(&state_seed(), &s);
        let a = realise_state(&st);
        let real = build_real(&a, &[]);
        for (w, aw) in &a.warps {
            let store = real.store(&warp_id(*w)).unwrap();
            let input = warp_core::wsc::build_one_warp_input(store, node_id(aw.root_node));
            out.push(warp_core::wsc::write_wsc_one_warp(&input, [7; 32], 1).unwrap());
        }
    }
    out
}

fn run_wal_segment(b: &[u8]) -> Dec {
    // the caller names the segment it expects; real first segments carry id 1
    let a = cw::recover_wal_segment_bytes(cw::WalSegmentId::from_raw(0), b, cw::RecoveryAccessMode::ReadOnly).is_ok();
    let c = cw::recover_wal_segment_bytes(cw::WalSegmentId::from_raw(1), b, cw::RecoveryAccessMode::ReadOnly).is_ok();
    if a || c {
        Dec::Accepted { reenc: b.to_vec(), law_a: Ok(()) }
    } else {
        Dec::Rejected
    }
}

/// Codecs and byte-level readers (C12 and C13).
pub fn codec_targets() -> Vec<Target> {
    let (scene_d, scene_c, scene_h) = scene_seeds();
    let abi_seeds: Vec<Vec<u8>> = {
        let mut v = Vec::new();
        for s in 0..24u8 {
            let c = vkit::draw(&crate::cbor_gen::cval(), &[s.wrapping_mul(17).wrapping_add(3); 32]);
            if let Ok(b) = echo_wasm_abi::encode_value(&c.to_cbor()) {
                if echo_wasm_abi::decode_value(&b).is_ok() {
                    v.push(b);
                }
            }
        }
        v.push(vec![0xa2, 0x01, 0x02, 0x03, 0x04]);
        v.push(vec![0x82, 0xf9, 0x3e, 0x00, 0xfb, 0x3f, 0xf1, 0x99, 0x99, 0x99, 0x99, 0x99, 0x9a]);
        v
    };
    let edict_seeds: Vec<Vec<u8>> = abi_seeds.iter().filter(|b| echo_edict_canonical::decode_canonical_cbor_v1(b).is_ok()).cloned().collect();
    let intent_seeds = vec![
        echo_wasm_abi::pack_intent_v1(7, &[]).unwrap(),
        echo_wasm_abi::pack_intent_v1(0x1234_5678, &[1, 2, 3, 4, 5]).unwrap(),
    ];
    let mut t = vec![
        Target { name: "abi.cbor-value", law_b: true, seeds: abi_seeds, run: run_abi_value, alloc_cap: 0 },
        // documented decode budget: MAX_CANONICAL_DECODE_NODES_V1 nodes are reserved before the slots
        // are allocated, whatever the input size (64 bytes per map entry slot)
        Target { name: "edict.cbor-value", law_b: true, seeds: edict_seeds, run: run_edict, alloc_cap: echo_edict_canonical::MAX_CANONICAL_DECODE_NODES_V1 * 64 },
        Target { name: "abi.intent-envelope", law_b: true, seeds: intent_seeds, run: run_intent, alloc_cap: 0 },
        Target { name: "abi.eintlog", law_b: true, seeds: elog_seeds(), run: run_elog, alloc_cap: echo_wasm_abi::MAX_FRAME_LEN },
        Target { name: "core.ingress-envelope", law_b: true, seeds: ingress_seeds(), run: run_ingress, alloc_cap: 0 },
        Target { name: "scene.delta", law_b: false, seeds: scene_d, run: run_scene_delta, alloc_cap: 0 },
        Target { name: "scene.camera", law_b: false, seeds: scene_c, run: run_camera, alloc_cap: 0 },
        Target { name: "scene.highlight", law_b: false, seeds: scene_h, run: run_highlight, alloc_cap: 0 },
        Target { name: "mbus.frames-v1", law_b: false, seeds: vec![], run: run_mbus_v1, alloc_cap: 0 },
        Target { name: "mbus.packet-v2", law_b: false, seeds: vec![], run: run_mbus_v2, alloc_cap: 0 },
        Target { name: "wsc.file", law_b: false, seeds: wsc_seeds(), run: run_wsc, alloc_cap: 0 },
        Target { name: "wal.segment", law_b: false, seeds: vec![], run: run_wal_segment, alloc_cap: 0 },
    ];
    // mbus seeds
    {
        use warp_core::materialization::*;
        let frames = vec![MaterializationFrame::new(warp_core::TypeId(h(1)), vec![1, 2, 3]), MaterializationFrame::new(warp_core::TypeId(h(2)), vec![])];
        t[8].seeds.push(encode_frames(&frames));
        let header = V2PacketHeader { session_id: h(1), cursor_id: h(2), worldline_id: h(3), warp_id: warp_core::WarpId(h(4)), tick: 9, commit_hash: h(5) };
        let entries = vec![V2Entry { channel: warp_core::TypeId(h(6)), value_hash: h(7), value: vec![5; 9] }];
        t[9].seeds.push(encode_v2_packet(&header, &entries).unwrap());
    }
    // WAL payload records with hand-built seeds
    let opt = Some(h(0x33));
    t.push(Target { name: "wal.submission-acceptance", law_b: true, run: wal_record!(cw::SubmissionAcceptanceRecord), alloc_cap: 0, seeds: vec![
        cw::SubmissionAcceptanceRecord { submission_id: h(1), canonical_envelope_digest: h(2), idempotency_key_digest: None, acceptance_evidence_digest: h(3) }.to_payload_bytes(),
        cw::SubmissionAcceptanceRecord { submission_id: h(1), canonical_envelope_digest: h(2), idempotency_key_digest: opt, acceptance_evidence_digest: h(3) }.to_payload_bytes(),
    ]});
    t.push(Target { name: "wal.submission-envelope", law_b: true, run: wal_record!(cw::WalSubmissionEnvelopeRecord), alloc_cap: 0, seeds: vec![
        cw::WalSubmissionEnvelopeRecord { submission_id: h(1), canonical_envelope_digest: h(2), submission_generation: 77, head_key: head_key(1, 2), retained_envelope_bytes: ingress_seeds()[0].clone() }.to_payload_bytes(),
    ]});
    t.push(Target { name: "wal.tick-receipt", law_b: true, run: wal_record!(cw::TickReceiptRecord), alloc_cap: 0, seeds: vec![
        cw::TickReceiptRecord { receipt_ref: receipt_ref(1), decision: cw::WalTickDecision::Applied }.to_payload_bytes(),
        cw::TickReceiptRecord { receipt_ref: receipt_ref(2), decision: cw::WalTickDecision::Obstructed }.to_payload_bytes(),
    ]});
    t.push(Target { name: "wal.receipt-correlation", law_b: true, run: wal_record!(cw::WalReceiptCorrelationRecord), alloc_cap: 0, seeds: vec![
        cw::WalReceiptCorrelationRecord { receipt_ref: receipt_ref(1), causal_parent_receipts: vec![] }.to_payload_bytes(),
        cw::WalReceiptCorrelationRecord { receipt_ref: receipt_ref(9), causal_parent_receipts: vec![receipt_ref(1), receipt_ref(2)] }.to_payload_bytes(),
    ]});
    t.push(Target { name: "wal.retained-material", law_b: true, run: wal_record!(cw::RetainedMaterialRecord), alloc_cap: 0, seeds: vec![
        cw::RetainedMaterialRecord { material_digest: h(1), semantic_coordinate_digest: h(2), kind: cw::RetainedMaterialKind::TickReceipt, posture: cw::EvidenceMaterialPosture::Present }.to_payload_bytes(),
    ]});
    t.push(Target { name: "wal.reading-ref", law_b: true, run: wal_record!(cw::ReadingRefRecord), alloc_cap: 0, seeds: vec![
        cw::ReadingRefRecord { reading_id: h(1), semantic_coordinate_digest: h(2), payload_digest: h(3), envelope_digest: h(4), posture: cw::EvidenceMaterialPosture::Missing }.to_payload_bytes(),
    ]});
    t.push(Target { name: "wal.checkpoint", law_b: true, run: wal_record!(cw::CheckpointRecord), alloc_cap: 0, seeds: vec![
        cw::CheckpointRecord { checkpoint_id: h(1), last_included_lsn: cw::Lsn::from_raw(42), last_included_commit_digest: h(2), state_root: h(3), index_root: h(4), retained_material_root: h(5), schema_version: 1, created_from_wal_digest: h(6) }.to_payload_bytes(),
    ]});
    t.push(Target { name: "wal.checkpoint-publication", law_b: true, run: wal_record!(cw::CheckpointPublicationRecord), alloc_cap: 0, seeds: vec![
        cw::CheckpointPublicationRecord { checkpoint_id: h(1), checkpoint_digest: h(2) }.to_payload_bytes(),
    ]});
    t.push(Target { name: "wal.materialization-intent", law_b: true, run: wal_record!(cw::MaterializationIntentRecord), alloc_cap: 0, seeds: vec![
        cw::MaterializationIntentRecord { effect_id: h(1), expected_artifact_digest: h(2), materialization_intent_digest: h(3), idempotency_token: h(4), target_metadata_digest: h(5) }.to_payload_bytes(),
    ]});
    t.push(Target { name: "wal.materialization-observation", law_b: true, run: wal_record!(cw::MaterializationObservationRecord), alloc_cap: 0, seeds: vec![
        cw::MaterializationObservationRecord { effect_id: h(1), observed_artifact_digest: h(2), observed_metadata_digest: h(3) }.to_payload_bytes(),
    ]});
    t.push(Target { name: "wal.strand-fork", law_b: true, run: wal_record!(cw::StrandForkRecord), alloc_cap: 0, seeds: vec![
        cw::StrandForkRecord { topology_intent_id: h(1), strand_id: warp_core::strand::StrandId::from_bytes(h(2)), source_worldline_id: wl(3), fork_tick: warp_core::WorldlineTick::from_raw(5), source_commit_hash: h(4), source_boundary_hash: h(5), child_worldline_id: wl(6), writer_heads: vec![head_key(6, 1), head_key(6, 2)], retention_posture_digest: h(7), issuer_evidence_digest: h(8), idempotency_key_digest: opt }.to_payload_bytes(),
    ]});
    t.push(Target { name: "wal.strand-drop", law_b: true, run: wal_record!(cw::StrandDropRecord), alloc_cap: 0, seeds: vec![
        cw::StrandDropRecord { topology_intent_id: h(1), strand_id: warp_core::strand::StrandId::from_bytes(h(2)), child_worldline_id: wl(6), final_tick: warp_core::WorldlineTick::from_raw(8), drop_receipt_digest: h(3), issuer_evidence_digest: h(4), idempotency_key_digest: None }.to_payload_bytes(),
    ]});
    t.push(Target { name: "wal.braid-shell-retention", law_b: true, run: wal_record!(cw::BraidShellRetentionRecord), alloc_cap: 0, seeds: vec![
        cw::BraidShellRetentionRecord { topology_intent_id: h(1), braid_id: h(2), shell_digest: h(3), material_digest: h(4), basis_digest: h(5), outcome_kind: cw::TopologyImportOutcomeKind::Plural, retention_posture_digest: h(6), witness_digest: h(7), idempotency_key_digest: opt }.to_payload_bytes(),
    ]});
    t.push(Target { name: "wal.runtime-state-delta", law_b: true, run: run_wal_state_delta, alloc_cap: 0, seeds: vec![] });
    // payloads a real host wrote (see livewal.rs): each becomes a seed of every WAL payload
    // target whose decoder accepts it
    let live = crate::livewal::live_wal_payloads();
    if let (Some(segs), Some(tg)) = (live.get("__segment__"), t.iter_mut().find(|tg| tg.name == "wal.segment")) {
        tg.seeds.extend(segs.iter().cloned());
    }
    for tg in t.iter_mut().filter(|tg| tg.name.starts_with("wal.") && tg.name != "wal.segment") {
        for payloads in live.values() {
            for p in payloads {
                if matches!((tg.run)(p), Dec::Accepted { .. }) && !tg.seeds.contains(p) {
                    tg.seeds.push(p.clone());
                }
            }
        }
    }
    t
}

fn run_wal_state_delta(b: &[u8]) -> Dec {
    match cw::WalRuntimeStateDeltaRecord::from_payload_bytes(b) {
        Err(_) => Dec::Rejected,
        Ok(v) => match v.to_payload_bytes() {
            Err(e) => Dec::Accepted { reenc: vec![], law_a: Err(format!("accepted record cannot be encoded: {e:?}")) },
            Ok(e) => {
                let law_a = match cw::WalRuntimeStateDeltaRecord::from_payload_bytes(&e) {
                    Ok(v2) if v2.to_payload_bytes().ok().as_ref() == Some(&e) && format!("{v2:?}") == format!("{v:?}") => Ok(()),
                    Ok(_) => Err("decode(encode(v)) differs from v".to_string()),
                    Err(err) => Err(format!("encoder output rejected: {err:?}")),
                };
                Dec::Accepted { reenc: e, law_a }
            }
        },
    }
}

/// Every byte-level entry point (C13, fuzz target): the codecs plus the host boundary.
pub fn targets() -> Vec<Target> {
    let mut t = codec_targets();
    t.extend(crate::hosttargets::host_targets());
    t
}
