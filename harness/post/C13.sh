#!/usr/bin/env bash
exec python3 /verif/tools/fuzz_campaign.py C13 "$@"
