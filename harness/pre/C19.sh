#!/usr/bin/env bash
# C19 needs the same harness binary in three build profiles.
set -u
cd "$(dirname "$0")/.."
export CARGO_NET_OFFLINE=true
for prof in dev relsize; do
  if [ "$prof" = dev ]; then flag=""; else flag="--profile relsize"; fi
  if ! cargo build $flag -p vc_math > ${VERIF_TARGET:-/verif/target}/build-vc_math-$prof.log 2>&1; then
    echo "inconclusive: vc_math ($prof) build failed" >&2; tail -n 20 ${VERIF_TARGET:-/verif/target}/build-vc_math-$prof.log >&2; exit 2
  fi
done
exit 0
