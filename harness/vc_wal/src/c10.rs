//! C10 — what was acknowledged survives any crash; what was not is invisible.
//!
//! A generated submit / stage / tick workload runs on a `TrustedRuntimeHost` with a
//! filesystem WAL and the DSL contract package. After every operation the harness records
//! the acknowledged facts and the WAL directory. Then the segment file is cut at byte
//! lengths L (every L for the byte-level reader in thorough mode; every transaction boundary
//! +-1, record boundaries and sampled interior points for the full host), combined with the
//! side-file versions (writer-epoch ledger, manifest) that can coexist with L, and a fresh
//! host is opened on each copy.
//!
//! The expected recovered history is computed by the harness from the documented record
//! framing alone: the transactions whose commit marker lies entirely below L.

use crate::hostrun::*;
use proptest::prelude::*;
use serde::{Deserialize, Serialize};
use std::collections::BTreeSet;
use vkit::{prop_sub, vensure, vensure_eq, vfail, Check, Ctx, Fail, Probe, Sub, Tier};
use vmodel::dsl::EXEC_COUNT;
use vmodel::host::*;
use warp_core::causal_wal::{recover_wal_segment_bytes, FilesystemWalFaultPlan, FilesystemWalFaultTarget, RecoveryAccessMode, RecoveryTailPosture, WalSegmentId};
use warp_core::IntentOutcome;

#[derive(Clone, Debug, Serialize, Deserialize)]
pub struct Case10 {
    pub seed: HostSeed,
    pub ops: Vec<HostOp>,
    /// sampled interior crash points (picks over the segment length)
    pub probes: Vec<u16>,
    /// store fault: (target 0..4, operation pick)
    pub fault: Option<(u8, u16)>,
}

fn case10() -> impl Strategy<Value = Case10> {
    (host_seed(2), prop::collection::vec(host_op(), 3..16), prop::collection::vec(any::<u16>(), 6), prop::option::weighted(0.6, (0u8..4, any::<u16>())))
        .prop_map(|(seed, ops, probes, fault)| Case10 { seed, ops, probes, fault })
}

fn exec_count() -> u64 {
    EXEC_COUNT.load(std::sync::atomic::Ordering::Relaxed)
}

/// Run the whole script on a fresh root; stops at the first operation the host refuses.
fn run_script(c: &Case10, root: &std::path::Path, upto: usize, probe: &mut Probe) -> Result<HostRun, Fail> {
    let mut run = HostRun::open(&c.seed, root).map_err(|e| Fail::new("C10/harness/open-live-host", e))?;
    run.snapshot(usize::MAX, "open");
    for (i, op) in c.ops.iter().enumerate().take(upto) {
        let tag = run.apply(op);
        if let Some(b) = tag.strip_prefix("BAD:") {
            return Err(Fail::new(format!("C10/live/{}", b.split(':').next().unwrap_or("bad")), format!("operation {i} {op:?}: {tag}")));
        }
        if tag.starts_with("err:") {
            probe.class(format!("live-op-refused:{}", tag.chars().take(70).collect::<String>()));
            run.snapshot(i, &tag);
            break;
        }
        run.snapshot(i, &tag);
    }
    Ok(run)
}

/// Continue a recovered host to the end of the script and return its final facts.
fn continue_script(c: &Case10, host: warp_core::TrustedRuntimeHost, root: &std::path::Path, base: &Snap, all_subs: &[SubRec], from_op: usize, upto: usize) -> Result<(Facts, HostRun), Fail> {
    let mut subs: Vec<SubRec> = all_subs[..base.n_subs].to_vec();
    for s in &mut subs {
        s.staged = false;
    }
    let mut run = HostRun { host, seed: c.seed.clone(), root: root.to_path_buf(), subs, snaps: Vec::new() };
    // staging is in-memory only: what was staged and undecided is staged again
    for ix in &base.staged_pending {
        if *ix < run.subs.len() {
            run.stage(*ix);
        }
    }
    for (i, op) in c.ops.iter().enumerate().take(upto).skip(from_op) {
        let tag = run.apply(op);
        if let Some(b) = tag.strip_prefix("BAD:") {
            return Err(Fail::new(format!("C10/continuation/{}", b.split(':').next().unwrap_or("bad")), format!("after recovery, operation {i} {op:?}: {tag}")));
        }
        if tag.starts_with("err:") {
            break;
        }
    }
    let f = run.facts();
    Ok((f, run))
}

struct Live {
    seg: Vec<u8>,
    ends: Vec<usize>,
    commit_digests: Vec<[u8; 32]>,
    snaps: Vec<Snap>,
    subs: Vec<SubRec>,
    final_facts: Facts,
    ops_done: usize,
}

fn expected_at(live: &Live, k: usize) -> Option<&Snap> {
    // any snapshot with k commits has the same durable facts; the continuation starts at the
    // earliest one and re-issues every later operation (those left no durable trace)
    live.snaps.iter().find(|s| s.n_commits == k)
}

/// Facts with the runtime cycle stamp blanked. A scheduler pass that commits nothing still
/// advances the in-memory global tick; that is volatile, so after a restart later commits
/// carry smaller stamps than they would have. Recovered facts are compared exactly; facts
/// produced AFTER a recovery are compared modulo this stamp.
fn modulo_cycle_stamp(f: &Facts) -> Facts {
    let mut g = f.clone();
    for (_, o) in &mut g.outcomes {
        let mut out = String::with_capacity(o.len());
        let mut rest = o.as_str();
        while let Some(i) = rest.find("GlobalTick(") {
            out.push_str(&rest[..i]);
            out.push_str("GlobalTick(_)");
            let tail = &rest[i..];
            let j = tail.find(')').map(|j| j + 1).unwrap_or(tail.len());
            rest = &tail[j..];
        }
        out.push_str(rest);
        *o = out;
    }
    g
}

/// Open a fresh host on a crashed copy and check everything the property promises.
#[allow(clippy::too_many_arguments)]
fn check_crash_copy(ctx: &Ctx, c: &Case10, live: &Live, l: usize, side: &std::collections::BTreeMap<String, Vec<u8>>, tag: &str, n: usize, probe: &mut Probe) -> Check {
    let root = ctx.fast_scratch(&format!("c10-crash-{n}"));
    write_root(&root, &live.seg[..l], side);
    let k = live.ends.iter().filter(|e| **e <= l).count();
    let what = format!("segment cut at byte {l} of {} ({tag}; {k} whole transactions below the cut)", live.seg.len());
    let e0 = exec_count();
    let mut host = match open_host(&c.seed, &root) {
        Ok(h) => h,
        Err(e) => {
            let _ = std::fs::remove_dir_all(&root);
            vfail!("C10/recovery-failed", "{what}: {e}");
        }
    };
    let r = (|| -> Check {
        vensure_eq!(exec_count(), e0, "C10/recovery-ran-an-application-callback", "{what}");
        let commits: Vec<[u8; 32]> = host.runtime_wal().map(|w| w.commits().iter().map(|c| c.commit_digest).collect()).unwrap_or_default();
        vensure!(commits == live.commit_digests[..k], "C10/recovered-history-is-not-the-committed-prefix", "{what}: recovered {} transactions, expected the first {k}", commits.len());
        let base = expected_at(live, k);
        if let Some(b) = base {
            let got = facts_of(&mut host, c.seed.worldlines.len(), &live.subs[..b.n_subs]);
            if got != b.facts {
                vfail!("C10/acknowledged-fact-not-recovered", "{what}: recovered facts differ from what was acknowledged after {k} transactions\n recovered: {:?}\n acknowledged: {:?}", got, b.facts);
            }
            for s in &live.subs[b.n_subs..] {
                let o = host.app().observe_intent_outcome(&s.id);
                vensure!(matches!(o, IntentOutcome::Unknown { .. }), "C10/unacknowledged-submission-visible", "{what}: a submission accepted after the cut is visible: {o:?}");
            }
        } else {
            probe.class("no-snapshot-at-this-prefix");
        }
        // idempotent
        let r1 = host.runtime_wal().expect("wal").recover_read_only().map_err(|e| Fail::new("C10/read-only-recovery-failed", format!("{what}: {e:?}")))?;
        let r2 = host.runtime_wal().expect("wal").recover_read_only().map_err(|e| Fail::new("C10/read-only-recovery-failed", format!("{what}: {e:?}")))?;
        vensure!(r1 == r2, "C10/recovery-not-idempotent", "{what}: two read-only recoveries differ");
        vensure_eq!(r1.certificate.committed_transactions_replayed as usize, k, "C10/certificate-transaction-count", "{what}");
        vensure_eq!(r1.certificate.recovered_indexes_root, r1.recomputed_indexes_root().map_err(|e| Fail::new("C10/indexes-root", format!("{e:?}")))?, "C10/certificate-indexes-root", "{what}");
        Ok(())
    })();
    if r.is_err() {
        drop(host);
        let _ = std::fs::remove_dir_all(&root);
        return r;
    }
    let root1 = (r1_root(&mut host), ());
    drop(host);
    // reopen the (now truncated) root once more: same result
    let mut host2 = match open_host(&c.seed, &root) {
        Ok(h) => h,
        Err(e) => {
            let _ = std::fs::remove_dir_all(&root);
            vfail!("C10/second-recovery-failed", "{what}: {e}");
        }
    };
    let r = (|| -> Check {
        let commits: Vec<[u8; 32]> = host2.runtime_wal().map(|w| w.commits().iter().map(|c| c.commit_digest).collect()).unwrap_or_default();
        vensure!(commits == live.commit_digests[..k], "C10/recovery-not-idempotent", "{what}: the second recovery sees {} transactions", commits.len());
        vensure!(r1_root(&mut host2) == root1.0, "C10/recovery-not-idempotent", "{what}: recovered indexes root changed between two recoveries");
        Ok(())
    })();
    if r.is_err() {
        drop(host2);
        let _ = std::fs::remove_dir_all(&root);
        return r;
    }
    // continue exactly as the original would have
    let r = (|| -> Check {
        let Some(b) = expected_at(live, k) else { return Ok(()) };
        let from = if b.after_op == usize::MAX { 0 } else { b.after_op + 1 };
        let (facts, mut cont) = continue_script(c, host2, &root, b, &live.subs, from, live.ops_done)?;
        if modulo_cycle_stamp(&facts) != modulo_cycle_stamp(&live.final_facts) {
            vfail!("C10/continuation-differs-from-uninterrupted-run", "{what}: after recovery and the rest of the script\n continued:     {:?}\n uninterrupted: {:?}", facts, live.final_facts);
        }
        // every earlier submission is answered as a duplicate, with no new transaction
        let n_before = cont.n_commits();
        let subs = cont.subs.clone();
        for s in &subs {
            match cont.host.app().submit_intent_with_runtime_wal_ack(s.env.clone()) {
                Ok(h) => vensure!(h.duplicate && h.submission_id == s.id, "C10/retry-after-recovery-not-deduplicated", "{what}: duplicate={} same id={}", h.duplicate, h.submission_id == s.id),
                Err(e) => vfail!("C10/retry-after-recovery-refused", "{what}: {e:?}"),
            }
        }
        vensure_eq!(cont.n_commits(), n_before, "C10/retry-after-recovery-appended-a-transaction", "{what}");
        // a further stop after the recovered host has appended: what it acknowledged must
        // survive too (recover - continue - reopen)
        let after = cont.facts();
        let commits_after: Vec<[u8; 32]> = cont.host.runtime_wal().map(|w| w.commits().iter().map(|c| c.commit_digest).collect()).unwrap_or_default();
        let n_wl = c.seed.worldlines.len();
        drop(cont);
        let mut again = open_host(&c.seed, &root).map_err(|e| Fail::new("C10/reopen-after-continuation-failed", format!("{what}: the host that recovered and continued cannot be reopened: {e}")))?;
        let commits_again: Vec<[u8; 32]> = again.runtime_wal().map(|w| w.commits().iter().map(|c| c.commit_digest).collect()).unwrap_or_default();
        vensure!(commits_again == commits_after, "C10/reopen-after-continuation-lost-transactions", "{what}: {} transactions before the reopen, {} after", commits_after.len(), commits_again.len());
        let got = facts_of(&mut again, n_wl, &subs);
        vensure!(got == after, "C10/reopen-after-continuation-lost-acknowledged-facts", "{what}\n before the reopen: {after:?}\n after: {got:?}");
        Ok(())
    })();
    let _ = std::fs::remove_dir_all(&root);
    r
}

fn r1_root(host: &mut warp_core::TrustedRuntimeHost) -> Option<[u8; 32]> {
    host.runtime_wal().and_then(|w| w.recover_read_only().ok()).map(|r| r.certificate.recovered_indexes_root)
}

fn check10(ctx: &Ctx, c: &Case10, probe: &mut Probe) -> Check {
    let dir = ctx.fast_scratch("c10-live");
    let r = check10_inner(ctx, c, &dir, probe);
    let _ = std::fs::remove_dir_all(&dir);
    r
}

fn check10_inner(ctx: &Ctx, c: &Case10, dir: &std::path::Path, probe: &mut Probe) -> Check {
    let live_root = dir.join("live");
    let mut run = run_script(c, &live_root, c.ops.len(), probe)?;
    let files = segment_files(&live_root);
    if files.len() > 1 {
        probe.class("segment-rotated(skipped)");
        return Ok(());
    }
    let seg = segment_bytes(&live_root);
    let ends = txn_ends(&seg);
    let commit_digests: Vec<[u8; 32]> = run.host.runtime_wal().map(|w| w.commits().iter().map(|c| c.commit_digest).collect()).unwrap_or_default();
    vensure_eq!(ends.len(), commit_digests.len(), "C10/harness/framing-parser-disagrees-with-commit-count", "segment of {} bytes", seg.len());
    let records = parse_records(&seg);
    vensure!(records.last().map(|r| r.end).unwrap_or(0) == seg.len(), "C10/harness/segment-has-unparsed-tail", "");
    let final_facts = run.facts();
    let ops_done = run.snaps.len() - 1;
    let live = Live { seg, ends, commit_digests, snaps: run.snaps.clone(), subs: run.subs.clone(), final_facts, ops_done };
    drop(run);
    probe.class(format!("transactions:{}", live.ends.len().min(9)));
    if live.ends.is_empty() {
        return Ok(());
    }

    // ---- level 1: the byte-level reader at (every) prefix length
    let mut lens: BTreeSet<usize> = BTreeSet::new();
    if ctx.tier == Tier::Thorough || live.seg.len() <= 1500 {
        lens.extend(0..=live.seg.len());
        probe.class("byte-level:every-length");
    } else {
        for r in &records {
            for d in [-2i64, -1, 0, 1, 2, 9, 17, 18] {
                let x = r.start as i64 + d;
                if x >= 0 && x as usize <= live.seg.len() {
                    lens.insert(x as usize);
                }
                let y = r.end as i64 - d;
                if y >= 0 && y as usize <= live.seg.len() {
                    lens.insert(y as usize);
                }
            }
        }
        for p in &c.probes {
            lens.insert(vkit::pick_idx(*p, live.seg.len() + 1));
        }
        let step = (live.seg.len() / 400).max(1);
        lens.extend((0..=live.seg.len()).step_by(step));
    }
    let mut evals = 0u64;
    for l in &lens {
        let k = live.ends.iter().filter(|e| **e <= *l).count();
        let whole = *l == 0 || live.ends.contains(l);
        for mode in [RecoveryAccessMode::ReadOnly, RecoveryAccessMode::Writable] {
            let rec = match vkit::catch(|| recover_wal_segment_bytes(WalSegmentId::from_raw(1), &live.seg[..*l], mode)) {
                Err(m) => vfail!("C10/byte-recovery-panicked", "prefix of {l} bytes: {m}"),
                Ok(Err(e)) => vfail!("C10/byte-recovery-failed-on-a-prefix", "prefix of {l} bytes ({k} whole transactions) in {mode:?} mode: {e:?}"),
                Ok(Ok(r)) => r,
            };
            let got: Vec<[u8; 32]> = rec.report.transactions.iter().map(|t| t.commit.commit_digest).collect();
            vensure!(got == live.commit_digests[..k], "C10/byte-recovery-is-not-the-committed-prefix", "prefix of {l} bytes in {mode:?} mode: {} transactions recovered, {k} whole transactions lie below the cut", got.len());
            let clean = matches!(rec.report.tail_posture, RecoveryTailPosture::Clean);
            vensure!(clean == whole, "C10/byte-recovery-tail-posture", "prefix of {l} bytes in {mode:?} mode: tail posture {:?}, the cut {} a transaction boundary", rec.report.tail_posture, if whole { "is" } else { "is not" });
            evals += 1;
        }
        if !whole && k >= 1 {
            probe.sub_nontrivial(format!("{}:{l}", live.seg.len()).as_bytes());
        }
    }

    // ---- level 2: a fresh host on a copy of the directory cut at L
    let mut points: BTreeSet<usize> = BTreeSet::new();
    for e in &live.ends {
        for d in [-1i64, 0, 1] {
            let x = *e as i64 + d;
            if x >= 0 && x as usize <= live.seg.len() {
                points.insert(x as usize);
            }
        }
    }
    points.insert(0);
    let n_interior = ctx.tier.pick(3, 40);
    for r in records.iter().filter(|r| r.kind == 1).take(n_interior) {
        points.insert(r.end);
        points.insert((r.start + r.end) / 2);
    }
    for p in c.probes.iter().take(ctx.tier.pick(2, 6)) {
        points.insert(vkit::pick_idx(*p, live.seg.len() + 1));
    }
    let mut n = 0usize;
    for l in &points {
        // side-file versions that can coexist with L: the snapshot before and after the
        // operation whose bytes span L
        let after_ix = live.snaps.iter().position(|s| s.seg_len >= *l).unwrap_or(live.snaps.len() - 1);
        let before_ix = after_ix.saturating_sub(1);
        let mut versions = vec![(before_ix, "side files as before that operation")];
        // the writer persists the ledger only after the commit marker has been synced, so the
        // newer side files can coexist only with a segment that holds the whole operation
        if live.snaps[after_ix].seg_len == *l && live.snaps[after_ix].side != live.snaps[before_ix].side {
            versions.push((after_ix, "side files as after that operation"));
        }
        for (ix, tag) in versions {
            check_crash_copy(ctx, c, &live, *l, &live.snaps[ix].side, tag, n, probe)?;
            n += 1;
            evals += 1;
        }
    }
    probe.evals(evals);
    if live.ends.len() >= 2 {
        probe.nontrivial();
    }

    // ---- store faults at a generated operation
    if let Some((target, at)) = &c.fault {
        // an operation that appended a transaction in the uninterrupted run
        let writers: Vec<usize> = (1..live.snaps.len()).filter(|j| live.snaps[*j].n_commits > live.snaps[*j - 1].n_commits).map(|j| live.snaps[j].after_op).collect();
        if !writers.is_empty() {
            let i = writers[vkit::pick_idx(*at, writers.len())];
            check_fault(ctx, c, &live, *target, i, dir, probe)?;
            check_fault_then_continue(ctx, c, (*at & 1) as u8, i, dir, probe)?;
        }
    }
    Ok(())
}

fn check_fault(ctx: &Ctx, c: &Case10, live: &Live, target: u8, i: usize, dir: &std::path::Path, probe: &mut Probe) -> Check {
    let t = [FilesystemWalFaultTarget::AppendFrame, FilesystemWalFaultTarget::FlushCommit, FilesystemWalFaultTarget::CommitMarkerSynced, FilesystemWalFaultTarget::PublishManifest][(target % 4) as usize];
    let root = dir.join("fault");
    let mut run = run_script(c, &root, i, probe)?;
    if run.snaps.len() - 1 < i {
        return Ok(()); // the script stopped earlier
    }
    let before = run.facts();
    let k_before = run.n_commits();
    let dbg_before = (vkit::debug_hash(run.host.runtime()), vkit::debug_hash(run.host.provenance()));
    run.host.inject_runtime_wal_filesystem_fault_for_test(FilesystemWalFaultPlan::fail_next(t)).map_err(|e| Fail::new("C10/harness/inject", format!("{e:?}")))?;
    let subs_before = run.subs.clone();
    let tag = run.apply(&c.ops[i]);
    let what = format!("store fault {t:?} injected before operation {i} {:?} (-> {tag})", c.ops[i]);
    if tag.starts_with("err:") {
        // the failing call rolled back to the pre-call state and published nothing
        run.subs = subs_before;
        let after = run.facts();
        vensure!(after == before, "C10/fault/failed-operation-left-visible-effect", "{what}\n before: {before:?}\n after:  {after:?}");
        let dbg_after = (vkit::debug_hash(run.host.runtime()), vkit::debug_hash(run.host.provenance()));
        vensure!(dbg_after == dbg_before, "C10/fault/failed-operation-left-in-memory-effect", "{what}: runtime or provenance differ from the pre-call state");
        probe.class(format!("fault:{t:?}:operation-failed"));
    } else if let Some(b) = tag.strip_prefix("BAD:") {
        vfail!(format!("C10/fault/{}", b.split(':').next().unwrap_or("bad")), "{what}");
    } else {
        probe.class(format!("fault:{t:?}:not-reached"));
    }
    // crash now: whatever the directory holds must recover to a committed prefix
    let seg = segment_bytes(&root);
    let side = read_side_files(&root);
    drop(run);
    let ends = txn_ends(&seg);
    let k = ends.len();
    vensure!(k == k_before || k == k_before + 1 || !tag.starts_with("err:"), "C10/harness/fault-transaction-count", "{what}: {k_before} -> {k}");
    let copy = ctx.fast_scratch("c10-fault-copy");
    // (the whole directory as the failed host left it, including any uncommitted frames)
    write_root(&copy, &seg, &side);
    let e0 = exec_count();
    let r = (|| -> Check {
        let mut host = open_host(&c.seed, &copy).map_err(|e| Fail::new("C10/fault/recovery-failed", format!("{what}: {e}")))?;
        vensure_eq!(exec_count(), e0, "C10/recovery-ran-an-application-callback", "{what}");
        let commits: Vec<[u8; 32]> = host.runtime_wal().map(|w| w.commits().iter().map(|c| c.commit_digest).collect()).unwrap_or_default();
        vensure_eq!(commits.len(), k, "C10/fault/recovered-history-is-not-the-committed-prefix", "{what}: {k} commit markers are on disk");
        vensure!(commits.len() <= live.commit_digests.len() && commits == live.commit_digests[..commits.len()], "C10/fault/recovered-history-differs-from-uninterrupted-run", "{what}");
        if let Some(b) = expected_at(live, k) {
            let got = facts_of(&mut host, c.seed.worldlines.len(), &live.subs[..b.n_subs]);
            vensure!(got == b.facts, "C10/fault/acknowledged-fact-not-recovered", "{what}\n recovered: {got:?}\n expected: {:?}", b.facts);
            let from = if b.after_op == usize::MAX { 0 } else { b.after_op + 1 };
            let (facts, _cont) = continue_script(c, host, &copy, b, &live.subs, from, live.ops_done)?;
            vensure!(modulo_cycle_stamp(&facts) == modulo_cycle_stamp(&live.final_facts), "C10/fault/continuation-differs-from-uninterrupted-run", "{what}\n continued:     {facts:?}\n uninterrupted: {:?}", live.final_facts);
        }
        Ok(())
    })();
    let _ = std::fs::remove_dir_all(&copy);
    r
}

/// Admit one causal anchor at whatever basis the live host reports (the application-facing way
/// to pin "everything durable up to here"). Ok(false) = the host lawfully refused.
fn admit_anchor_at_current_basis(host: &mut warp_core::TrustedRuntimeHost, label: &str) -> Result<bool, String> {
    use warp_core::{CausalAnchorAdmissionRequest, CausalAnchorAppRootRole, CausalAnchorCasRole, CausalAnchorPurpose, CausalAnchorRoot, CausalAnchorRootSupportGrant, CausalAnchorRootSupportPolicy, CausalAnchorSubject, CAUSAL_ANCHOR_SCHEMA_VERSION};
    let basis = match host.app().current_causal_anchor_basis() {
        Ok(b) => b,
        Err(e) => return Err(format!("no basis: {e:?}")),
    };
    let request = CausalAnchorAdmissionRequest {
        schema_version: CAUSAL_ANCHOR_SCHEMA_VERSION,
        subject: CausalAnchorSubject::new("verif", "Worldline", "worldline:0"),
        basis_frontier: basis,
        retained_roots: vec![CausalAnchorRoot::AppSubjectRoot { app_id: "verif".to_owned(), subject_kind: "Head".to_owned(), id: format!("head:{label}"), role: CausalAnchorAppRootRole::Authority }],
        materialization_roots: vec![CausalAnchorRoot::CasObject { id: *blake3::hash(label.as_bytes()).as_bytes(), role: CausalAnchorCasRole::Materialization }],
        purpose: CausalAnchorPurpose::UserSave,
    };
    let mut grants = Vec::new();
    grants.extend(request.retained_roots.iter().cloned().map(|r| CausalAnchorRootSupportGrant::retained(request.subject.clone(), r)));
    grants.extend(request.materialization_roots.iter().cloned().map(|r| CausalAnchorRootSupportGrant::materialization(request.subject.clone(), r)));
    host.install_causal_anchor_root_support_policy(CausalAnchorRootSupportPolicy::new(grants));
    match host.app().admit_causal_anchor(request) {
        Ok(_) => Ok(true),
        Err(_) => Ok(false),
    }
}

/// A store fault AFTER the commit became durable, survived in the same process: the operation is
/// acknowledged, the host keeps working (here: it admits a causal anchor at the basis it reports
/// and runs the rest of the script), then stops. Everything it acknowledged must be recoverable.
fn check_fault_then_continue(ctx: &Ctx, c: &Case10, target: u8, i: usize, dir: &std::path::Path, probe: &mut Probe) -> Check {
    let t = [FilesystemWalFaultTarget::CommitMarkerSynced, FilesystemWalFaultTarget::PublishManifest][(target % 2) as usize];
    let root = dir.join("fault-continue");
    let mut run = run_script(c, &root, i, probe)?;
    if run.snaps.len() - 1 < i {
        return Ok(());
    }
    run.host.inject_runtime_wal_filesystem_fault_for_test(FilesystemWalFaultPlan::fail_next(t)).map_err(|e| Fail::new("C10/harness/inject", format!("{e:?}")))?;
    let tag = run.apply(&c.ops[i]);
    let what = format!("store fault {t:?} armed before operation {i} {:?} (-> {tag}), host kept running", c.ops[i]);
    if let Some(b) = tag.strip_prefix("BAD:") {
        vfail!(format!("C10/fault/{}", b.split(':').next().unwrap_or("bad")), "{what}");
    }
    let anchored = admit_anchor_at_current_basis(&mut run.host, &format!("after-op-{i}"));
    match &anchored {
        Ok(true) => probe.class(format!("fault-continue:{t:?}:anchor-admitted")),
        Ok(false) => probe.class(format!("fault-continue:{t:?}:anchor-refused")),
        Err(_) => probe.class(format!("fault-continue:{t:?}:no-basis")),
    }
    for (j, op) in c.ops.iter().enumerate().skip(i + 1) {
        let tg = run.apply(op);
        if let Some(b) = tg.strip_prefix("BAD:") {
            vfail!(format!("C10/fault/{}", b.split(':').next().unwrap_or("bad")), "{what}; then operation {j} {op:?}");
        }
        if tg.starts_with("err:") {
            break;
        }
    }
    let acknowledged = run.facts();
    let subs = run.subs.clone();
    let seg = segment_bytes(&root);
    let side = read_side_files(&root);
    drop(run);
    let copy = ctx.fast_scratch("c10-fault-continue-copy");
    write_root(&copy, &seg, &side);
    let r = (|| -> Check {
        let mut host = open_host(&c.seed, &copy).map_err(|e| Fail::new("C10/fault/reopen-after-acknowledged-work-failed", format!("{what}: {e}")))?;
        let got = facts_of(&mut host, c.seed.worldlines.len(), &subs);
        // staged-but-undecided submissions are volatile; everything else acknowledged must be there
        let durable = |f: &Facts| -> (Vec<(u64, [u8; 32])>, Vec<Vec<([u8; 32], [u8; 32], [u8; 32])>>) { (f.lanes.clone(), f.chains.clone()) };
        vensure!(durable(&got) == durable(&acknowledged), "C10/fault/acknowledged-fact-not-recovered", "{what}\n recovered: {:?}\n acknowledged: {:?}", durable(&got), durable(&acknowledged));
        for ((id, before), (_, after)) in acknowledged.outcomes.iter().zip(got.outcomes.iter()) {
            vensure!(before.starts_with("Pending") || before == after, "C10/fault/acknowledged-outcome-not-recovered", "{what}: submission {:?}: {before} -> {after}", &id[..4]);
        }
        drop(host);
        // and once more (the recovered host wrote nothing, the log must stay adoptable)
        open_host(&c.seed, &copy).map_err(|e| Fail::new("C10/fault/reopen-after-acknowledged-work-failed", format!("{what}: second reopen: {e}")))?;
        Ok(())
    })();
    let _ = std::fs::remove_dir_all(&copy);
    r
}

pub fn subs(_ctx: &Ctx) -> Vec<Box<dyn Sub>> {
    vec![prop_sub("crash-at-byte-prefix-and-store-faults", 320, 8_000, case10(), check10)]
}
