//! C17 — external actions move once through request, claim and settlement, durably.
//!
//! Model-based history test. Operations over a pool of request ids (valid and invalid
//! arguments, retries, observations, crash-and-recover, store faults at a generated frame
//! append or at the commit flush, and lost acknowledgements) run against the real coordinator
//! over a `WalStorePort` wrapper; a reference model keeps, per request id, the prefix of
//! requested -> claimed -> settled that has happened.

use proptest::prelude::*;
use serde::{Deserialize, Serialize};
use std::collections::BTreeMap;
use vkit::{prop_sub, vensure, vensure_eq, vfail, Check, Ctx, Fail, Probe, Sub};
use warp_core::causal_wal::{
    recover_in_memory_store, ExternalActionCoordinatorCapability, InMemoryWalStore, Lsn, PayloadCodecId, PayloadSchemaId, RecoveryAccessMode, WalDurabilityMode, WalFrame, WalManifest,
    WalSegmentId, WalSegmentSeal, WalStoreError, WalStorePort, WalTransactionCommit, WalTransactionId, WalTransactionKind, WriterEpoch, WriterEpochId, WriterEpochRequest,
};
use warp_core::external_action::{
    admit_external_action_settlement, claim_external_action, reconcile_external_action_settlement_retry, record_external_action_request, ExternalActionAdapterBindingV1, ExternalActionAdapterIdV1,
    ExternalActionAdapterRegistryV1, ExternalActionBudgetV1, ExternalActionCoordinatorV1, ExternalActionOperationIdV1, ExternalActionProtocolErrorV1 as E, ExternalActionRequestV1,
    ExternalActionSettlementCandidateV1, ExternalActionSettlementKindV1, ExternalActionTransactionContextV1, RecoveredExternalActionPostureV1,
};
use warp_core::{Hash, WorldlineId};

fn digest(label: &str) -> Hash {
    blake3::hash(label.as_bytes()).into()
}

// ---------------------------------------------------------------------------
// store wrapper: faults and a flush journal

#[derive(Clone, Copy, Debug, PartialEq, Eq, Serialize, Deserialize)]
pub enum Fault {
    None,
    /// fail the n-th frame append of the next transaction (0-based)
    FailAppend(u8),
    /// fail the commit flush (nothing is written)
    FailFlush,
    /// the commit flush reaches the store, then the call reports an error (lost acknowledgement)
    LoseAck,
}

struct FaultStore {
    inner: InMemoryWalStore,
    fault: Fault,
    appends_seen: u8,
    fired: bool,
    /// digests of commit markers in the order their flush reached the store
    flushed: Vec<Hash>,
}

impl FaultStore {
    fn new() -> Self {
        let mut inner = InMemoryWalStore::new();
        inner
            .acquire_writer_epoch(WriterEpochRequest {
                epoch_id: epoch_id(),
                storage_fencing_token: digest("c17:fencing"),
                process_identity: digest("c17:process"),
                host_identity: digest("c17:host"),
                started_at_lsn: Lsn::from_raw(0),
                previous_epoch_id: None,
                previous_epoch_final_commit_digest: None,
                lease_or_lock_evidence: digest("c17:lease"),
            })
            .expect("epoch");
        FaultStore { inner, fault: Fault::None, appends_seen: 0, fired: false, flushed: Vec::new() }
    }
    fn arm(&mut self, f: Fault) {
        self.fault = f;
        self.appends_seen = 0;
        self.fired = false;
    }
}

impl WalStorePort for FaultStore {
    fn acquire_writer_epoch(&mut self, request: WriterEpochRequest) -> Result<WriterEpoch, WalStoreError> {
        self.inner.acquire_writer_epoch(request)
    }
    fn append_frame(&mut self, epoch_id: WriterEpochId, frame: WalFrame) -> Result<(), WalStoreError> {
        if let Fault::FailAppend(n) = self.fault {
            if self.appends_seen == n && !self.fired {
                self.fired = true;
                return Err(WalStoreError::Io("verif: injected frame append failure".to_owned()));
            }
        }
        self.appends_seen = self.appends_seen.saturating_add(1);
        self.inner.append_frame(epoch_id, frame)
    }
    fn flush_commit(&mut self, epoch_id: WriterEpochId, commit: WalTransactionCommit) -> Result<(), WalStoreError> {
        self.inner.flush_commit(epoch_id, commit)
    }
    fn flush_external_action_commit(&mut self, epoch_id: WriterEpochId, commit: WalTransactionCommit, capability: ExternalActionCoordinatorCapability) -> Result<(), WalStoreError> {
        match self.fault {
            Fault::FailFlush if !self.fired => {
                self.fired = true;
                Err(WalStoreError::Io("verif: injected commit flush failure".to_owned()))
            }
            Fault::LoseAck if !self.fired => {
                self.fired = true;
                let d = commit.commit_digest;
                self.inner.flush_external_action_commit(epoch_id, commit, capability)?;
                self.flushed.push(d);
                Err(WalStoreError::Io("verif: acknowledgement lost after the flush".to_owned()))
            }
            _ => {
                let d = commit.commit_digest;
                self.inner.flush_external_action_commit(epoch_id, commit, capability)?;
                self.flushed.push(d);
                Ok(())
            }
        }
    }
    fn read_frames(&self) -> Vec<WalFrame> {
        self.inner.read_frames()
    }
    fn read_commits(&self) -> Vec<WalTransactionCommit> {
        self.inner.read_commits()
    }
    fn seal_segment(&mut self, epoch_id: WriterEpochId, segment_id: WalSegmentId) -> Result<WalSegmentSeal, WalStoreError> {
        self.inner.seal_segment(epoch_id, segment_id)
    }
    fn truncate_tail_after(&mut self, after_lsn: Lsn) -> Result<(), WalStoreError> {
        self.inner.truncate_tail_after(after_lsn)
    }
    fn publish_manifest(&mut self, epoch_id: WriterEpochId, manifest: WalManifest) -> Result<(), WalStoreError> {
        self.inner.publish_manifest(epoch_id, manifest)
    }
    fn close_epoch(&mut self, epoch_id: WriterEpochId) -> Result<(), WalStoreError> {
        self.inner.close_epoch(epoch_id)
    }
}

// ---------------------------------------------------------------------------
// fixtures

fn epoch_id() -> WriterEpochId {
    WriterEpochId::from_hash(digest("c17:epoch"))
}
fn context(n: u64) -> ExternalActionTransactionContextV1 {
    ExternalActionTransactionContextV1 {
        writer_epoch: epoch_id(),
        segment_id: WalSegmentId::from_raw(1),
        transaction_id: WalTransactionId::from_hash(digest(&format!("c17:txn:{n}"))),
        durability_mode: WalDurabilityMode::Buffered,
        payload_codec_id: PayloadCodecId::from_hash(digest("c17:codec")),
        payload_schema_id: PayloadSchemaId::from_hash(digest("c17:schema")),
        payload_schema_version: 1,
        canonical_encoding_version: 1,
        digest_domain: digest("c17:domain"),
    }
}
fn operation() -> ExternalActionOperationIdV1 {
    ExternalActionOperationIdV1::from_hash(digest("c17.op@1"))
}
fn adapter(k: u8) -> ExternalActionAdapterIdV1 {
    ExternalActionAdapterIdV1::from_hash(digest(&format!("c17:adapter:{k}")))
}
fn registry() -> ExternalActionAdapterRegistryV1 {
    ExternalActionAdapterRegistryV1::new([ExternalActionAdapterBindingV1 { adapter_id: adapter(0), operation_id: operation(), authority_scope_digest: digest("c17:scope") }])
}
const BUDGET: u64 = 24;
const CEILING: u64 = warp_core::external_action::MAX_EXTERNAL_ACTION_SETTLEMENT_BYTES_V1;
/// Settlement budget of request `i`: most are small; three sit at the documented boundaries
/// (one byte, two bytes, the v1 ceiling itself; only one request carries the megabyte budget so
/// that the cost of a case stays bounded).
fn budget_of(i: u8) -> u64 {
    match i % 6 {
        5 => CEILING,
        4 => 2,
        3 => 1,
        _ => BUDGET,
    }
}
/// Result length drawn as `len`: small values are literal (capped by the budget), the top three
/// values count down from the budget (255 = exactly the budget).
fn result_len(i: u8, len: u8) -> usize {
    let b = budget_of(i);
    if len >= 253 {
        b.saturating_sub((255 - len) as u64) as usize
    } else {
        (len as u64).min(b) as usize
    }
}
fn result_bytes(n: usize, kind: u8) -> Vec<u8> {
    (0..n).map(|b| (b as u8).wrapping_mul(31).wrapping_add(kind)).collect()
}
fn len_strategy() -> impl Strategy<Value = u8> {
    prop_oneof![5 => 0u8..=BUDGET as u8, 1 => 253u8..=255]
}
fn request(i: u8) -> ExternalActionRequestV1 {
    ExternalActionRequestV1::new(
        WorldlineId::from_bytes([1 + i % 2; 32]),
        operation(),
        digest("c17.input"),
        digest("c17.settlement"),
        digest("c17:scope"),
        digest(&format!("c17:basis:{i}")),
        ExternalActionBudgetV1 { max_settlement_bytes: budget_of(i), max_attempts: 1 },
        digest(&format!("c17:input:{i}")),
        digest("c17.reconcile"),
    )
    .expect("valid request")
}

// ---------------------------------------------------------------------------
// operations

#[derive(Clone, Debug, Serialize, Deserialize)]
pub enum ReqV {
    Valid,
    ZeroBudget,
    TwoAttempts,
    OverLimit,
    /// a public field changed after construction: the identity no longer matches
    BadIdentity,
}
#[derive(Clone, Debug, Serialize, Deserialize)]
pub enum ClaimV {
    Valid,
    StaleBasis,
    ZeroLease,
    SecondAttemptOrdinal,
    /// authorization issued for another request
    ForeignAuthorization(u8),
    UnregisteredAdapter,
}
#[derive(Clone, Debug, Serialize, Deserialize)]
pub enum SettleV {
    Valid,
    OverBudget,
    WrongSchema,
    DigestMismatch,
    WrongAttempt,
    WrongAdapter,
    WrongBasis,
    ZeroExternalEvidence,
    ZeroSchemaEvidence,
}
#[derive(Clone, Debug, Serialize, Deserialize)]
pub enum Op {
    Request { i: u8, v: ReqV },
    Claim { i: u8, v: ClaimV },
    Settle { i: u8, v: SettleV, kind: u8, len: u8 },
    /// retry of a settlement: the retained one (same) or a different valid one
    RetrySettle { i: u8, same: bool },
    Observe { i: u8 },
    /// use a request token obtained earlier (before the request was claimed)
    ClaimWithStaleToken { i: u8 },
    /// use a claim grant obtained earlier (before the request was settled)
    SettleWithStaleGrant { i: u8, kind: u8, len: u8 },
    CrashRecover,
    /// arm a store fault for the next transition
    Arm(Fault),
}

fn op() -> impl Strategy<Value = Op> {
    let i = 0u8..6;
    let reqv = prop_oneof![10 => Just(ReqV::Valid), 1 => Just(ReqV::ZeroBudget), 1 => Just(ReqV::TwoAttempts), 1 => Just(ReqV::OverLimit), 1 => Just(ReqV::BadIdentity)];
    let claimv = prop_oneof![10 => Just(ClaimV::Valid), 1 => Just(ClaimV::StaleBasis), 1 => Just(ClaimV::ZeroLease), 1 => Just(ClaimV::SecondAttemptOrdinal), 1 => (0u8..6).prop_map(ClaimV::ForeignAuthorization), 1 => Just(ClaimV::UnregisteredAdapter)];
    let settlev = prop_oneof![
        10 => Just(SettleV::Valid),
        1 => Just(SettleV::OverBudget),
        1 => Just(SettleV::WrongSchema),
        1 => Just(SettleV::DigestMismatch),
        1 => Just(SettleV::WrongAttempt),
        1 => Just(SettleV::WrongAdapter),
        1 => Just(SettleV::WrongBasis),
        1 => Just(SettleV::ZeroExternalEvidence),
        1 => Just(SettleV::ZeroSchemaEvidence),
    ];
    let fault = prop_oneof![2 => (0u8..2).prop_map(Fault::FailAppend), 2 => Just(Fault::FailFlush), 2 => Just(Fault::LoseAck)];
    prop_oneof![
        6 => (i.clone(), reqv).prop_map(|(i, v)| Op::Request { i, v }),
        6 => (i.clone(), claimv).prop_map(|(i, v)| Op::Claim { i, v }),
        6 => (i.clone(), settlev, 0u8..4, len_strategy()).prop_map(|(i, v, kind, len)| Op::Settle { i, v, kind, len }),
        3 => (i.clone(), any::<bool>()).prop_map(|(i, same)| Op::RetrySettle { i, same }),
        2 => i.clone().prop_map(|i| Op::Observe { i }),
        2 => i.clone().prop_map(|i| Op::ClaimWithStaleToken { i }),
        2 => (0u8..6, 0u8..4, len_strategy()).prop_map(|(i, kind, len)| Op::SettleWithStaleGrant { i, kind, len }),
        2 => Just(Op::CrashRecover),
        3 => fault.prop_map(Op::Arm),
    ]
}

#[derive(Clone, Debug, Serialize, Deserialize)]
pub struct Case17 {
    pub ops: Vec<Op>,
}

fn case17() -> impl Strategy<Value = Case17> {
    prop::collection::vec(op(), 4..60).prop_map(|ops| Case17 { ops })
}

// ---------------------------------------------------------------------------
// model

#[derive(Clone, Debug, PartialEq, Eq)]
enum Stage {
    Requested,
    Claimed,
    Settled(u8, Vec<u8>),
}

fn kind_of(k: u8) -> ExternalActionSettlementKindV1 {
    match k % 4 {
        0 => ExternalActionSettlementKindV1::Succeeded,
        1 => ExternalActionSettlementKindV1::Rejected,
        2 => ExternalActionSettlementKindV1::Failed,
        _ => ExternalActionSettlementKindV1::OutcomeUnknown,
    }
}

fn class_of<T>(r: &Result<T, E>) -> String {
    match r {
        Ok(_) => "Ok".into(),
        Err(e) => {
            let s = format!("{e:?}");
            s.split(|c: char| !c.is_alphanumeric()).next().unwrap_or("?").to_string()
        }
    }
}

struct Sys {
    store: FaultStore,
    co: ExternalActionCoordinatorV1,
    model: BTreeMap<u8, Stage>,
    txn: u64,
    armed: Fault,
    claims_granted: BTreeMap<u8, u32>,
    /// spare tokens / grants obtained while they were valid and kept by a (slow) caller
    stale_tokens: BTreeMap<u8, warp_core::external_action::DurablyRecordedExternalActionRequestV1>,
    stale_grants: BTreeMap<u8, warp_core::external_action::ExternalActionClaimGrantV1>,
}

impl Sys {
    fn next_ctx(&mut self) -> ExternalActionTransactionContextV1 {
        self.txn += 1;
        context(self.txn)
    }

    /// Recover a coordinator from the store as a restarted process would (truncating an
    /// uncommitted tail first) and compare it with what the model says is durable.
    fn crash_recover(&mut self, what: &str) -> Check {
        recover_in_memory_store(&mut self.store.inner, RecoveryAccessMode::Writable).map_err(|e| Fail::new("C17/recovery/scan-failed", format!("{what}: {e:?}")))?;
        let rec = ExternalActionCoordinatorV1::recover(&self.store).map_err(|e| Fail::new("C17/recovery/coordinator-recover-failed", format!("{what}: {e:?}")))?;
        self.co = rec;
        self.store.arm(Fault::None);
        self.armed = Fault::None;
        self.check_against_model(what)
    }

    fn check_against_model(&self, what: &str) -> Check {
        let ix = self.co.observed_index();
        vensure_eq!(ix.len(), self.model.len(), "C17/index/size", "{what}");
        for (i, st) in &self.model {
            let id = request(*i).request_id();
            let e = ix.get(id).ok_or_else(|| Fail::new("C17/index/request-missing", format!("{what}: request {i}")))?;
            let want = match st {
                Stage::Requested => RecoveredExternalActionPostureV1::Requested,
                Stage::Claimed => RecoveredExternalActionPostureV1::Claimed,
                Stage::Settled(k, _) => RecoveredExternalActionPostureV1::Settled(kind_of(*k)),
            };
            vensure_eq!(e.posture, want, "C17/index/lifecycle-differs-from-model", "{what}: request {i}");
            vensure!(e.claim.is_some() == !matches!(st, Stage::Requested) && e.settlement.is_some() == matches!(st, Stage::Settled(..)), "C17/index/lifecycle-is-not-a-prefix", "{what}: request {i}: {:?}", e.posture);
            if let (Stage::Settled(_, bytes), Some(s)) = (st, &e.settlement) {
                vensure!(&s.canonical_result_bytes == bytes, "C17/index/settlement-bytes", "{what}: request {i}");
            }
            // the three getters agree with the stage
            vensure!(self.co.recorded_request(id).is_ok() == matches!(st, Stage::Requested), "C17/grants/recorded-request-getter", "{what}: request {i} at {st:?}");
            vensure!(self.co.claim_grant(id).is_ok() == matches!(st, Stage::Claimed), "C17/grants/claim-grant-getter", "{what}: request {i} at {st:?}");
            vensure!(self.co.admitted_settlement(id).is_ok() == matches!(st, Stage::Settled(..)), "C17/grants/settlement-getter", "{what}: request {i} at {st:?}");
        }
        // one durable transaction per lifecycle step, no more
        let commits = self.store.read_commits();
        let count = |k: WalTransactionKind| commits.iter().filter(|c| c.transaction_kind == k).count();
        vensure_eq!(count(WalTransactionKind::ExternalActionRequest), self.model.len(), "C17/log/request-transactions", "{what}");
        vensure_eq!(count(WalTransactionKind::ExternalActionClaim), self.model.values().filter(|s| !matches!(s, Stage::Requested)).count(), "C17/log/claim-transactions", "{what}: a claim was committed more or less than once");
        vensure_eq!(count(WalTransactionKind::ExternalActionSettlement), self.model.values().filter(|s| matches!(s, Stage::Settled(..))).count(), "C17/log/settlement-transactions", "{what}");
        Ok(())
    }

    /// The incrementally maintained coordinator equals the one rebuilt from the log.
    fn check_recovery_equality(&self, what: &str) -> Check {
        let mut copy = self.store.inner.clone();
        recover_in_memory_store(&mut copy, RecoveryAccessMode::Writable).map_err(|e| Fail::new("C17/recovery/scan-failed", format!("{what}: {e:?}")))?;
        let rec = ExternalActionCoordinatorV1::recover(&copy).map_err(|e| Fail::new("C17/recovery/coordinator-recover-failed", format!("{what}: {e:?}")))?;
        vensure_eq!(rec.observed_index().root_digest(), self.co.observed_index().root_digest(), "C17/recovery/index-root-differs-from-live", "{what}");
        vensure!(rec == self.co, "C17/recovery/recovered-coordinator-differs-from-live", "{what}");
        Ok(())
    }
}

fn check17(_ctx: &Ctx, c: &Case17, probe: &mut Probe) -> Check {
    let store = FaultStore::new();
    let co = ExternalActionCoordinatorV1::recover(&store).map_err(|e| Fail::new("C17/harness/genesis", format!("{e:?}")))?;
    let mut s = Sys { store, co, model: BTreeMap::new(), txn: 0, armed: Fault::None, claims_granted: BTreeMap::new(), stale_tokens: BTreeMap::new(), stale_grants: BTreeMap::new() };
    let mut crashes = 0;
    for (step, o) in c.ops.iter().enumerate() {
        let what = format!("step {step} {o:?}");
        let frames0 = s.store.read_frames().len();
        let commits0 = s.store.read_commits().len();
        let flushed0 = s.store.flushed.len();
        // outcome of a transition: (class, did it reach the log)
        let mut transition: Option<(String, bool)> = None;
        match o {
            Op::Arm(f) => {
                s.store.arm(*f);
                s.armed = *f;
                continue;
            }
            Op::CrashRecover => {
                s.crash_recover(&what)?;
                crashes += 1;
                continue;
            }
            Op::Observe { i } => {
                // covered by check_against_model below; also an unknown id
                let id = request(*i).request_id();
                if !s.model.contains_key(i) {
                    vensure!(matches!(s.co.recorded_request(id), Err(E::MissingRequest)), "C17/grants/unknown-request", "{what}");
                }
            }
            Op::Request { i, v } => {
                let req = match v {
                    ReqV::Valid => Ok(request(*i)),
                    ReqV::BadIdentity => {
                        let mut r = request(*i);
                        r.input_digest = digest("c17:tampered-input");
                        Ok(r)
                    }
                    other => {
                        let budget = match other {
                            ReqV::ZeroBudget => ExternalActionBudgetV1 { max_settlement_bytes: 0, max_attempts: 1 },
                            ReqV::TwoAttempts => ExternalActionBudgetV1 { max_settlement_bytes: 8, max_attempts: 2 },
                            _ => ExternalActionBudgetV1 { max_settlement_bytes: if *i % 2 == 0 { CEILING + 1 } else { u64::MAX }, max_attempts: 1 },
                        };
                        ExternalActionRequestV1::new(WorldlineId::from_bytes([1; 32]), operation(), digest("a"), digest("b"), digest("c17:scope"), digest("c"), budget, digest("d"), digest("e"))
                    }
                };
                match req {
                    Err(e) => {
                        let want = match v {
                            ReqV::ZeroBudget => "EmptyBudget",
                            ReqV::TwoAttempts => "UnsupportedAttemptBudget",
                            _ => "RequestBudgetLimitExceeded",
                        };
                        let got = class_of::<()>(&Err(e));
                        vensure_eq!(got, want, "C17/request/constructor-error-class", "{what}");
                    }
                    Ok(req) => {
                        let ctx = s.next_ctx();
                        let r = record_external_action_request(&mut s.store, &mut s.co, ctx, req);
                        let expect = if matches!(v, ReqV::BadIdentity) { "ANY-ERROR" } else if s.model.contains_key(i) { "DuplicateRequest" } else { "Ok" };
                        let cls = class_of(&r);
                        if let Ok(tok) = &r {
                            vensure!(matches!(v, ReqV::Valid), "C17/request/request-with-mismatching-identity-recorded", "{what}");
                            vensure!(s.store.flushed.last() == Some(&tok.request_commit_digest()), "C17/durability/request-token-returned-before-its-commit-was-flushed", "{what}");
                        }
                        transition = Some((cls.clone(), r.is_ok()));
                        if expect == "Ok" {
                            if r.is_ok() {
                                s.model.insert(*i, Stage::Requested);
                            } else if s.armed == Fault::None {
                                vfail!("C17/request/valid-request-refused", "{what}: {cls}");
                            }
                        } else if expect == "ANY-ERROR" {
                            vensure!(r.is_err(), "C17/request/request-with-mismatching-identity-recorded", "{what}");
                        } else {
                            vensure_eq!(cls, expect, "C17/request/error-class", "{what}");
                        }
                    }
                }
            }
            Op::Claim { i, v } => {
                let req = request(*i);
                let id = req.request_id();
                let tok = s.co.recorded_request(id);
                let stage = s.model.get(i).cloned();
                match (&stage, tok) {
                    (None, r) => vensure_eq!(class_of(&r), "MissingRequest", "C17/claim/unknown-request", "{what}"),
                    (Some(Stage::Requested), Ok(tok)) => {
                        if let Ok(spare) = s.co.recorded_request(id) {
                            s.stale_tokens.insert(*i, spare);
                        }
                        let reg = registry();
                        let auth = match v {
                            ClaimV::UnregisteredAdapter => {
                                let r = reg.authorize(&req, adapter(1));
                                vensure_eq!(class_of(&r), "UnauthorizedAdapter", "C17/claim/unregistered-adapter-authorized", "{what}");
                                None
                            }
                            ClaimV::ForeignAuthorization(j) if j % 6 != *i => Some(reg.authorize(&request(j % 6), adapter(0)).map_err(|e| Fail::new("C17/harness/authorize", format!("{e:?}")))?),
                            _ => Some(reg.authorize(&req, adapter(0)).map_err(|e| Fail::new("C17/harness/authorize", format!("{e:?}")))?),
                        };
                        if let Some(auth) = auth {
                            let basis = if matches!(v, ClaimV::StaleBasis) { digest("c17:moved-basis") } else { req.basis_digest };
                            let ordinal = if matches!(v, ClaimV::SecondAttemptOrdinal) { 1 } else { 0 };
                            let lease = if matches!(v, ClaimV::ZeroLease) { [0; 32] } else { digest(&format!("c17:lease:{step}")) };
                            let ctx = s.next_ctx();
                            let r = claim_external_action(&mut s.store, &mut s.co, ctx, tok, auth, basis, ordinal, lease);
                            let expect = match v {
                                ClaimV::Valid | ClaimV::UnregisteredAdapter => "Ok",
                                ClaimV::ForeignAuthorization(j) if j % 6 == *i => "Ok",
                                ClaimV::ForeignAuthorization(_) => "AuthorizationBindingMismatch",
                                ClaimV::StaleBasis => "StaleBasis",
                                ClaimV::ZeroLease => "MissingLeaseEvidence",
                                ClaimV::SecondAttemptOrdinal => "AttemptBudgetExhausted",
                            };
                            let cls = class_of(&r);
                            transition = Some((cls.clone(), r.is_ok()));
                            if let Ok(g) = &r {
                                vensure!(s.store.flushed.last() == Some(&g.claim_commit_digest()), "C17/durability/claim-grant-returned-before-its-commit-was-flushed", "{what}");
                                *s.claims_granted.entry(*i).or_default() += 1;
                                vensure!(s.claims_granted[i] <= 1, "C17/claim/second-claim-grant-issued", "{what}");
                                vensure!(g.request() == req && g.claim().request_id == id && g.claim().adapter_id == adapter(0), "C17/claim/grant-content", "{what}");
                            }
                            if expect == "Ok" {
                                if r.is_ok() {
                                    s.model.insert(*i, Stage::Claimed);
                                } else if s.armed == Fault::None {
                                    vfail!("C17/claim/valid-claim-refused", "{what}: {cls}");
                                }
                            } else {
                                vensure_eq!(cls, expect, "C17/claim/error-class", "{what}");
                            }
                        }
                    }
                    (Some(Stage::Requested), Err(e)) => vfail!("C17/grants/recorded-request-getter", "{what}: {e:?}"),
                    (Some(_), r) => vensure_eq!(class_of(&r), "DuplicateClaim", "C17/claim/second-claim-not-refused", "{what}"),
                }
            }
            Op::Settle { i, v, kind, len } => {
                let req = request(*i);
                let id = req.request_id();
                let grant = s.co.claim_grant(id);
                let stage = s.model.get(i).cloned();
                match (&stage, grant) {
                    (None, r) => vensure_eq!(class_of(&r), "MissingRequest", "C17/settle/unknown-request", "{what}"),
                    (Some(Stage::Requested), r) => vensure_eq!(class_of(&r), "MissingClaim", "C17/settle/unclaimed-request", "{what}"),
                    (Some(Stage::Settled(..)), r) => vensure_eq!(class_of(&r), "DuplicateSettlement", "C17/settle/second-settlement-not-refused", "{what}"),
                    (Some(Stage::Claimed), Err(e)) => vfail!("C17/grants/claim-grant-getter", "{what}: {e:?}"),
                    (Some(Stage::Claimed), Ok(g)) => {
                        if let Ok(spare) = s.co.claim_grant(id) {
                            s.stale_grants.insert(*i, spare);
                        }
                        let claim = g.claim();
                        let n = if matches!(v, SettleV::OverBudget) { budget_of(*i) as usize + 1 + (*len % 3) as usize } else { result_len(*i, *len) };
                        let bytes = result_bytes(n, *kind);
                        if n as u64 == budget_of(*i) {
                            probe.class(if n as u64 == CEILING { "settle-result-exactly-at-v1-ceiling" } else { "settle-result-exactly-fills-budget" });
                        }
                        let mut cand = ExternalActionSettlementCandidateV1::new(id, claim.attempt_id, claim.adapter_id, kind_of(*kind), req.settlement_schema_digest, req.basis_digest, bytes.clone(), digest("c17:schema-admission"), digest("c17:external-evidence"));
                        match v {
                            SettleV::WrongSchema => cand.settlement_schema_digest = digest("c17:other-schema"),
                            SettleV::DigestMismatch => cand.declared_result_digest = digest("c17:not-the-digest"),
                            SettleV::WrongAttempt => cand.attempt_id = warp_core::external_action::ExternalActionAttemptIdV1::from_hash(digest("c17:other-attempt")),
                            SettleV::WrongAdapter => cand.adapter_id = adapter(1),
                            SettleV::WrongBasis => cand.basis_digest = digest("c17:other-basis"),
                            SettleV::ZeroExternalEvidence => cand.external_evidence_digest = [0; 32],
                            SettleV::ZeroSchemaEvidence => cand.schema_admission_evidence_digest = [0; 32],
                            _ => {}
                        }
                        let ctx = s.next_ctx();
                        let r = admit_external_action_settlement(&mut s.store, &mut s.co, ctx, g, cand);
                        let expect = match v {
                            SettleV::Valid => "Ok",
                            SettleV::OverBudget => "SettlementBudgetExceeded",
                            SettleV::WrongSchema => "SettlementSchemaMismatch",
                            SettleV::DigestMismatch => "SettlementResultDigestMismatch",
                            SettleV::WrongAttempt | SettleV::WrongAdapter | SettleV::WrongBasis => "SettlementClaimMismatch",
                            SettleV::ZeroExternalEvidence => "MissingExternalEvidence",
                            SettleV::ZeroSchemaEvidence => "MissingSchemaAdmissionEvidence",
                        };
                        let cls = class_of(&r);
                        transition = Some((cls.clone(), r.is_ok()));
                        if let Ok(a) = &r {
                            vensure!(s.store.flushed.last() == Some(&a.settlement_commit_digest()), "C17/durability/settlement-returned-before-its-commit-was-flushed", "{what}");
                            vensure!(a.settlement().canonical_result_bytes == bytes && a.settlement().attempt_id == claim.attempt_id && a.settlement().canonical_result_bytes.len() as u64 <= budget_of(*i), "C17/settle/admitted-outside-claim-or-bounds", "{what}");
                        }
                        if expect == "Ok" {
                            if r.is_ok() {
                                s.model.insert(*i, Stage::Settled(*kind, bytes));
                            } else if s.armed == Fault::None {
                                vfail!("C17/settle/valid-settlement-refused", "{what}: {cls}");
                            }
                        } else {
                            vensure_eq!(cls, expect, "C17/settle/error-class", "{what}");
                        }
                    }
                }
            }
            Op::ClaimWithStaleToken { i } => {
                if let Some(tok) = s.stale_tokens.remove(i) {
                    let req = request(*i);
                    let auth = registry().authorize(&req, adapter(0)).map_err(|e| Fail::new("C17/harness/authorize", format!("{e:?}")))?;
                    let ctx = s.next_ctx();
                    let stage = s.model.get(i).cloned();
                    let r = claim_external_action(&mut s.store, &mut s.co, ctx, tok, auth, req.basis_digest, 0, digest(&format!("c17:lease:stale:{step}")));
                    let cls = class_of(&r);
                    transition = Some((cls.clone(), r.is_ok()));
                    match stage {
                        Some(Stage::Requested) => {
                            if let Ok(g) = &r {
                                vensure!(s.store.flushed.last() == Some(&g.claim_commit_digest()), "C17/durability/claim-grant-returned-before-its-commit-was-flushed", "{what}");
                                *s.claims_granted.entry(*i).or_default() += 1;
                                vensure!(s.claims_granted[i] <= 1, "C17/claim/second-claim-grant-issued", "{what}");
                                s.model.insert(*i, Stage::Claimed);
                            } else if s.armed == Fault::None {
                                vfail!("C17/claim/valid-claim-refused", "{what}: {cls}");
                            }
                        }
                        Some(_) => {
                            vensure!(r.is_err(), "C17/claim/second-claim-grant-issued", "{what}: a token kept from before the claim was honoured again");
                            vensure_eq!(cls, "DuplicateClaim", "C17/claim/error-class", "{what}");
                        }
                        None => vensure!(r.is_err(), "C17/claim/claim-for-unrecorded-request", "{what}"),
                    }
                    probe.class("stale-token-used");
                }
            }
            Op::SettleWithStaleGrant { i, kind, len } => {
                if let Some(g) = s.stale_grants.remove(i) {
                    let req = request(*i);
                    let claim = g.claim();
                    let bytes = result_bytes(result_len(*i, *len), *kind);
                    let cand = ExternalActionSettlementCandidateV1::new(req.request_id(), claim.attempt_id, claim.adapter_id, kind_of(*kind), req.settlement_schema_digest, req.basis_digest, bytes.clone(), digest("c17:schema-admission"), digest("c17:external-evidence"));
                    let ctx = s.next_ctx();
                    let stage = s.model.get(i).cloned();
                    let r = admit_external_action_settlement(&mut s.store, &mut s.co, ctx, g, cand);
                    let cls = class_of(&r);
                    transition = Some((cls.clone(), r.is_ok()));
                    match stage {
                        Some(Stage::Claimed) => {
                            if let Ok(a) = &r {
                                vensure!(s.store.flushed.last() == Some(&a.settlement_commit_digest()), "C17/durability/settlement-returned-before-its-commit-was-flushed", "{what}");
                                s.model.insert(*i, Stage::Settled(*kind, bytes));
                            } else if s.armed == Fault::None {
                                vfail!("C17/settle/valid-settlement-refused", "{what}: {cls}");
                            }
                        }
                        Some(Stage::Settled(..)) => {
                            vensure!(r.is_err(), "C17/settle/second-settlement-admitted", "{what}: a grant kept from before the settlement was honoured again");
                            vensure_eq!(cls, "DuplicateSettlement", "C17/settle/error-class", "{what}");
                        }
                        _ => vensure!(r.is_err(), "C17/settle/settlement-without-claim", "{what}"),
                    }
                    probe.class("stale-grant-used");
                }
            }
            Op::RetrySettle { i, same } => {
                let req = request(*i);
                let id = req.request_id();
                let stage = s.model.get(i).cloned();
                let claim = s.co.observed_index().get(id).and_then(|e| e.claim);
                let (kind, bytes) = match (&stage, same) {
                    (Some(Stage::Settled(k, b)), true) => (*k, b.clone()),
                    (Some(Stage::Settled(k, b)), false) => (*k + 1, b.iter().map(|x| x ^ 1).chain([9u8]).take(budget_of(*i) as usize).collect()),
                    _ => (0, result_bytes(3.min(budget_of(*i) as usize), 1)),
                };
                let (attempt, adapter_id) = claim.map(|c| (c.attempt_id, c.adapter_id)).unwrap_or((warp_core::external_action::ExternalActionAttemptIdV1::from_hash(digest("c17:none")), adapter(0)));
                let cand = ExternalActionSettlementCandidateV1::new(id, attempt, adapter_id, kind_of(kind), req.settlement_schema_digest, req.basis_digest, bytes, digest("c17:schema-admission"), digest("c17:external-evidence"));
                let r = reconcile_external_action_settlement_retry(&s.co, cand);
                let expect = match (&stage, same) {
                    (None, _) => "MissingRequest",
                    (Some(Stage::Requested), _) => "MissingClaim",
                    (Some(Stage::Claimed), _) => "MissingSettlement",
                    (Some(Stage::Settled(..)), true) => "Ok",
                    (Some(Stage::Settled(..)), false) => "ConflictingSettlement",
                };
                vensure_eq!(class_of(&r), expect, "C17/retry/outcome-class", "{what}");
                if let Ok(a) = r {
                    let orig = s.co.admitted_settlement(id).map_err(|e| Fail::new("C17/grants/settlement-getter", format!("{what}: {e:?}")))?;
                    vensure!(a == orig, "C17/retry/answer-differs-from-retained-settlement", "{what}");
                    probe.class("retry:answered-from-retained-result");
                }
                vensure!(s.store.read_frames().len() == frames0 && s.store.read_commits().len() == commits0, "C17/retry/appended-to-the-log", "{what}");
            }
        }
        // what a transition did to the log
        if let Some((cls, ok)) = &transition {
            let grew = s.store.read_commits().len() > commits0;
            if *ok {
                vensure!(grew && s.store.read_commits().len() == commits0 + 1 && s.store.flushed.len() == flushed0 + 1, "C17/log/successful-step-did-not-commit-exactly-once", "{what}");
            } else if cls == "WalStore" {
                // a store fault: the coordinator refuses everything until it is recovered
                let id = request(0).request_id();
                vensure!(matches!(s.co.recorded_request(id), Err(E::CoordinatorRecoveryRequired)), "C17/fault/coordinator-usable-after-store-failure", "{what}");
                let lost_ack = s.armed == Fault::LoseAck;
                vensure!(grew == lost_ack, "C17/fault/log-growth-after-store-failure", "{what}: commits {} -> {}", commits0, s.store.read_commits().len());
                if lost_ack {
                    // the step IS durable although its grant never arrived: after recovery it has happened
                    match o {
                        Op::Request { i, .. } => {
                            s.model.insert(*i, Stage::Requested);
                        }
                        Op::Claim { i, .. } | Op::ClaimWithStaleToken { i } => {
                            s.model.insert(*i, Stage::Claimed);
                        }
                        Op::Settle { i, kind, len, .. } | Op::SettleWithStaleGrant { i, kind, len } => {
                            let bytes = result_bytes(result_len(*i, *len), *kind);
                            s.model.insert(*i, Stage::Settled(*kind, bytes));
                        }
                        _ => {}
                    }
                    probe.class("fault:acknowledgement-lost");
                } else {
                    probe.class(format!("fault:{:?}", s.armed).chars().take(22).collect::<String>());
                }
                s.crash_recover(&format!("{what} (recovery after the store fault)"))?;
                crashes += 1;
                // the interrupted step can be issued again: exactly once
                continue;
            } else {
                vensure!(!grew && s.store.read_frames().len() == frames0, "C17/log/refused-step-wrote-to-the-log", "{what}: {cls}");
            }
            if s.armed != Fault::None && s.store.fired {
                s.armed = Fault::None;
                s.store.arm(Fault::None);
            }
        }
        s.check_against_model(&what)?;
        s.check_recovery_equality(&what)?;
        probe.evals(1);
    }
    let stages: std::collections::BTreeSet<u8> = s.model.values().map(|st| match st { Stage::Requested => 0, Stage::Claimed => 1, Stage::Settled(..) => 2 }).collect();
    if stages.len() >= 2 && crashes >= 1 {
        probe.nontrivial();
    }
    probe.class(format!("requests:{}", s.model.len()));
    Ok(())
}

pub fn subs(_ctx: &Ctx) -> Vec<Box<dyn Sub>> {
    vec![prop_sub("lifecycle-model-with-crashes-and-store-faults", 6_000, 200_000, case17(), check17)]
}
