//! C11 — the log rejects corruption instead of reinterpreting it.
//!
//! Logs are produced by the C10 workload generator on a real host. Every mutation of the
//! committed segment (single-bit flips, aligned zeroing, record deletion / duplication /
//! adjacent swap, whole-transaction removal / duplication, transplant of a transaction from a
//! second log, side-file tampering) is presented to three readers, each of which must satisfy
//! the oracle on its own: the byte-level reader, the filesystem reader, and a fresh host.
//!
//! Oracle (the statement's last clause): a typed error / obstruction, or a successful history
//! that is a PREFIX of what was committed (same transactions, same frames, in order) - and,
//! for the host, the facts acknowledged at that prefix. Anything else is a violation.

use crate::hostrun::*;
use proptest::prelude::*;
use serde::{Deserialize, Serialize};
use vkit::{prop_sub, vensure, vfail, Check, Ctx, Fail, Probe, Sub, Tier};
use vmodel::host::*;
use warp_core::causal_wal::{doctor_filesystem_store, recover_filesystem_store, recover_wal_segment_bytes, RecoveryAccessMode, WalRecoveredTransaction, WalSegmentId};

#[derive(Clone, Debug, Serialize, Deserialize)]
pub enum Mutation {
    BitFlip { pos: u32, bit: u8 },
    /// zero an aligned range of `len` bytes (1, 4, 8, 32 or 64)
    Zero { pos: u32, len_sel: u8 },
    DeleteRecord(u16),
    DupRecord(u16),
    SwapAdjacent(u16),
    DeleteTxn(u16),
    DupTxn(u16),
    /// replace / insert transaction `from` of the second log at transaction position `at`
    Transplant { from: u16, at: u16, replace: bool },
    /// flip one bit of a side file (writer-epoch ledger / manifest)
    SideFlip { file: u8, pos: u32, bit: u8 },
    /// overwrite one byte
    SetByte { pos: u32, val: u8 },
}

#[derive(Clone, Debug, Serialize, Deserialize)]
pub struct Case11 {
    pub seed: HostSeed,
    pub ops: Vec<HostOp>,
    pub ops2: Vec<HostOp>,
    pub muts: Vec<Mutation>,
}

fn mutation() -> impl Strategy<Value = Mutation> {
    prop_oneof![
        8 => (any::<u32>(), 0u8..8).prop_map(|(pos, bit)| Mutation::BitFlip { pos, bit }),
        3 => (any::<u32>(), 0u8..5).prop_map(|(pos, len_sel)| Mutation::Zero { pos, len_sel }),
        2 => any::<u16>().prop_map(Mutation::DeleteRecord),
        2 => any::<u16>().prop_map(Mutation::DupRecord),
        2 => any::<u16>().prop_map(Mutation::SwapAdjacent),
        2 => any::<u16>().prop_map(Mutation::DeleteTxn),
        2 => any::<u16>().prop_map(Mutation::DupTxn),
        2 => (any::<u16>(), any::<u16>(), any::<bool>()).prop_map(|(from, at, replace)| Mutation::Transplant { from, at, replace }),
        1 => (0u8..2, any::<u32>(), 0u8..8).prop_map(|(file, pos, bit)| Mutation::SideFlip { file, pos, bit }),
        2 => (any::<u32>(), any::<u8>()).prop_map(|(pos, val)| Mutation::SetByte { pos, val }),
    ]
}

fn case11() -> impl Strategy<Value = Case11> {
    (host_seed(1), prop::collection::vec(host_op(), 4..14), prop::collection::vec(host_op(), 3..8), prop::collection::vec(mutation(), 24..48)).prop_map(|(seed, ops, ops2, muts)| Case11 { seed, ops, ops2, muts })
}

struct Log {
    seg: Vec<u8>,
    side: std::collections::BTreeMap<String, Vec<u8>>,
    records: Vec<DiskRecord>,
    /// record index ranges per transaction (start..end exclusive, end includes the marker)
    txns: Vec<(usize, usize)>,
    history: Vec<WalRecoveredTransaction>,
    snaps: Vec<Snap>,
    subs: Vec<SubRec>,
}

fn build_log(ctx: &Ctx, seed: &HostSeed, ops: &[HostOp], tag: &str, probe: &mut Probe) -> Result<Option<Log>, Fail> {
    let root = ctx.fast_scratch(tag);
    let r = (|| -> Result<Option<Log>, Fail> {
        let mut run = HostRun::open(seed, &root).map_err(|e| Fail::new("C11/harness/open", e))?;
        run.snapshot(usize::MAX, "open");
        for (i, op) in ops.iter().enumerate() {
            let t = run.apply(op);
            if t.starts_with("BAD:") {
                return Err(Fail::new("C11/harness/live-bad", t));
            }
            run.snapshot(i, &t);
            if t.starts_with("err:") {
                probe.class("live-op-refused");
                break;
            }
        }
        if segment_files(&root).len() != 1 {
            return Ok(None);
        }
        let seg = segment_bytes(&root);
        let side = read_side_files(&root);
        let snaps = run.snaps.clone();
        let subs = run.subs.clone();
        drop(run);
        let records = parse_records(&seg);
        let mut txns = Vec::new();
        let mut start = 0usize;
        for (i, r) in records.iter().enumerate() {
            if r.kind == 2 {
                txns.push((start, i + 1));
                start = i + 1;
            }
        }
        let rec = recover_wal_segment_bytes(WalSegmentId::from_raw(1), &seg, RecoveryAccessMode::ReadOnly).map_err(|e| Fail::new("C11/untampered-log-rejected", format!("{e:?}")))?;
        if rec.report.transactions.len() != txns.len() {
            return Err(Fail::new("C11/harness/parser-disagrees", format!("{} vs {}", rec.report.transactions.len(), txns.len())));
        }
        Ok(Some(Log { seg, side, records, txns, history: rec.report.transactions, snaps, subs }))
    })();
    let _ = std::fs::remove_dir_all(&root);
    r
}

fn name_of(m: &Mutation) -> &'static str {
    match m {
        Mutation::BitFlip { .. } => "bit-flip",
        Mutation::Zero { .. } => "zero-range",
        Mutation::DeleteRecord(_) => "delete-record",
        Mutation::DupRecord(_) => "duplicate-record",
        Mutation::SwapAdjacent(_) => "swap-adjacent-records",
        Mutation::DeleteTxn(_) => "delete-transaction",
        Mutation::DupTxn(_) => "duplicate-transaction",
        Mutation::Transplant { .. } => "transplant-transaction",
        Mutation::SideFlip { .. } => "side-file-bit-flip",
        Mutation::SetByte { .. } => "set-byte",
    }
}

/// Apply a mutation; returns (segment, side files, first affected byte offset in the original).
fn apply(m: &Mutation, a: &Log, b: Option<&Log>) -> Option<(Vec<u8>, std::collections::BTreeMap<String, Vec<u8>>, usize)> {
    let mut seg = a.seg.clone();
    let mut side = a.side.clone();
    let n = seg.len();
    if n == 0 {
        return None;
    }
    let rec_bytes = |l: &Log, i: usize| l.seg[l.records[i].start..l.records[i].end].to_vec();
    let txn_bytes = |l: &Log, k: usize| l.seg[l.records[l.txns[k].0].start..l.records[l.txns[k].1 - 1].end].to_vec();
    let at = match m {
        Mutation::BitFlip { pos, bit } => {
            let p = (*pos as usize) % n;
            seg[p] ^= 1 << bit;
            p
        }
        Mutation::SetByte { pos, val } => {
            let p = (*pos as usize) % n;
            if seg[p] == *val {
                return None;
            }
            seg[p] = *val;
            p
        }
        Mutation::Zero { pos, len_sel } => {
            let len = [1usize, 4, 8, 32, 64][(*len_sel % 5) as usize];
            let p = ((*pos as usize) % n) / len * len;
            let e = (p + len).min(n);
            if seg[p..e].iter().all(|x| *x == 0) {
                return None;
            }
            for x in &mut seg[p..e] {
                *x = 0;
            }
            p
        }
        Mutation::DeleteRecord(i) => {
            if a.records.is_empty() {
                return None;
            }
            let i = vkit::pick_idx(*i, a.records.len());
            seg.drain(a.records[i].start..a.records[i].end);
            a.records[i].start
        }
        Mutation::DupRecord(i) => {
            if a.records.is_empty() {
                return None;
            }
            let i = vkit::pick_idx(*i, a.records.len());
            let bytes = rec_bytes(a, i);
            let p = a.records[i].end;
            seg.splice(p..p, bytes);
            p
        }
        Mutation::SwapAdjacent(i) => {
            if a.records.len() < 2 {
                return None;
            }
            let i = vkit::pick_idx(*i, a.records.len() - 1);
            let (x, y) = (rec_bytes(a, i), rec_bytes(a, i + 1));
            if x == y {
                return None;
            }
            let mut both = y;
            both.extend(x);
            seg.splice(a.records[i].start..a.records[i + 1].end, both);
            a.records[i].start
        }
        Mutation::DeleteTxn(k) => {
            if a.txns.is_empty() {
                return None;
            }
            let k = vkit::pick_idx(*k, a.txns.len());
            let (s, e) = (a.records[a.txns[k].0].start, a.records[a.txns[k].1 - 1].end);
            seg.drain(s..e);
            s
        }
        Mutation::DupTxn(k) => {
            if a.txns.is_empty() {
                return None;
            }
            let k = vkit::pick_idx(*k, a.txns.len());
            let bytes = txn_bytes(a, k);
            let p = a.records[a.txns[k].1 - 1].end;
            seg.splice(p..p, bytes);
            p
        }
        Mutation::Transplant { from, at, replace } => {
            let b = b?;
            if b.txns.is_empty() || a.txns.is_empty() {
                return None;
            }
            let f = vkit::pick_idx(*from, b.txns.len());
            let k = vkit::pick_idx(*at, a.txns.len());
            let bytes = txn_bytes(b, f);
            // a transplanted transaction that lawfully chains to its new predecessor (the two
            // logs share that prefix: same topology, same first operations) produces a valid
            // log of ANOTHER run; nothing inside a log can tell it apart, so it is no mutant
            // (records are ordered by LSN when read, so where the bytes are inserted does not
            // decide where the transaction lands)
            let prev = b.history[f].commit.previous_committed_transaction_digest;
            let chains = f == 0 || a.history.iter().any(|t| t.commit.commit_digest == prev);
            if chains {
                return None;
            }
            let (s, e) = (a.records[a.txns[k].0].start, a.records[a.txns[k].1 - 1].end);
            if *replace {
                // replacing the only transaction of a log yields another complete, valid log:
                // nothing in it can tell that it is not this host's history
                if bytes == seg[s..e] || a.txns.len() == 1 {
                    return None;
                }
                seg.splice(s..e, bytes);
            } else {
                seg.splice(s..s, bytes);
            }
            s
        }
        Mutation::SideFlip { file, pos, bit } => {
            let names: Vec<String> = side.keys().cloned().collect();
            if names.is_empty() {
                return None;
            }
            let name = &names[(*file as usize) % names.len()];
            let v = side.get_mut(name)?;
            if v.is_empty() {
                return None;
            }
            let p = (*pos as usize) % v.len();
            v[p] ^= 1 << bit;
            usize::MAX
        }
    };
    if seg == a.seg && side == a.side {
        return None;
    }
    Some((seg, side, at))
}

/// `got` must be a prefix of the committed history, transaction by transaction, frame by frame.
fn is_prefix(got: &[WalRecoveredTransaction], log: &Log) -> bool {
    got.len() <= log.history.len() && got.iter().zip(log.history.iter()).all(|(x, y)| x == y)
}

fn judge_history(reader: &str, m: &Mutation, got: &[WalRecoveredTransaction], log: &Log, at: usize, seg: &[u8]) -> Check {
    if is_prefix(got, log) {
        return Ok(());
    }
    // the same transaction returned twice
    if (1..got.len()).any(|i| got[..i].iter().any(|t| t.commit.commit_digest == got[i].commit.commit_digest)) {
        vfail!(format!("C11/{reader}/accepted-history-repeats-a-transaction"), "{m:?} (first affected byte {at} of {}): the reader returned Ok with {} transactions, one of them twice", log.seg.len(), got.len());
    }
    // frames that lie before the last commit marker of the damaged segment but belong to no
    // returned transaction: the reader had the evidence of a damaged transaction in hand
    let recs = parse_records(seg);
    if let Some(last_commit) = recs.iter().rposition(|r| r.kind == 2) {
        let frames_inside = recs[..last_commit].iter().filter(|r| r.kind == 1).count();
        let frames_returned: usize = got.iter().map(|t| t.frames.len()).sum();
        if recs.last().map(|r| r.end) == Some(seg.len()) && frames_inside > frames_returned {
            vfail!(format!("C11/{reader}/accepted-history-with-orphaned-frames-inside"), "{m:?} (first affected byte {at} of {}): the reader returned Ok with {} transactions covering {frames_returned} frames; {frames_inside} intact frames lie before the last commit marker", log.seg.len(), got.len());
        }
    }
    // an LSN hole INSIDE the accepted history: a committed transaction between two returned ones
    // is gone and the reader had the evidence (the positions) in hand
    if let Some(i) = (1..got.len()).find(|i| got[*i].commit.first_lsn.as_u64() != got[*i - 1].commit.last_lsn.as_u64() + 1) {
        vfail!(format!("C11/{reader}/accepted-history-with-an-lsn-hole"), "{m:?} (first affected byte {at} of {}): the reader returned Ok with {} transactions; transaction {i} starts at LSN {} but transaction {} ends at LSN {}", log.seg.len(), got.len(), got[i].commit.first_lsn.as_u64(), i - 1, got[i - 1].commit.last_lsn.as_u64());
    }
    // a contiguous run of the committed history that starts later: the leading transactions
    // are gone and the reader (which is given no anchor) returns the rest
    if !got.is_empty() && got.len() < log.history.len() {
        if let Some(j) = (1..=log.history.len() - got.len()).find(|j| got.iter().zip(log.history[*j..].iter()).all(|(x, y)| x == y)) {
            vfail!(format!("C11/{reader}/accepted-history-missing-leading-transactions"), "{m:?} (first affected byte {at} of {}): the reader returned Ok with transactions {j}..{} of the committed history; the first {j} are gone", log.seg.len(), j + got.len());
        }
    }
    let first_bad = got.iter().zip(log.history.iter()).position(|(x, y)| x != y).unwrap_or(log.history.len().min(got.len()));
    // a transaction that is individually intact but whose previous-commit digest does not name
    // the transaction recovered before it: the chain field is visibly wrong
    if let Some(i) = (1..got.len()).find(|i| got[*i].commit.previous_committed_transaction_digest != got[*i - 1].commit.commit_digest) {
        vfail!(format!("C11/{reader}/accepted-transaction-whose-previous-commit-digest-does-not-chain"), "{m:?} (first affected byte {at} of {}): the reader returned Ok with {} transactions that differ from the committed history from transaction {first_bad} on; the previous-commit digest of transaction {i} does not name transaction {}", log.seg.len(), got.len(), i - 1);
    }
    vfail!(
        format!("C11/{reader}/accepted-history-is-not-a-prefix-of-the-committed-one/{}", name_of(m)),
        "{m:?} (first affected byte {at} of {}): the reader returned Ok with {} transactions; the committed history has {}; first difference at transaction {first_bad}",
        log.seg.len(),
        got.len(),
        log.history.len()
    );
}

#[allow(clippy::too_many_arguments)]
fn check_mutation(ctx: &Ctx, c: &Case11, log: &Log, second: Option<&Log>, m: &Mutation, host_level: bool, n: usize, probe: &mut Probe) -> Check {
    let Some((seg, side, at)) = apply(m, log, second) else {
        probe.class("mutation-is-identity(skipped)");
        return Ok(());
    };
    let nm = name_of(m);
    // which transaction does the damage fall into?
    let hit_txn = log.txns.iter().position(|(s, e)| at >= log.records[*s].start && at < log.records[*e - 1].end);
    if let Some(k) = hit_txn {
        if k + 1 < log.txns.len() {
            probe.sub_nontrivial(format!("{nm}:{k}:{at}").as_bytes());
        }
    }
    // (a) byte-level reader (its verdict is reported only if the stronger readers agree with
    // the committed history: the most authoritative failing reader names the violation)
    let mut deferred: Option<Fail> = None;
    if !matches!(m, Mutation::SideFlip { .. }) {
        for mode in [RecoveryAccessMode::ReadOnly, RecoveryAccessMode::Writable] {
            match vkit::catch(|| recover_wal_segment_bytes(WalSegmentId::from_raw(1), &seg, mode)) {
                Err(p) => vfail!(format!("C11/bytes/panic/{nm}"), "{m:?}: {p}"),
                Ok(Err(_)) => probe.class(format!("bytes:{nm}:typed-error")),
                Ok(Ok(r)) => {
                    if let Err(f) = judge_history("bytes", m, &r.report.transactions, log, at, &seg) {
                        deferred.get_or_insert(f);
                    } else {
                        probe.class(format!("bytes:{nm}:accepted-prefix-of-{}", if r.report.transactions.len() == log.history.len() { "full-length" } else { "shorter-length" }));
                    }
                }
            }
        }
    }
    // (b) filesystem reader and doctor on a directory, (c) a fresh host
    let root = ctx.fast_scratch(&format!("c11-m{n}"));
    write_root(&root, &seg, &side);
    let mut fs_fail: Option<Fail> = None;
    let host_level = host_level || deferred.is_some();
    let r = (|| -> Check {
        match vkit::catch(|| recover_filesystem_store(&root, RecoveryAccessMode::ReadOnly)) {
            Err(p) => vfail!(format!("C11/filesystem/panic/{nm}"), "{m:?}: {p}"),
            Ok(Err(_)) => probe.class(format!("fs:{nm}:typed-error")),
            Ok(Ok(r)) => {
                if let Err(f) = judge_history("filesystem", m, &r.transactions, log, at, &seg) {
                    fs_fail = Some(f);
                } else {
                    probe.class(format!("fs:{nm}:accepted-prefix"));
                }
            }
        }
        match vkit::catch(|| doctor_filesystem_store(&root)) {
            Err(p) => vfail!(format!("C11/doctor/panic/{nm}"), "{m:?}: {p}"),
            Ok(Err(_)) => probe.class("doctor:typed-error"),
            Ok(Ok(rep)) => {
                // the doctor runs the same scan as the filesystem reader: its count is judged
                // only where that reader's verdict was lawful
                vensure!(fs_fail.is_some() || rep.recovery_certificate.committed_transactions_replayed as usize <= log.history.len(), format!("C11/doctor/reports-more-history-than-committed/{nm}"), "{m:?}: {:?}", rep.posture);
                probe.class(format!("doctor:{:?}", rep.posture).chars().take(40).collect::<String>());
            }
        }
        if host_level {
            match vkit::catch(|| open_host(&c.seed, &root)) {
                Err(p) => vfail!(format!("C11/host/panic/{nm}"), "{m:?}: {p}"),
                Ok(Err(_)) => probe.class(format!("host:{nm}:refused")),
                Ok(Ok(mut host)) => {
                    let commits: Vec<[u8; 32]> = host.runtime_wal().map(|w| w.commits().iter().map(|c| c.commit_digest).collect()).unwrap_or_default();
                    let want: Vec<[u8; 32]> = log.history.iter().map(|t| t.commit.commit_digest).collect();
                    vensure!(commits.len() <= want.len() && commits == want[..commits.len()], format!("C11/host/accepted-history-is-not-a-prefix-of-the-committed-one/{nm}"), "{m:?} (first affected byte {at}): host activated with {} transactions", commits.len());
                    let k = commits.len();
                    if let Some(b) = log.snaps.iter().find(|s| s.n_commits == k) {
                        let got = facts_of(&mut host, c.seed.worldlines.len(), &log.subs[..b.n_subs]);
                        vensure!(got == b.facts, format!("C11/host/activated-with-facts-that-were-never-acknowledged/{nm}"), "{m:?}: host activated on a damaged log with {k} transactions, but its facts differ from those acknowledged at that prefix\n got: {got:?}\n acknowledged: {:?}", b.facts);
                    }
                    probe.class(format!("host:{nm}:activated-on-prefix"));
                }
            }
        }
        Ok(())
    })();
    let _ = std::fs::remove_dir_all(&root);
    r?;
    if let Some(f) = fs_fail {
        return Err(f);
    }
    if let Some(f) = deferred {
        return Err(f);
    }
    Ok(())
}

fn check11(ctx: &Ctx, c: &Case11, probe: &mut Probe) -> Check {
    let Some(log) = build_log(ctx, &c.seed, &c.ops, "c11-a", probe)? else {
        probe.class("segment-rotated(skipped)");
        return Ok(());
    };
    if log.txns.is_empty() {
        probe.class("empty-log");
        return Ok(());
    }
    let second = build_log(ctx, &c.seed, &c.ops2, "c11-b", probe)?;
    let mut evals = 0;
    let host_every = ctx.tier.pick(3, 1);
    for (i, m) in c.muts.iter().enumerate() {
        match check_mutation(ctx, c, &log, second.as_ref(), m, i % host_every == 0, i, probe) {
            Ok(()) => {}
            // a listed finding is counted and the search goes on behind it
            Err(f) if ctx.is_known(&f.sig) => probe.known(f.sig),
            Err(f) => return Err(f),
        }
        evals += 1;
    }
    // exhaustive single-bit flips over small logs (byte-level reader)
    let limit = ctx.tier.pick(2000usize, 8192);
    if log.seg.len() <= limit {
        for pos in 0..log.seg.len() {
            for bit in 0..8u8 {
                let mut seg = log.seg.clone();
                seg[pos] ^= 1 << bit;
                match vkit::catch(|| recover_wal_segment_bytes(WalSegmentId::from_raw(1), &seg, RecoveryAccessMode::ReadOnly)) {
                    Err(p) => vfail!("C11/bytes/panic/bit-flip", "bit {bit} of byte {pos}: {p}"),
                    Ok(Err(_)) => {}
                    Ok(Ok(r)) => match judge_history("bytes", &Mutation::BitFlip { pos: pos as u32, bit }, &r.report.transactions, &log, pos, &seg) {
                        Err(f) if ctx.is_known(&f.sig) => probe.known(f.sig),
                        other => other?,
                    },
                }
                evals += 1;
            }
        }
        probe.class("exhaustive-bit-flips");
    }
    probe.evals(evals);
    let _ = Tier::Quick;
    Ok(())
}

// ---------------------------------------------------------------------------
// store-level logs that span several segment files
//
// The runtime host keeps everything in one segment. The filesystem store itself rotates
// segments; a log spread over sealed and active segment files is built here directly through
// `FilesystemWalStore` (transactions chained to each other as a real writer chains them) and
// damaged per file, per record and per transaction; whole segment files are also removed.

#[derive(Clone, Debug, Serialize, Deserialize)]
pub struct CaseSeg {
    /// per transaction: rotate the segment after it?
    pub rotate_after: Vec<bool>,
    /// (file pick, mutation applied inside that file)
    pub muts: Vec<(u16, Mutation)>,
    /// per transaction: end the writer session after it (close the epoch, reopen the store and
    /// take a fresh writer epoch at the recovered tip, as a restarting host does)?
    #[serde(default)]
    pub new_session_after: Vec<bool>,
}

fn case_seg() -> impl Strategy<Value = CaseSeg> {
    (prop::collection::vec((prop::bool::weighted(0.45), prop::bool::weighted(0.4)), 2..8), prop::collection::vec((any::<u16>(), mutation()), 16..40)).prop_map(|(per_txn, muts)| CaseSeg {
        rotate_after: per_txn.iter().map(|x| x.0).collect(),
        new_session_after: per_txn.iter().map(|x| x.1).collect(),
        muts,
    })
}

fn d(label: &str) -> [u8; 32] {
    *blake3::hash(label.as_bytes()).as_bytes()
}

struct SegLog {
    /// (relative file name, bytes) in segment order
    files: Vec<(String, Vec<u8>)>,
    side: std::collections::BTreeMap<String, Vec<u8>>,
    history: Vec<WalRecoveredTransaction>,
    /// writer sessions (epochs) the log was written in
    sessions: usize,
}

fn build_seg_log(ctx: &Ctx, c: &CaseSeg) -> Result<SegLog, Fail> {
    use warp_core::causal_wal::{
        build_submission_acceptance_transaction, AffectedFrontier, AffectedFrontierKind, FilesystemWalStore, Lsn, PayloadCodecId, PayloadSchemaId, SubmissionAcceptanceRecord, WalAppendAuthority,
        WalDurabilityMode, WalStorePort, WalTransactionBuilder, WalTransactionId, WalTransactionKind, WriterEpochId, WriterEpochRequest,
    };
    let root = ctx.fast_scratch("c11-seg-build");
    let r = (|| -> Result<SegLog, Fail> {
        let herr = |what: &str, e: String| Fail::new("C11/harness/store-level-build", format!("{what}: {e}"));
        let mut store = FilesystemWalStore::open(&root, WalSegmentId::from_raw(1)).map_err(|e| herr("open", format!("{e:?}")))?;
        let mut epoch: WriterEpochId = store.acquire_fresh_writer_epoch(Lsn::from_raw(0)).map_err(|e| herr("epoch", format!("{e:?}")))?.epoch_id;
        let (mut prev_frame, mut prev_commit) = (d("c11:genesis-frame"), d("c11:genesis-commit"));
        let mut seg = 1u64;
        let mut lsn = 0u64;
        let mut sessions = 1usize;
        for (i, rot) in c.rotate_after.iter().enumerate() {
            let builder = WalTransactionBuilder::new(
                epoch,
                WalSegmentId::from_raw(seg),
                WalTransactionId::from_hash(d(&format!("c11:tx:{i}"))),
                WalTransactionKind::SubmissionIntake,
                WalAppendAuthority::SubmissionIntake,
                Lsn::from_raw(lsn),
                prev_frame,
                prev_commit,
                WalDurabilityMode::StrictFilesystem,
                PayloadCodecId::from_hash(d("c11:codec")),
                PayloadSchemaId::from_hash(d("c11:schema")),
                1,
                1,
                d("c11:domain"),
            );
            let rec = SubmissionAcceptanceRecord { submission_id: d(&format!("c11:sub:{i}")), canonical_envelope_digest: d(&format!("c11:env:{i}")), idempotency_key_digest: None, acceptance_evidence_digest: d(&format!("c11:acc:{i}")) };
            let t = build_submission_acceptance_transaction(builder, rec, vec![AffectedFrontier { kind: AffectedFrontierKind::SubmissionQueue, before_digest: d(&format!("c11:f:{i}")), after_digest: d(&format!("c11:f:{}", i + 1)) }]).map_err(|e| herr("build", format!("{e:?}")))?;
            lsn = t.commit.last_lsn.as_u64() + 1;
            prev_frame = t.frames.last().map(|f| f.digest()).unwrap_or(prev_frame);
            prev_commit = t.commit.commit_digest;
            store.append_transaction(t).map_err(|e| herr("append", format!("{e:?}")))?;
            if *rot {
                store.rotate_segment(epoch).map_err(|e| herr("rotate", format!("{e:?}")))?;
                seg += 1;
            }
            if c.new_session_after.get(i).copied().unwrap_or(false) && i + 1 < c.rotate_after.len() {
                store.close_epoch(epoch).map_err(|e| herr("close epoch", format!("{e:?}")))?;
                drop(store);
                store = FilesystemWalStore::open(&root, WalSegmentId::from_raw(seg)).map_err(|e| herr("reopen", format!("{e:?}")))?;
                epoch = store.acquire_fresh_writer_epoch(Lsn::from_raw(lsn)).map_err(|e| herr("next epoch", format!("{e:?}")))?.epoch_id;
                sessions += 1;
            }
        }
        drop(store);
        let rec = recover_filesystem_store(&root, RecoveryAccessMode::ReadOnly).map_err(|e| Fail::new("C11/untampered-log-rejected", format!("multi-segment: {e:?}")))?;
        if rec.transactions.len() != c.rotate_after.len() {
            return Err(Fail::new("C11/untampered-log-rejected", format!("multi-segment: {} of {} transactions recovered", rec.transactions.len(), c.rotate_after.len())));
        }
        let mut files = Vec::new();
        for name in segment_files(&root) {
            files.push((format!("segments/{name}"), std::fs::read(root.join("segments").join(&name)).unwrap_or_default()));
        }
        Ok(SegLog { files, side: read_side_files(&root), history: rec.transactions, sessions })
    })();
    let _ = std::fs::remove_dir_all(&root);
    r
}

fn file_log(bytes: &[u8]) -> Log {
    let records = parse_records(bytes);
    let mut txns = Vec::new();
    let mut start = 0usize;
    for (i, r) in records.iter().enumerate() {
        if r.kind == 2 {
            txns.push((start, i + 1));
            start = i + 1;
        }
    }
    Log { seg: bytes.to_vec(), side: Default::default(), records, txns, history: Vec::new(), snaps: Vec::new(), subs: Vec::new() }
}

fn check_seg(ctx: &Ctx, c: &CaseSeg, probe: &mut Probe) -> Check {
    let log = build_seg_log(ctx, c)?;
    probe.class(format!("segment-files:{}", log.files.len().min(6)));
    probe.class(format!("writer-sessions:{}", log.sessions.min(5)));
    let whole = Log { seg: log.files.iter().flat_map(|(_, b)| b.iter().copied()).collect(), side: log.side.clone(), records: Vec::new(), txns: Vec::new(), history: log.history.clone(), snaps: Vec::new(), subs: Vec::new() };
    let mut variants: Vec<(String, Vec<(String, Vec<u8>)>, Mutation)> = Vec::new();
    for (fp, m) in &c.muts {
        if matches!(m, Mutation::Transplant { .. } | Mutation::SideFlip { .. }) {
            continue;
        }
        let fi = vkit::pick_idx(*fp, log.files.len());
        let fl = file_log(&log.files[fi].1);
        if let Some((bytes, _, _)) = apply(m, &fl, None) {
            let mut files = log.files.clone();
            files[fi].1 = bytes;
            variants.push((format!("{} in {}", name_of(m), log.files[fi].0), files, m.clone()));
        }
    }
    // whole segment files removed
    for k in 0..log.files.len() {
        let mut files = log.files.clone();
        let gone = files.remove(k);
        variants.push((format!("segment file {} removed", gone.0), files, Mutation::DeleteTxn(k as u16)));
    }
    let mut evals = 0u64;
    for (n, (what, files, m)) in variants.iter().enumerate() {
        let root = ctx.fast_scratch(&format!("c11-seg-m{}", n % 4));
        let _ = std::fs::create_dir_all(root.join("segments"));
        for (name, bytes) in files {
            std::fs::write(root.join(name), bytes).map_err(|e| Fail::new("C11/harness/write", format!("{e}")))?;
        }
        for (name, bytes) in &log.side {
            std::fs::write(root.join(name), bytes).map_err(|e| Fail::new("C11/harness/write", format!("{e}")))?;
        }
        let seg: Vec<u8> = files.iter().flat_map(|(_, b)| b.iter().copied()).collect();
        let r = (|| -> Check {
            let mut fs_bad = false;
            match vkit::catch(|| recover_filesystem_store(&root, RecoveryAccessMode::ReadOnly)) {
                Err(p) => vfail!(format!("C11/filesystem/panic/{}", name_of(m)), "multi-segment, {what}: {p}"),
                Ok(Err(_)) => probe.class("multi-segment:typed-error"),
                Ok(Ok(r)) => match judge_history("filesystem", m, &r.transactions, &whole, 0, &seg) {
                    Ok(()) => probe.class("multi-segment:accepted-prefix"),
                    Err(mut f) => {
                        f.msg = format!("multi-segment log ({} files), {what}: {}", log.files.len(), f.msg);
                        if ctx.is_known(&f.sig) {
                            probe.known(f.sig);
                            fs_bad = true;
                        } else {
                            return Err(f);
                        }
                    }
                },
            }
            match vkit::catch(|| doctor_filesystem_store(&root)) {
                Err(p) => vfail!(format!("C11/doctor/panic/{}", name_of(m)), "multi-segment, {what}: {p}"),
                Ok(Err(_)) => {}
                Ok(Ok(rep)) => vensure!(fs_bad || rep.recovery_certificate.committed_transactions_replayed as usize <= log.history.len(), format!("C11/doctor/reports-more-history-than-committed/{}", name_of(m)), "multi-segment, {what}"),
            }
            Ok(())
        })();
        let _ = std::fs::remove_dir_all(&root);
        r?;
        evals += 1;
        if log.files.len() >= 2 {
            probe.sub_nontrivial(format!("{n}:{what}").as_bytes());
        }
    }
    probe.evals(evals);
    Ok(())
}

pub fn subs(_ctx: &Ctx) -> Vec<Box<dyn Sub>> {
    vec![prop_sub("systematic-log-mutation", 1_600, 40_000, case11(), check11), prop_sub("multi-segment-store-level-mutation", 1_200, 30_000, case_seg(), check_seg)]
}
