//! C20 — retained content is returned intact or not at all (content-addressed tiers and the
//! semantic retention index).

use echo_cas::{
    blob_hash, BlobHash, BlobStore, CasError, DiskTier, DiskTierError, MemoryTier, RetainedBlobIndex, RetainedBlobRole,
    RetentionError, SemanticBlobCoordinate,
};
use proptest::prelude::*;
use serde::{Deserialize, Serialize};
use std::collections::{BTreeMap, BTreeSet};
use std::sync::Arc;
use vkit::{prop_sub, vensure, vensure_eq, vfail, Check, Ctx, Fail, Probe, Sub};

fn blob(ix: u8) -> Vec<u8> {
    // pool of blobs with unequal lengths, incl. empty and two that share a prefix
    match ix % 10 {
        0 => vec![],
        1 => vec![0],
        2 => vec![1, 2, 3],
        3 => vec![1, 2, 3, 4],
        4 => vec![0xff; 33],
        5 => (0..64u8).collect(),
        6 => b"hello echo-cas".to_vec(),
        7 => vec![7; 7],
        8 => vec![0; 64],
        _ => (0..200u32).map(|i| (i * 31 % 251) as u8).collect(),
    }
}

#[derive(Clone, Debug, Serialize, Deserialize)]
pub enum Op {
    Put(u8),
    /// verified put of blob a's bytes under blob b's hash (a == b: right hash)
    PutVerified(u8, u8),
    /// verified put under a hash that belongs to no pool blob
    PutVerifiedBogus(u8),
    Get(u8),
    Has(u8),
    Pin(u8),
    Unpin(u8),
    Reopen,
    List,
}

fn op() -> impl Strategy<Value = Op> {
    prop_oneof![
        4 => any::<u8>().prop_map(Op::Put),
        3 => (any::<u8>(), any::<u8>()).prop_map(|(a, b)| Op::PutVerified(a, b)),
        1 => any::<u8>().prop_map(|a| Op::PutVerified(a, a)),
        1 => any::<u8>().prop_map(Op::PutVerifiedBogus),
        4 => any::<u8>().prop_map(Op::Get),
        2 => any::<u8>().prop_map(Op::Has),
        2 => any::<u8>().prop_map(Op::Pin),
        2 => any::<u8>().prop_map(Op::Unpin),
        1 => Just(Op::Reopen),
        1 => Just(Op::List),
    ]
}

#[derive(Default)]
struct Model {
    blobs: BTreeMap<BlobHash, Vec<u8>>,
    pins: BTreeSet<BlobHash>,
}

trait Tier {
    fn put(&mut self, b: &[u8]) -> Result<BlobHash, String>;
    fn put_verified(&mut self, h: BlobHash, b: &[u8]) -> Result<Result<(), CasError>, String>;
    fn get(&self, h: &BlobHash) -> Result<Option<Arc<[u8]>>, String>;
    fn has(&self, h: &BlobHash) -> Result<bool, String>;
    fn pin(&mut self, h: &BlobHash);
    fn unpin(&mut self, h: &BlobHash);
    fn is_pinned(&self, h: &BlobHash) -> bool;
    fn reopen(&mut self) -> Result<bool, String>;
    fn list(&self) -> Result<Option<Vec<BlobHash>>, String>;
    fn name(&self) -> &'static str;
}

struct Mem(MemoryTier);
impl Tier for Mem {
    fn put(&mut self, b: &[u8]) -> Result<BlobHash, String> {
        Ok(self.0.put(b))
    }
    fn put_verified(&mut self, h: BlobHash, b: &[u8]) -> Result<Result<(), CasError>, String> {
        Ok(self.0.put_verified(h, b))
    }
    fn get(&self, h: &BlobHash) -> Result<Option<Arc<[u8]>>, String> {
        Ok(self.0.get(h))
    }
    fn has(&self, h: &BlobHash) -> Result<bool, String> {
        Ok(self.0.has(h))
    }
    fn pin(&mut self, h: &BlobHash) {
        self.0.pin(h)
    }
    fn unpin(&mut self, h: &BlobHash) {
        self.0.unpin(h)
    }
    fn is_pinned(&self, h: &BlobHash) -> bool {
        self.0.is_pinned(h)
    }
    fn reopen(&mut self) -> Result<bool, String> {
        Ok(false)
    }
    fn list(&self) -> Result<Option<Vec<BlobHash>>, String> {
        Ok(None)
    }
    fn name(&self) -> &'static str {
        "memory"
    }
}

struct Disk(DiskTier, std::path::PathBuf);
fn cas_of(e: DiskTierError) -> Result<CasError, String> {
    match e {
        DiskTierError::Cas(c) => Ok(c),
        other => Err(format!("{other}")),
    }
}
impl Tier for Disk {
    fn put(&mut self, b: &[u8]) -> Result<BlobHash, String> {
        self.0.put(b).map_err(|e| e.to_string())
    }
    fn put_verified(&mut self, h: BlobHash, b: &[u8]) -> Result<Result<(), CasError>, String> {
        match self.0.put_verified(h, b) {
            Ok(()) => Ok(Ok(())),
            Err(e) => cas_of(e).map(Err),
        }
    }
    fn get(&self, h: &BlobHash) -> Result<Option<Arc<[u8]>>, String> {
        self.0.get(h).map_err(|e| e.to_string())
    }
    fn has(&self, h: &BlobHash) -> Result<bool, String> {
        self.0.has(h).map_err(|e| e.to_string())
    }
    fn pin(&mut self, h: &BlobHash) {
        self.0.pin(h)
    }
    fn unpin(&mut self, h: &BlobHash) {
        self.0.unpin(h)
    }
    fn is_pinned(&self, h: &BlobHash) -> bool {
        self.0.is_pinned(h)
    }
    fn reopen(&mut self) -> Result<bool, String> {
        self.0 = DiskTier::open(&self.1).map_err(|e| e.to_string())?;
        Ok(true)
    }
    fn list(&self) -> Result<Option<Vec<BlobHash>>, String> {
        self.0.list().map(Some).map_err(|e| e.to_string())
    }
    fn name(&self) -> &'static str {
        "disk"
    }
}

fn run_model(tier: &mut dyn Tier, ops: &[Op], probe: &mut Probe) -> Check {
    let t = tier.name();
    let mut m = Model::default();
    let io = |e: String| Fail::new(format!("C20/{t}/unexpected-io-error"), e);
    let mut reopened_after_put = false;
    for (step, o) in ops.iter().enumerate() {
        match o {
            Op::Put(a) => {
                let b = blob(*a);
                let h = tier.put(&b).map_err(io)?;
                vensure_eq!(h, blob_hash(&b), format!("C20/{t}/put-returns-wrong-hash"), "step {step}");
                m.blobs.insert(h, b);
            }
            Op::PutVerified(a, bh) => {
                let bytes = blob(*a);
                let claimed = blob_hash(&blob(*bh));
                let right = blob_hash(&bytes) == claimed;
                match tier.put_verified(claimed, &bytes).map_err(io)? {
                    Ok(()) => {
                        if !right {
                            vfail!(
                                format!("C20/{t}/mismatching-bytes-accepted-on-verified-put"),
                                "step {step}: put_verified(hash of blob {}, bytes of blob {}) returned Ok (hash already stored: {})", bh % 10, a % 10, m.blobs.contains_key(&claimed)
                            );
                        }
                        m.blobs.insert(claimed, bytes);
                    }
                    Err(CasError::HashMismatch { expected, computed }) => {
                        vensure!(!right, format!("C20/{t}/matching-bytes-refused"), "step {step}");
                        vensure!(expected == claimed && computed == blob_hash(&bytes), format!("C20/{t}/mismatch-error-names-wrong-hashes"), "step {step}");
                        probe.class("verified-put-refused");
                    }
                }
            }
            Op::PutVerifiedBogus(a) => {
                let bytes = blob(*a);
                let bogus = BlobHash::from_bytes([*a; 32]);
                match tier.put_verified(bogus, &bytes).map_err(io)? {
                    Ok(()) => vfail!(format!("C20/{t}/mismatching-bytes-accepted-on-verified-put"), "step {step}: bogus hash accepted"),
                    Err(_) => probe.class("verified-put-refused"),
                }
            }
            Op::Get(a) => {
                let h = blob_hash(&blob(*a));
                let got = tier.get(&h).map_err(io)?;
                match (got, m.blobs.get(&h)) {
                    (None, None) => {}
                    (Some(g), Some(w)) => {
                        vensure!(&*g == w.as_slice(), format!("C20/{t}/get-returns-other-bytes"), "step {step}");
                        vensure_eq!(blob_hash(&g), h, format!("C20/{t}/get-returns-bytes-with-other-hash"), "step {step}");
                    }
                    (g, w) => vfail!(format!("C20/{t}/presence-disagrees-with-model"), "step {step}: store has={} model has={}", g.is_some(), w.is_some()),
                }
            }
            Op::Has(a) => {
                let h = blob_hash(&blob(*a));
                vensure_eq!(tier.has(&h).map_err(io)?, m.blobs.contains_key(&h), format!("C20/{t}/has-disagrees-with-model"), "step {step}");
            }
            Op::Pin(a) => {
                let h = blob_hash(&blob(*a));
                tier.pin(&h);
                m.pins.insert(h);
            }
            Op::Unpin(a) => {
                let h = blob_hash(&blob(*a));
                tier.unpin(&h);
                m.pins.remove(&h);
            }
            Op::Reopen => {
                if tier.reopen().map_err(io)? {
                    // pins are in-memory retention roots of the handle (documented set semantics);
                    // content must survive
                    m.pins.clear();
                    if !m.blobs.is_empty() {
                        reopened_after_put = true;
                    }
                }
            }
            Op::List => {
                if let Some(l) = tier.list().map_err(io)? {
                    let want: Vec<BlobHash> = m.blobs.keys().copied().collect();
                    vensure_eq!(l, want, format!("C20/{t}/list-disagrees-with-model"), "step {step}");
                }
            }
        }
        // pinning never changes content; pins agree
        for a in 0..10u8 {
            let h = blob_hash(&blob(a));
            vensure_eq!(tier.is_pinned(&h), m.pins.contains(&h), format!("C20/{t}/pin-state-disagrees"), "step {step} blob {a}");
        }
    }
    // full scan
    for a in 0..10u8 {
        let h = blob_hash(&blob(a));
        let got = tier.get(&h).map_err(io)?;
        match (got, m.blobs.get(&h)) {
            (None, None) => {}
            (Some(g), Some(w)) if &*g == w.as_slice() => {}
            (g, w) => vfail!(format!("C20/{t}/final-scan-disagrees"), "blob {a}: store {:?} model {:?}", g.map(|x| x.len()), w.map(|x| x.len())),
        }
    }
    if reopened_after_put || ops.iter().filter(|o| matches!(o, Op::PutVerified(a, b) if a % 10 != b % 10)).count() > 0 {
        probe.nontrivial();
    }
    probe.class(t);
    Ok(())
}

#[derive(Clone, Debug, Serialize, Deserialize)]
pub struct OpsCase {
    ops: Vec<Op>,
}
fn ops_case() -> impl Strategy<Value = OpsCase> {
    prop::collection::vec(op(), 1..40).prop_map(|ops| OpsCase { ops })
}

fn check_mem(_ctx: &Ctx, c: &OpsCase, probe: &mut Probe) -> Check {
    run_model(&mut Mem(MemoryTier::new()), &c.ops, probe)
}

fn check_disk(ctx: &Ctx, c: &OpsCase, probe: &mut Probe) -> Check {
    let dir = ctx.scratch("c20-disk");
    let r = (|| {
        let tier = DiskTier::open(&dir).map_err(|e| Fail::new("C20/disk/open", e.to_string()))?;
        run_model(&mut Disk(tier, dir.clone()), &c.ops, probe)
    })();
    let _ = std::fs::remove_dir_all(&dir);
    r
}

// --- fault enumeration on the backing files -------------------------------------

#[derive(Clone, Debug, Serialize, Deserialize)]
pub struct FaultCase {
    stored: Vec<u8>,
    flips: Vec<(u16, u8)>,
}
fn fault_case() -> impl Strategy<Value = FaultCase> {
    (prop::collection::vec(0u8..10, 1..6), prop::collection::vec((any::<u16>(), 1u8..=255), 1..6)).prop_map(|(stored, flips)| FaultCase { stored, flips })
}

fn file_of(root: &std::path::Path, h: &BlobHash) -> std::path::PathBuf {
    let hex = h.to_string();
    root.join("blobs").join(&hex[..2]).join(hex)
}

fn check_faults(ctx: &Ctx, c: &FaultCase, probe: &mut Probe) -> Check {
    let dir = ctx.scratch("c20-fault");
    let r = (|| -> Check {
        let tier = DiskTier::open(&dir).map_err(|e| Fail::new("C20/disk/open", e.to_string()))?;
        let mut hs: Vec<(BlobHash, Vec<u8>)> = Vec::new();
        for a in &c.stored {
            let b = blob(*a);
            let h = tier.put(&b).map_err(|e| Fail::new("C20/disk/put", e.to_string()))?;
            if !hs.iter().any(|(x, _)| *x == h) {
                hs.push((h, b));
            }
        }
        let mut evals = 0u64;
        let judge = |tier: &DiskTier, h: &BlobHash, orig: &[u8], what: &str, corrupted: bool| -> Check {
            match tier.get(h) {
                Ok(None) => Ok(()),
                Ok(Some(g)) => {
                    if &*g != orig {
                        vfail!("C20/disk/corruption-returned-as-content", "{what}: get returned {} bytes that are not the stored content", g.len());
                    }
                    if corrupted {
                        // identical bytes can only come back if the fault did not change the file
                        Ok(())
                    } else {
                        Ok(())
                    }
                }
                Err(DiskTierError::Cas(CasError::HashMismatch { expected, .. })) => {
                    vensure!(expected == *h, "C20/disk/mismatch-names-wrong-hash", "{what}");
                    Ok(())
                }
                Err(other) => {
                    // typed IO obstruction is acceptable (e.g. a directory in place of a file)
                    let _ = other;
                    Ok(())
                }
            }
        };
        for (i, (h, orig)) in hs.iter().enumerate() {
            let path = file_of(&dir, h);
            vensure!(path.is_file(), "C20/harness/blob-path", "layout assumption: {:?}", path);
            // byte flips
            for (p, x) in &c.flips {
                if orig.is_empty() {
                    break;
                }
                let mut b = orig.clone();
                let k = vkit::pick_idx(*p, b.len());
                b[k] ^= *x;
                std::fs::write(&path, &b).unwrap();
                match tier.get(h) {
                    Err(DiskTierError::Cas(CasError::HashMismatch { .. })) => {}
                    Ok(Some(g)) => vfail!("C20/disk/corruption-returned-as-content", "flip byte {k} of blob {i}: get returned {} bytes", g.len()),
                    other => vfail!("C20/disk/corruption-not-reported", "flip byte {k}: {:?}", other.map(|o| o.map(|x| x.len())).map_err(|e| e.to_string())),
                }
                evals += 1;
                // the same damage as bit rot or a timestamp-preserving restore leaves it: same
                // length, same modification time as the file the tier wrote and has read
                std::fs::write(&path, orig).unwrap();
                let _ = tier.get(h);
                if let Ok(m0) = std::fs::metadata(&path).and_then(|m| m.modified()) {
                    std::fs::write(&path, &b).unwrap();
                    let kept = std::fs::File::options().write(true).open(&path).and_then(|f| f.set_modified(m0)).is_ok()
                        && std::fs::metadata(&path).and_then(|m| m.modified()).map(|m| m == m0).unwrap_or(false);
                    if kept {
                        match tier.get(h) {
                            Err(DiskTierError::Cas(CasError::HashMismatch { .. })) => {}
                            Ok(Some(g)) => vfail!("C20/disk/corruption-returned-as-content", "flip byte {k} of blob {i} with the modification time preserved: get returned {} bytes", g.len()),
                            other => vfail!("C20/disk/corruption-not-reported", "flip byte {k} (mtime preserved): {:?}", other.map(|o| o.map(|x| x.len())).map_err(|e| e.to_string())),
                        }
                        probe.class("disk:same-length-same-mtime-corruption-detected");
                        evals += 1;
                    } else {
                        probe.class("disk:mtime-could-not-be-preserved");
                    }
                }
            }
            // every truncation length and one extension
            let cuts: Vec<usize> = if orig.len() <= 40 { (0..orig.len()).collect() } else { (0..40).map(|k| k * orig.len() / 40).collect() };
            for cut in cuts {
                std::fs::write(&path, &orig[..cut]).unwrap();
                match tier.get(h) {
                    Err(DiskTierError::Cas(CasError::HashMismatch { .. })) => {}
                    Ok(Some(g)) => vfail!("C20/disk/corruption-returned-as-content", "truncate blob {i} to {cut}: get returned {} bytes", g.len()),
                    other => vfail!("C20/disk/corruption-not-reported", "truncate to {cut}: {:?}", other.map(|o| o.map(|x| x.len())).map_err(|e| e.to_string())),
                }
                evals += 1;
            }
            let mut ext = orig.clone();
            ext.push(0);
            std::fs::write(&path, &ext).unwrap();
            vensure!(matches!(tier.get(h), Err(DiskTierError::Cas(CasError::HashMismatch { .. }))), "C20/disk/corruption-not-reported", "extended blob {i}");
            // replaced by another blob's bytes
            if let Some((_, other)) = hs.iter().find(|(x, _)| x != h) {
                std::fs::write(&path, other).unwrap();
                vensure!(matches!(tier.get(h), Err(DiskTierError::Cas(CasError::HashMismatch { .. }))), "C20/disk/foreign-content-returned", "blob {i} replaced by another blob's bytes");
                evals += 1;
            }
            // deleted
            std::fs::remove_file(&path).unwrap();
            vensure!(matches!(tier.get(h), Ok(None)), "C20/disk/deleted-blob-not-absent", "blob {i}");
            vensure!(matches!(tier.has(h), Ok(false)), "C20/disk/deleted-blob-has", "blob {i}");
            // restore via verified put (idempotent, repairs)
            tier.put_verified(*h, orig).map_err(|e| Fail::new("C20/disk/restore", e.to_string()))?;
            judge(&tier, h, orig, "after restore", false)?;
            vensure!(matches!(tier.get(h), Ok(Some(ref g)) if &**g == orig.as_slice()), "C20/disk/restore-did-not-restore", "blob {i}");
            // stray temp file next to it must not be listed nor served
            let stray = path.parent().unwrap().join(format!(".{}.99.tmp", h));
            std::fs::write(&stray, b"partial").unwrap();
            let listed = tier.list().map_err(|e| Fail::new("C20/disk/list-error-with-stray-temp", e.to_string()))?;
            let want: BTreeSet<BlobHash> = hs.iter().map(|(x, _)| *x).collect();
            vensure!(listed.iter().copied().collect::<BTreeSet<_>>() == want, "C20/disk/list-with-stray-temp", "listed {} want {}", listed.len(), want.len());
            let _ = std::fs::remove_file(&stray);
            // the other blobs are unaffected by all of the above
            for (oh, ob) in &hs {
                vensure!(matches!(tier.get(oh), Ok(Some(ref g)) if &**g == ob.as_slice()), "C20/disk/unrelated-blob-affected", "while faulting blob {i}");
            }
            evals += 4;
        }
        probe.evals(evals);
        if hs.len() >= 2 {
            probe.nontrivial();
        }
        Ok(())
    })();
    let _ = std::fs::remove_dir_all(&dir);
    r
}

// --- semantic retention index -----------------------------------------------------

/// BlobStore wrapper that can lose blobs (GC / missing material).
#[derive(Default)]
struct Lossy {
    inner: MemoryTier,
    lost: BTreeSet<BlobHash>,
}
impl BlobStore for Lossy {
    fn put(&mut self, bytes: &[u8]) -> BlobHash {
        let h = self.inner.put(bytes);
        self.lost.remove(&h);
        h
    }
    fn put_verified(&mut self, expected: BlobHash, bytes: &[u8]) -> Result<(), CasError> {
        self.inner.put_verified(expected, bytes)
    }
    fn get(&self, hash: &BlobHash) -> Option<Arc<[u8]>> {
        if self.lost.contains(hash) { None } else { self.inner.get(hash) }
    }
    fn has(&self, hash: &BlobHash) -> bool {
        !self.lost.contains(hash) && self.inner.has(hash)
    }
    fn pin(&mut self, hash: &BlobHash) {
        self.inner.pin(hash)
    }
    fn unpin(&mut self, hash: &BlobHash) {
        self.inner.unpin(hash)
    }
}

fn coord(c: u8) -> SemanticBlobCoordinate {
    let roles = [RetainedBlobRole::ContractArtifact, RetainedBlobRole::ContractReceipt, RetainedBlobRole::Witness, RetainedBlobRole::ReadingPayload, RetainedBlobRole::ReadingEnvelope, RetainedBlobRole::ObserverArtifact];
    if c & 1 == 1 {
        // boundary-shift family: one string split into (namespace, schema, artifact) at two
        // generated positions. Different splits are different coordinates although their
        // fields concatenate to the same text (a key that forgets the field boundaries
        // aliases them); role and digest are equal within a family.
        let k = (c >> 1) as usize;
        let base = ["0a0a0a", "aaaa", "ns/a00"][k % 3];
        let n = base.len();
        let splits: Vec<(usize, usize)> = (0..=n).flat_map(|i| (i..=n).map(move |j| (i, j))).collect();
        let (i, j) = splits[(k / 3) % splits.len()];
        return SemanticBlobCoordinate {
            namespace: base[..i].into(),
            schema_hash_hex: base[i..j].into(),
            artifact_hash_hex: base[j..].into(),
            role: RetainedBlobRole::ContractArtifact,
            semantic_digest: [0; 32],
        };
    }
    let c = c >> 1;
    // coordinates differ in exactly one field from a neighbour
    SemanticBlobCoordinate {
        namespace: if c & 1 == 0 { "ns/a".into() } else { "ns/b".into() },
        schema_hash_hex: if c & 2 == 0 { "00".into() } else { "01".into() },
        artifact_hash_hex: if c & 4 == 0 { "aa".into() } else { "ab".into() },
        role: roles[((c >> 3) % 6) as usize],
        semantic_digest: [c >> 6; 32],
    }
}

#[derive(Clone, Debug, Serialize, Deserialize)]
pub enum ROp {
    Retain(u8, u8),
    Load(u8),
    LoadRange(u8, u16, u16, u16),
    Lose(u8),
}
/// Coordinate indexes: any, or biased to a handful so that operations meet on the same and
/// on neighbouring coordinates.
fn coord_ix() -> impl Strategy<Value = u8> {
    prop_oneof![2 => any::<u8>(), 3 => 0u8..24, 2 => (0u8..40).prop_map(|k| k * 2 + 1)]
}
fn rop() -> impl Strategy<Value = ROp> {
    prop_oneof![
        4 => (coord_ix(), any::<u8>()).prop_map(|(c, b)| ROp::Retain(c, b)),
        3 => coord_ix().prop_map(ROp::Load),
        3 => (coord_ix(), 0u16..80, 0u16..80, 0u16..100).prop_map(|(c, o, l, m)| ROp::LoadRange(c, o, l, m)),
        1 => any::<u8>().prop_map(ROp::Lose),
    ]
}
#[derive(Clone, Debug, Serialize, Deserialize)]
pub struct RCase {
    ops: Vec<ROp>,
}
fn rcase() -> impl Strategy<Value = RCase> {
    prop::collection::vec(rop(), 1..30).prop_map(|ops| RCase { ops })
}

fn check_retention(_ctx: &Ctx, c: &RCase, probe: &mut Probe) -> Check {
    let mut store = Lossy::default();
    let mut index = RetainedBlobIndex::default();
    let mut model: BTreeMap<SemanticBlobCoordinate, Vec<u8>> = BTreeMap::new();
    let mut conflicts = 0;
    for (step, o) in c.ops.iter().enumerate() {
        match o {
            ROp::Retain(ci, bi) => {
                let (co, b) = (coord(*ci), blob(*bi));
                let r = index.retain(&mut store, co.clone(), &b);
                match (model.get(&co), r) {
                    (None, Ok(d)) => {
                        vensure!(d.content_hash == blob_hash(&b) && d.byte_len == b.len() as u64 && d.coordinate == co, "C20/retention/descriptor-wrong", "step {step}");
                        model.insert(co, b);
                    }
                    (Some(prev), Ok(d)) => {
                        vensure!(prev == &b, "C20/retention/different-content-accepted-under-same-coordinate", "step {step}: coordinate already names other content");
                        vensure!(d.content_hash == blob_hash(&b), "C20/retention/descriptor-wrong", "step {step}");
                    }
                    (Some(prev), Err(RetentionError::SemanticCoordinateConflict { existing_content_hash, new_content_hash, .. })) => {
                        vensure!(prev != &b, "C20/retention/equal-content-refused", "step {step}");
                        vensure!(existing_content_hash == blob_hash(prev) && new_content_hash == blob_hash(&b), "C20/retention/conflict-names-wrong-hashes", "step {step}");
                        conflicts += 1;
                    }
                    (m, Err(e)) => vfail!("C20/retention/unexpected-error", "step {step}: model has={} error {e}", m.is_some()),
                }
            }
            ROp::Load(ci) => {
                let co = coord(*ci);
                match (model.get(&co), index.load(&store, &co)) {
                    (None, Err(RetentionError::MissingSemanticCoordinate { .. })) => {}
                    (Some(b), Ok(r)) => vensure!(&*r.bytes == b.as_slice() && r.descriptor.coordinate == co, "C20/retention/load-returns-other-content", "step {step}: coordinate aliasing or wrong bytes"),
                    (Some(b), Err(RetentionError::MissingBlob { content_hash })) => {
                        vensure!(content_hash == blob_hash(b) && store.lost.contains(&content_hash), "C20/retention/missing-blob-misreported", "step {step}");
                        probe.class("typed-missing-blob");
                    }
                    (m, r) => vfail!("C20/retention/load-disagrees-with-model", "step {step}: model has={} result ok={}", m.is_some(), r.is_ok()),
                }
            }
            ROp::LoadRange(ci, off, len, max) => {
                let co = coord(*ci);
                let (off, len, max) = (*off as u64, *len as u64, *max as u64);
                match (model.get(&co), index.load_range(&store, &co, off, len, max)) {
                    (None, Err(RetentionError::MissingSemanticCoordinate { .. })) => {}
                    (Some(b), Err(RetentionError::MissingBlob { .. })) => vensure!(store.lost.contains(&blob_hash(b)), "C20/retention/missing-blob-misreported", "step {step}"),
                    (Some(b), Ok(r)) => {
                        vensure!(len <= max && off + len <= b.len() as u64, "C20/retention/range-accepted-out-of-bounds-or-over-budget", "step {step}: off {off} len {len} max {max} blob {}", b.len());
                        vensure!(&*r.bytes == &b[off as usize..(off + len) as usize] && r.offset == off, "C20/retention/range-returns-other-bytes", "step {step}");
                    }
                    (Some(b), Err(RetentionError::RangeExceedsBudget { .. })) => vensure!(len > max, "C20/retention/range-budget-misreported", "step {step} len {len} max {max} blob {}", b.len()),
                    (Some(b), Err(RetentionError::RangeOutOfBounds { .. })) => vensure!(off + len > b.len() as u64, "C20/retention/range-bounds-misreported", "step {step}"),
                    (m, r) => vfail!("C20/retention/range-disagrees-with-model", "step {step}: model has={} ok={}", m.is_some(), r.is_ok()),
                }
            }
            ROp::Lose(bi) => {
                store.lost.insert(blob_hash(&blob(*bi)));
            }
        }
    }
    // distinct coordinates never alias, even with equal content
    for (co, b) in &model {
        if let Ok(r) = index.load(&store, co) {
            vensure!(&*r.bytes == b.as_slice(), "C20/retention/final-scan-aliasing", "{:?}", co);
        }
    }
    if conflicts > 0 || model.values().collect::<BTreeSet<_>>().len() < model.len() {
        probe.nontrivial();
    }
    Ok(())
}

pub fn subs(_ctx: &Ctx) -> Vec<Box<dyn Sub>> {
    vec![
        prop_sub("memory-tier-vs-reference-map", 20_000, 400_000, ops_case(), check_mem),
        prop_sub("disk-tier-vs-reference-map", 1_200, 40_000, ops_case(), check_disk),
        prop_sub("disk-file-fault-enumeration", 160, 12_000, fault_case(), check_faults),
        prop_sub("semantic-retention-index", 20_000, 400_000, rcase(), check_retention),
    ]
}
