//! A trusted runtime host with a filesystem WAL, driven by a `HostOp` script, recording after
//! every operation what was acknowledged and what the WAL directory looked like.

use std::collections::BTreeMap;
use std::path::{Path, PathBuf};
use vmodel::host::*;
use vmodel::rt::{realise_prog_for, wl_id, wt};
use warp_core::{IngressEnvelope, IntentOutcome, ProvenanceStore, TrustedRuntimeHost};

pub const SEGMENT_REL: &str = "segments/segment-00000000000000000001.ecwal";
pub const RECORD_MAGIC: &[u8; 8] = b"ECWALR1!";

#[derive(Clone, Debug)]
pub struct SubRec {
    pub env: IngressEnvelope,
    pub wl: u8,
    pub id: [u8; 32],
    pub ticket: u8,
    /// staged into runtime ingress and not yet decided (volatile across a restart)
    pub staged: bool,
}

/// Durable, acknowledged facts (what a client or operator was told).
#[derive(Clone, Debug, PartialEq, Eq)]
pub struct Facts {
    /// per submission: id and normalised outcome (pending outcomes compare equal whether or
    /// not the volatile staging record exists)
    pub outcomes: Vec<([u8; 32], String)>,
    /// per worldline: (frontier tick, state root)
    pub lanes: Vec<(u64, [u8; 32])>,
    /// per worldline: (commit id, state root, patch digest) per committed tick
    pub chains: Vec<Vec<([u8; 32], [u8; 32], [u8; 32])>>,
}

#[derive(Clone, Debug)]
pub struct Snap {
    pub after_op: usize,
    pub seg_len: usize,
    pub n_commits: usize,
    /// side files (everything in the root except the segment and the lock), by relative name
    pub side: BTreeMap<String, Vec<u8>>,
    pub facts: Facts,
    pub global_tick: u64,
    /// submissions staged and undecided at this point (indexes into `subs`)
    pub staged_pending: Vec<usize>,
    pub n_subs: usize,
    pub tag: String,
}

pub struct HostRun {
    pub host: TrustedRuntimeHost,
    pub seed: HostSeed,
    pub root: PathBuf,
    pub subs: Vec<SubRec>,
    pub snaps: Vec<Snap>,
}

pub fn outcome_norm(o: &IntentOutcome) -> String {
    match o {
        IntentOutcome::Pending { submission_generation, .. } => format!("Pending(gen {submission_generation:?})"),
        other => format!("{other:?}"),
    }
}

pub fn facts_of(host: &mut TrustedRuntimeHost, n_wl: usize, subs: &[SubRec]) -> Facts {
    let outcomes = subs.iter().map(|s| (s.id, outcome_norm(&host.app().observe_intent_outcome(&s.id)))).collect();
    let mut lanes = Vec::new();
    let mut chains = Vec::new();
    for wl in 0..n_wl as u8 {
        let id = wl_id(wl);
        let f = host.runtime().worldlines().get(&id).expect("lane");
        lanes.push((f.frontier_tick().as_u64(), f.state().state_root()));
        let len = host.provenance().len(id).unwrap_or(0);
        chains.push((0..len).map(|t| host.provenance().entry(id, wt(t)).map(|e| (e.expected.commit_hash, e.expected.state_root, e.expected.patch_digest)).expect("entry")).collect());
    }
    Facts { outcomes, lanes, chains }
}

pub fn read_side_files(root: &Path) -> BTreeMap<String, Vec<u8>> {
    let mut out = BTreeMap::new();
    if let Ok(rd) = std::fs::read_dir(root) {
        for e in rd.flatten() {
            let p = e.path();
            if p.is_file() {
                let name = p.file_name().unwrap().to_string_lossy().to_string();
                if name.ends_with(".lock") {
                    continue;
                }
                if let Ok(b) = std::fs::read(&p) {
                    out.insert(name, b);
                }
            }
        }
    }
    out
}

pub fn segment_bytes(root: &Path) -> Vec<u8> {
    std::fs::read(root.join(SEGMENT_REL)).unwrap_or_default()
}

/// Names of segment files present under the root (relative), to detect rotation.
pub fn segment_files(root: &Path) -> Vec<String> {
    let mut v = Vec::new();
    if let Ok(rd) = std::fs::read_dir(root.join("segments")) {
        for e in rd.flatten() {
            v.push(e.file_name().to_string_lossy().to_string());
        }
    }
    v.sort();
    v
}

/// Materialise a WAL root: the segment prefix `seg` and the given side files.
pub fn write_root(root: &Path, seg: &[u8], side: &BTreeMap<String, Vec<u8>>) {
    let _ = std::fs::remove_dir_all(root);
    std::fs::create_dir_all(root.join("segments")).expect("mkdir");
    if !seg.is_empty() {
        std::fs::write(root.join(SEGMENT_REL), seg).expect("write segment");
    }
    for (name, bytes) in side {
        std::fs::write(root.join(name), bytes).expect("write side file");
    }
}

/// One disk record of the documented framing: magic, kind, len (u64 LE), payload, digest.
#[derive(Clone, Debug)]
pub struct DiskRecord {
    pub start: usize,
    pub end: usize,
    /// 1 = frame, 2 = commit marker
    pub kind: u8,
}

/// Parse a segment by the documented framing only (harness-side, no repo code).
pub fn parse_records(bytes: &[u8]) -> Vec<DiskRecord> {
    let mut out = Vec::new();
    let mut off = 0usize;
    while off + 17 <= bytes.len() {
        if &bytes[off..off + 8] != RECORD_MAGIC {
            break;
        }
        let kind = bytes[off + 8];
        let len = u64::from_le_bytes(bytes[off + 9..off + 17].try_into().unwrap()) as usize;
        let end = off + 17 + len + 32;
        if end > bytes.len() {
            break;
        }
        out.push(DiskRecord { start: off, end, kind });
        off = end;
    }
    out
}

/// End offsets of whole transactions (position just after each commit marker).
pub fn txn_ends(bytes: &[u8]) -> Vec<usize> {
    parse_records(bytes).iter().filter(|r| r.kind == 2).map(|r| r.end).collect()
}

impl HostRun {
    pub fn open(seed: &HostSeed, root: &Path) -> Result<Self, String> {
        let host = open_host(seed, root)?;
        Ok(HostRun { host, seed: seed.clone(), root: root.to_path_buf(), subs: Vec::new(), snaps: Vec::new() })
    }

    pub fn n_wl(&self) -> usize {
        self.seed.worldlines.len()
    }

    pub fn n_commits(&self) -> usize {
        self.host.runtime_wal().map(|w| w.commits().len()).unwrap_or(0)
    }

    pub fn facts(&mut self) -> Facts {
        let n = self.n_wl();
        facts_of(&mut self.host, n, &self.subs)
    }

    /// Apply one operation; returns a tag (`err:` prefix when the operation failed).
    pub fn apply(&mut self, op: &HostOp) -> String {
        match op {
            HostOp::Submit { wl, prog, salt } => {
                let wl = wl % self.n_wl() as u8;
                let ws = self.host.runtime().worldlines().get(&wl_id(wl)).expect("lane").state().clone();
                let p = realise_prog_for(&ws, prog);
                let env = dsl_envelope(wl, &p, *salt);
                self.submit_env(env, wl, (*salt % 3) as u8)
            }
            HostOp::Resubmit { which } => {
                if self.subs.is_empty() {
                    return "resubmit:none".into();
                }
                let s = self.subs[vkit::pick_idx(*which, self.subs.len())].clone();
                self.submit_env(s.env, s.wl, s.ticket)
            }
            HostOp::Stage { which } => {
                if self.subs.is_empty() {
                    return "stage:none".into();
                }
                let ix = vkit::pick_idx(*which, self.subs.len());
                self.stage(ix)
            }
            HostOp::Tick => match self.host.tick_once() {
                Ok(recs) => {
                    // whatever was staged is decided by now (committed batches take everything pending)
                    for s in &mut self.subs {
                        if s.staged {
                            let decided = !matches!(self.host.runtime().observe_app_intent_outcome(&s.id), IntentOutcome::Pending { .. });
                            if decided {
                                s.staged = false;
                            }
                        }
                    }
                    format!("tick:ok:{}", recs.len())
                }
                Err(e) => format!("err:tick:{}", format!("{e:?}").chars().take(120).collect::<String>()),
            },
        }
    }

    pub fn stage(&mut self, ix: usize) -> String {
        let s = self.subs[ix].clone();
        match self.host.stage_installed_contract_submission(s.id, &host_ticket(s.ticket, &s.env.ingress_id())) {
            Ok(warp_core::TicketedRuntimeIngressDisposition::Staged { .. }) => {
                self.subs[ix].staged = true;
                "stage:staged".into()
            }
            Ok(warp_core::TicketedRuntimeIngressDisposition::Duplicate { .. }) => "stage:duplicate".into(),
            Err(e) => format!("stage:refused:{}", format!("{e:?}").chars().take(60).collect::<String>()),
        }
    }

    fn submit_env(&mut self, env: IngressEnvelope, wl: u8, ticket: u8) -> String {
        let known = self.subs.iter().position(|s| s.env.ingress_id() == env.ingress_id() && s.wl == wl);
        match self.host.app().submit_intent_with_runtime_wal_ack(env.clone()) {
            Ok(h) => {
                match known {
                    Some(ix) => {
                        if !h.duplicate || h.submission_id != self.subs[ix].id {
                            return format!("BAD:retry-not-deduplicated:dup={} same-id={}", h.duplicate, h.submission_id == self.subs[ix].id);
                        }
                        "submit:duplicate".into()
                    }
                    None => {
                        self.subs.push(SubRec { env, wl, id: h.submission_id, ticket, staged: false });
                        if h.duplicate {
                            "BAD:first-submission-reported-duplicate".into()
                        } else {
                            "submit:accepted".into()
                        }
                    }
                }
            }
            Err(e) => format!("err:submit:{}", format!("{e:?}").chars().take(120).collect::<String>()),
        }
    }

    pub fn snapshot(&mut self, after_op: usize, tag: &str) {
        let facts = self.facts();
        let snap = Snap {
            after_op,
            seg_len: segment_bytes(&self.root).len(),
            n_commits: self.n_commits(),
            side: read_side_files(&self.root),
            facts,
            global_tick: self.host.runtime().global_tick().as_u64(),
            staged_pending: self.subs.iter().enumerate().filter(|(_, s)| s.staged).map(|(i, _)| i).collect(),
            n_subs: self.subs.len(),
            tag: tag.to_string(),
        };
        self.snaps.push(snap);
    }
}
