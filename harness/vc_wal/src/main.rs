mod c10;
mod c11;
mod c17;
mod c20;
mod hostrun;

use vkit::Property;

fn main() {
    vkit::main(vec![
    Property {
        id: "C10",
        level: "fault_enumeration",
        rule: "proptest: a generated workload of 3-16 operations (durable-ack submissions of intents carrying data-driven programs, retries, ticketed staging, scheduler ticks) over 1-2 worldlines runs on a TrustedRuntimeHost with a filesystem runtime WAL and an installed contract package whose handler interprets the program; after every operation the harness records the acknowledged facts (per submission the observed outcome incl. receipt reference, per worldline frontier tick, state root and the (commit id, state root, patch digest) chain), the global tick, the segment length, the commit count and copies of the side files (writer-epoch ledger, manifest). Crash enumeration: (1) recover_wal_segment_bytes in ReadOnly and Writable mode on the prefix of EVERY byte length (segments <= 1500 bytes or thorough tier; otherwise every record boundary +-{0,1,2,9,17,18}, 400 evenly spaced lengths and sampled points): must succeed, return exactly the transactions whose commit marker lies wholly below the cut (boundaries computed by the harness from the documented record framing, not by repo code), with a Clean tail exactly at transaction boundaries; (2) a fresh host opened on a copy of the directory cut at every transaction boundary +-1, at frame boundaries and mid-frame points and at sampled lengths, each combined with the side-file versions before and after the operation that spans the cut: recovery succeeds, runs no rule (executor counter), recovers exactly the committed prefix, every fact acknowledged at that prefix with identical submission ids, outcomes, receipt references, state roots, chains and global tick, later submissions are Unknown, two read-only recoveries and a second open agree (indexes root), certificate count and recomputed indexes root agree; then volatile staging is re-issued and the rest of the script runs: final facts equal the uninterrupted run's, every earlier envelope is answered duplicate with the same id and appends nothing. Store faults: FilesystemWalFaultPlan (AppendFrame, FlushCommit, CommitMarkerSynced, PublishManifest) injected before a generated operation: a failing call leaves facts and the Debug rendering of runtime and provenance identical to before the call; the directory as the failed host left it recovers to the prefix its commit markers define, with the matching facts, and continues to the uninterrupted run's final facts. Non-trivial = a cut strictly inside a record that follows a committed transaction.",
        assumptions: &[
            "a crash leaves the segment file as a byte prefix and atomically renamed side files as an old or new version; reordered sector writes and torn renames are not modelled",
            "segment rotation does not occur for these workloads (cases with more than one segment file are skipped and counted)",
            "an operation the live host refuses ends the workload at that point (counted as a class)",
        ],
        subs: c10::subs,
        max_shards: 16,
    },
    Property {
        id: "C11",
        level: "fault_enumeration",
        rule: "proptest: logs produced by the C10 workload generator (a real host with a filesystem runtime WAL and the data-driven contract package; 4-14 operations) plus a second log from another workload. 24-48 generated mutations per case, each applied to the committed segment or its side files: single-bit flips, byte overwrites, aligned zeroing of 1/4/8/32/64 bytes, and - using the harness's own parser of the documented record framing - deletion, duplication and adjacent swap of single disk records, removal and duplication of whole transactions, transplant (insert or replace) of a transaction from the second log, bit flips in the writer-epoch ledger and manifest; plus EVERY single-bit flip of the segment for logs <= 1200 bytes (quick) / <= 8 KiB (thorough) through the byte-level reader. Each mutant is given to recover_wal_segment_bytes (ReadOnly and Writable), recover_filesystem_store and doctor_filesystem_store on a materialised directory, and (every third mutant in quick, every mutant in thorough) a fresh TrustedRuntimeHost. Oracle per reader: a typed error / refusal, or Ok with a history that is transaction-by-transaction, frame-by-frame a PREFIX of the committed history (compared with the history recovered from the untouched log); a host that activates must additionally hold exactly the facts acknowledged at that prefix; a panic is a violation. Accepted prefixes are tallied per mutation kind. Non-trivial = damage inside a committed, non-final transaction.",
        assumptions: &[
            "truncation is C10's subject; a damaged FINAL transaction may lawfully be treated as a torn tail (prefix rule)",
            "the doctor is required not to panic and not to report more committed history than exists; its posture vocabulary is tallied, not judged",
        ],
        subs: c11::subs,
        max_shards: 16,
    },
    Property {
        id: "C17",
        level: "fault_enumeration",
        rule: "proptest model-based histories of 4-60 operations over six request ids against the real ExternalActionCoordinatorV1 on a WalStorePort wrapper around InMemoryWalStore: Request (valid / zero budget / two attempts / over the byte limit / identity-breaking field change), Claim (valid / stale basis / zero lease / attempt ordinal 1 / authorization issued for another request / unregistered adapter) always with the token reconstructed from the coordinator, Settle (valid with generated kind and 0..24 bytes / over budget / wrong schema / digest mismatch / wrong attempt / wrong adapter / wrong basis / zero evidence) always with the reconstructed grant, RetrySettle (the retained settlement or a different valid one), Observe, CrashRecover (truncating recovery + ExternalActionCoordinatorV1::recover), and store faults armed for the next transition: failure of the n-th frame append, failure of the commit flush, and a flush that reaches the store but reports an error (lost acknowledgement). Reference model: per id the prefix of requested -> claimed -> settled(kind, bytes). After every operation: the outcome class equals the model's (exactly one invalid aspect per operation); a returned token / grant / settlement names the commit whose flush reached the store last (durable before returned); at most one claim grant per id ever; an admitted settlement is for the claimed attempt, within the byte budget, with the submitted bytes; refused steps and retries append nothing, successful steps commit exactly one transaction; after a store fault the coordinator refuses every further call until recovery, and recovery yields the model state before the step (append / flush failure) or after it (lost acknowledgement), from which the step can be issued again exactly once; the lifecycle index (posture, presence of claim / settlement, bytes), the three grant getters and the per-kind transaction counts equal the model; the coordinator recovered from a copy of the log equals the live one (PartialEq over index, Merkle nodes and continuation) with equal index root. Non-trivial = ids in >=2 different stages and >=1 crash or store fault.",
        assumptions: &[
            "store faults and crashes use the in-memory store behind a WalStorePort wrapper (public trait); the filesystem store path is covered by C10/C11 for the runtime WAL only",
            "attempt budgets other than 1 are refused by the implementation (v1), so 'within the declared bounds' is checked on the byte budget and the attempt ordinal",
        ],
        subs: c17::subs,
        max_shards: 16,
    },
    Property {
        id: "C20",
        level: "fault_enumeration",
        rule: "proptest stateful model tests: random op sequences (put, verified put with right / wrong / foreign / already-stored hash, get, has, pin, unpin, reopen, list) over a pool of 10 blobs of unequal lengths against a reference BTreeMap + pin set, for MemoryTier (through BlobStore) and DiskTier (fresh scratch directory per case, reopened mid-sequence), with the full state compared after every step. Fault enumeration on DiskTier's backing files: for every stored file generated byte flips, every truncation length (all cuts for blobs <= 40 bytes, 40 evenly spaced cuts beyond), extension, replacement by another blob's bytes, deletion, restore by verified put, stray temp file; oracle: get is the exact content, absent, or a typed HashMismatch - never other bytes; unrelated blobs unaffected; list ignores temp files. RetainedBlobIndex against Map<coordinate, bytes> with coordinates that differ in exactly one field, a lossy BlobStore wrapper (missing material), load / load_range with generated offsets, lengths and budgets. Non-trivial = a wrong-hash verified put or a reopen after a put (tiers); >=2 stored files (faults); a coordinate conflict or two coordinates with equal content (retention).",
        assumptions: &[
            "pins are documented as in-memory set-based retention roots; a reopened DiskTier starts with no pins",
            "the WSC/WAL export-profile half of C20 (self-contained / CAS-addressed / ref-only re-import) is not covered by this check yet",
        ],
        subs: c20::subs,
        max_shards: 16,
    },
    ])
}
