use vmodel::dsl::*;
use vmodel::rt::*;
use vmodel::universe::*;
use warp_core::{IngressEnvelope, IngressTarget};

pub fn run() {
    let seed = WorldSeed { worldlines: vec![(StateSeed { root: WarpSeed { root_node: 0, nodes: vec![(1, 0)], edges: vec![], natt: vec![], eatt: vec![] }, children: vec![] }, vec![HeadSeed { policy: PolicySeed::AcceptAll, inbox: None }])], workers: 1 };
    let mut w = build_world(&seed);
    let instrs = vec![Instr::UpsertNode { n: 5, ty: 2 }];
    let instrs = vec![Instr::ReadNode(0)];
    let prog = Prog { cond: MatchCond::Always, fp: AFootprint { factor_mask: u64::MAX, ..Default::default() }, instrs };
    let env = IngressEnvelope::local_intent(IngressTarget::ExactHead { key: head_key(0, 0) }, kind(0), encode_prog(&prog, 1));
    println!("submit: {:?}", w.submit(env).map(|d| format!("{d:?}").chars().take(60).collect::<String>()));
    let before = EXEC_COUNT.load(std::sync::atomic::Ordering::Relaxed);
    println!("pass: {:?}", w.pass());
    println!("exec count delta: {}", EXEC_COUNT.load(std::sync::atomic::Ordering::Relaxed) - before);
    println!("state: {:?}", lenient_dump(w.frontier(0)));
    let (_, receipt, patch) = w.frontier(0).tick_history().last().unwrap().clone();
    println!("receipt entries: {} ops: {}", receipt.entries().len(), patch.ops().len());
}
