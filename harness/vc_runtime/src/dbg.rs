//! `vc_runtime --debug <replay.json>`: run a HistCase replay verbosely (development aid).
use crate::hist::HistCase;
use vmodel::rt::*;

pub fn run() {
    let path = std::env::args().nth(2).expect("replay file");
    let v: serde_json::Value = serde_json::from_str(&std::fs::read_to_string(path).expect("read")).expect("json");
    let case = v.get("case").cloned().unwrap_or(v.clone());
    let case: HistCase = match serde_json::from_value(case.clone()) {
        Ok(c) => c,
        Err(_) => serde_json::from_value(case.get("hist").cloned().expect("hist")).expect("HistCase"),
    };
    let mut w = build_world(&case.world);
    for (i, s) in case.steps.iter().enumerate() {
        let tag = w.apply_step(&case.world, s);
        let short: String = format!("{s:?}").chars().take(90).collect();
        println!("[{i}] {short} -> {tag}");
        println!("     lens={:?} pending={:?} correlations={}", (0..w.n_wl() as u8).map(|wl| w.len(wl)).collect::<Vec<_>>(), w.runtime.heads().iter().map(|(_, h)| h.inbox().pending_count()).collect::<Vec<_>>(), w.runtime.receipt_correlations().count());
        if tag.starts_with("restart:failed") {
            for c in w.runtime.receipt_correlations() {
                println!("     correlation: {c:#?}");
            }
        }
    }
}
