//! C05 — history is hash-chained and tamper-evident.

use crate::hist::*;
use proptest::prelude::*;
use serde::{Deserialize, Serialize};
use std::collections::BTreeMap;
use vkit::{prop_sub, vensure, vensure_eq, vfail, Check, Ctx, Fail, Probe, Sub};
use vmodel::rt::*;
use vmodel::universe::{node_key, warp_id};
use warp_core::{
    compute_commit_hash_v2, CheckpointRef, CursorId, CursorRole, HistoryError, PlaybackCursor, ProvenanceEntry,
    ProvenanceEventKind, ProvenanceRef, ProvenanceService, ProvenanceStore, ReplayCheckpoint, WarpId, WarpOp, WorldlineId,
    WorldlineState, WorldlineTick,
};

/// One alteration of a retained entry.
#[derive(Clone, Debug, Serialize, Deserialize, PartialEq)]
pub enum Field {
    StateRoot,
    PatchDigestExpected,
    CommitHash,
    Tick,
    WorldlineId,
    GlobalTick,
    ParentsDrop,
    ParentsAlterHash,
    ParentsAlterTick,
    ParentsAddExtra,
    HeadKeyNone,
    HeadKeyOther,
    EventKind,
    PatchNone,
    HeaderGlobalTick,
    HeaderPolicy,
    HeaderRulePack,
    HeaderPlanDigest,
    HeaderDecisionDigest,
    HeaderRewritesDigest,
    PatchWarp,
    PatchDigestInPatch,
    OpDrop(u8),
    OpDup(u8),
    OpAlter(u8),
    OpSwap(u8),
    InSlotDrop,
    OutSlotDrop,
    InSlotAdd,
    ReceiptNone,
    OutputsAdd,
    AtomWritesAdd,
}

pub fn all_fields() -> Vec<Field> {
    use Field::*;
    let mut v = vec![
        StateRoot, PatchDigestExpected, CommitHash, Tick, WorldlineId, GlobalTick, ParentsDrop, ParentsAlterHash, ParentsAlterTick,
        ParentsAddExtra, HeadKeyNone, HeadKeyOther, EventKind, PatchNone, HeaderGlobalTick, HeaderPolicy, HeaderRulePack,
        HeaderPlanDigest, HeaderDecisionDigest, HeaderRewritesDigest, PatchWarp, PatchDigestInPatch, InSlotDrop, OutSlotDrop,
        InSlotAdd, ReceiptNone, OutputsAdd, AtomWritesAdd,
    ];
    for k in 0..3 {
        v.push(OpDrop(k));
        v.push(OpDup(k));
        v.push(OpAlter(k));
        v.push(OpSwap(k));
    }
    v
}

fn flip(h: &mut [u8; 32]) {
    h[7] ^= 0x40;
}

fn alter_op(op: &mut WarpOp) {
    match op {
        WarpOp::UpsertNode { record, .. } => flip(&mut record.ty.0),
        WarpOp::DeleteNode { node } => flip(&mut node.local_id.0),
        WarpOp::UpsertEdge { record, .. } => flip(&mut record.to.0),
        WarpOp::DeleteEdge { edge_id, .. } => flip(&mut edge_id.0),
        WarpOp::SetAttachment { value, .. } => {
            *value = match value.take() {
                Some(warp_core::AttachmentValue::Atom(mut a)) => {
                    let mut b = a.bytes.to_vec();
                    if b.is_empty() {
                        b.push(1);
                    } else {
                        let k = b.len() / 2;
                        b[k] ^= 1;
                    }
                    a.bytes = b.into();
                    Some(warp_core::AttachmentValue::Atom(a))
                }
                Some(other) => {
                    let _ = other;
                    None
                }
                None => Some(warp_core::AttachmentValue::Atom(warp_core::AtomPayload::new(warp_core::TypeId([9; 32]), vec![1u8].into()))),
            }
        }
        WarpOp::OpenPortal { child_root, .. } => flip(&mut child_root.0),
        WarpOp::UpsertWarpInstance { instance } => flip(&mut instance.root_node.0),
        WarpOp::DeleteWarpInstance { warp_id } => flip(&mut warp_id.0),
    }
}

/// Apply the alteration; returns false if it does not apply to this entry (nothing changed).
pub fn tamper(e: &mut ProvenanceEntry, f: &Field) -> bool {
    let before = e.clone();
    match f {
        Field::StateRoot => flip(&mut e.expected.state_root),
        Field::PatchDigestExpected => flip(&mut e.expected.patch_digest),
        Field::CommitHash => flip(&mut e.expected.commit_hash),
        Field::Tick => e.worldline_tick = wt(e.worldline_tick.as_u64() + 1),
        Field::WorldlineId => e.worldline_id = wl_id(6),
        Field::GlobalTick => e.commit_global_tick = gt(e.commit_global_tick.as_u64() + 1),
        Field::ParentsDrop => {
            e.parents.pop();
        }
        Field::ParentsAlterHash => {
            if let Some(p) = e.parents.first_mut() {
                flip(&mut p.commit_hash);
            }
        }
        Field::ParentsAlterTick => {
            if let Some(p) = e.parents.first_mut() {
                p.worldline_tick = wt(p.worldline_tick.as_u64() + 1);
            }
        }
        Field::ParentsAddExtra => e.parents.push(ProvenanceRef { worldline_id: e.worldline_id, worldline_tick: wt(0), commit_hash: [0xee; 32] }),
        Field::HeadKeyNone => e.head_key = None,
        Field::HeadKeyOther => e.head_key = Some(head_key(5, 5)),
        Field::EventKind => e.event_kind = ProvenanceEventKind::ConflictArtifact { artifact_id: [3; 32] },
        Field::PatchNone => e.patch = None,
        Field::ReceiptNone => e.tick_receipt = None,
        Field::OutputsAdd => e.outputs.push((warp_core::TypeId([4; 32]), vec![1, 2, 3])),
        Field::AtomWritesAdd => e.atom_writes.push(warp_core::AtomWrite::new(node_key(0, 0), [1; 32], 0, None, vec![1])),
        other => {
            let Some(p) = e.patch.as_mut() else { return false };
            match other {
                Field::HeaderGlobalTick => p.header.commit_global_tick = gt(p.header.commit_global_tick.as_u64() + 1),
                Field::HeaderPolicy => p.header.policy_id ^= 1,
                Field::HeaderRulePack => flip(&mut p.header.rule_pack_id),
                Field::HeaderPlanDigest => flip(&mut p.header.plan_digest),
                Field::HeaderDecisionDigest => flip(&mut p.header.decision_digest),
                Field::HeaderRewritesDigest => flip(&mut p.header.rewrites_digest),
                Field::PatchWarp => p.warp_id = WarpId([0x77; 32]),
                Field::PatchDigestInPatch => flip(&mut p.patch_digest),
                Field::OpDrop(k) => {
                    if !p.ops.is_empty() {
                        let i = *k as usize % p.ops.len();
                        p.ops.remove(i);
                    }
                }
                Field::OpDup(k) => {
                    if !p.ops.is_empty() {
                        let i = *k as usize % p.ops.len();
                        let mut o = p.ops[i].clone();
                        alter_op(&mut o);
                        p.ops.push(o);
                    }
                }
                Field::OpAlter(k) => {
                    if !p.ops.is_empty() {
                        let i = *k as usize % p.ops.len();
                        alter_op(&mut p.ops[i]);
                    }
                }
                Field::OpSwap(k) => {
                    if p.ops.len() >= 2 {
                        let i = *k as usize % (p.ops.len() - 1);
                        p.ops.swap(i, i + 1);
                    }
                }
                Field::InSlotDrop => {
                    p.in_slots.pop();
                }
                Field::OutSlotDrop => {
                    p.out_slots.pop();
                }
                Field::InSlotAdd => p.in_slots.push(warp_core::SlotId::Node(node_key(0, 11))),
                _ => {}
            }
        }
    }
    *e != before
}

/// Store wrapper: one entry altered on read, or structural edits.
#[derive(Clone, Debug, Serialize, Deserialize)]
pub enum Edit {
    Field { tick: u64, field: Field },
    Swap { a: u64, b: u64 },
    Duplicate { from: u64, at: u64 },
    Truncate { len: u64 },
    Transplant { tick: u64, from_wl: u8, from_tick: u64 },
}

pub struct TamperStore<'a> {
    pub inner: &'a ProvenanceService,
    pub wl: WorldlineId,
    pub edit: Edit,
    pub checkpoints: bool,
}

impl ProvenanceStore for TamperStore<'_> {
    fn u0(&self, w: WorldlineId) -> Result<WarpId, HistoryError> {
        self.inner.u0(w)
    }
    fn initial_boundary_hash(&self, w: WorldlineId) -> Result<[u8; 32], HistoryError> {
        self.inner.initial_boundary_hash(w)
    }
    fn len(&self, w: WorldlineId) -> Result<u64, HistoryError> {
        let n = self.inner.len(w)?;
        match &self.edit {
            Edit::Truncate { len } if w == self.wl => Ok(n.min(*len)),
            _ => Ok(n),
        }
    }
    fn entry(&self, w: WorldlineId, tick: WorldlineTick) -> Result<ProvenanceEntry, HistoryError> {
        if w != self.wl {
            return self.inner.entry(w, tick);
        }
        let t = tick.as_u64();
        match &self.edit {
            Edit::Field { tick: tt, field } if *tt == t => {
                let mut e = self.inner.entry(w, tick)?;
                tamper(&mut e, field);
                Ok(e)
            }
            Edit::Swap { a, b } if *a == t => self.inner.entry(w, wt(*b)),
            Edit::Swap { a, b } if *b == t => self.inner.entry(w, wt(*a)),
            Edit::Duplicate { from, at } if *at == t => self.inner.entry(w, wt(*from)),
            Edit::Truncate { len } if t >= *len => Err(HistoryError::HistoryUnavailable { tick }),
            Edit::Transplant { tick: tt, from_wl, from_tick } if *tt == t => self.inner.entry(wl_id(*from_wl), wt(*from_tick)),
            _ => self.inner.entry(w, tick),
        }
    }
    fn parents(&self, w: WorldlineId, tick: WorldlineTick) -> Result<Vec<ProvenanceRef>, HistoryError> {
        Ok(self.entry(w, tick)?.parents)
    }
    fn append_local_commit(&mut self, _entry: ProvenanceEntry) -> Result<(), HistoryError> {
        unreachable!("read-only wrapper")
    }
    fn append_recorded_event(&mut self, _entry: ProvenanceEntry) -> Result<(), HistoryError> {
        unreachable!("read-only wrapper")
    }
    fn checkpoint_before(&self, w: WorldlineId, tick: WorldlineTick) -> Option<CheckpointRef> {
        if self.checkpoints { self.inner.checkpoint_before(w, tick) } else { None }
    }
    fn checkpoint_state_before(&self, w: WorldlineId, tick: WorldlineTick) -> Option<ReplayCheckpoint> {
        if self.checkpoints { self.inner.checkpoint_state_before(w, tick) } else { None }
    }
}

/// What a verified replay result binds: per-tick (commit hash, state root, patch digest, parents)
/// and the final state root.
fn verified_view(ws: &WorldlineState) -> Vec<([u8; 32], [u8; 32], [u8; 32], Vec<[u8; 32]>)> {
    ws.tick_history().iter().map(|(s, _, _)| (s.hash, s.state_root, s.patch_digest, s.parents.clone())).collect()
}

#[derive(Clone, Debug, Serialize, Deserialize)]
pub struct Case5 {
    pub hist: HistCase,
    /// sampled (tick pick, field index) used for long histories
    pub picks: Vec<(u16, u16)>,
    pub structural: Vec<(u8, u16, u16)>,
}

fn case5() -> impl Strategy<Value = Case5> {
    (hist_case(2, 2, 40), prop::collection::vec((any::<u16>(), any::<u16>()), 40), prop::collection::vec((0u8..4, any::<u16>(), any::<u16>()), 6))
        .prop_map(|(hist, picks, structural)| Case5 { hist, picks, structural })
}

fn judge(orig: &WorldlineState, got: Result<WorldlineState, String>, what: &str, probe: &mut Probe, field_name: &str) -> Check {
    match got {
        Err(_) => {
            probe.class(format!("rejected:{field_name}"));
            Ok(())
        }
        Ok(ws) => {
            if verified_view(&ws) != verified_view(orig) || ws.state_root() != orig.state_root() {
                vfail!(format!("C05/tampered-history-verified-with-different-hashes/{field_name}"), "{what}: replay succeeded with different per-tick hashes/state root: {:?} vs original {:?}", verified_view(&ws).last(), verified_view(orig).last());
            }
            if state_fp(&ws) != state_fp(orig) {
                if field_name == "CheckpointForeign" {
                    // a checkpoint taken from another worldline whose REACHABLE content (state
                    // root) coincides with this history's: the chain and the checkpoint hash
                    // commit to reachable content only (C06), so content that no root covers
                    // travels with the checkpoint. Every hash the chain binds is identical;
                    // tallied, not a violation of what the commit id binds.
                    probe.class("accepted-same-verified-state:CheckpointForeign(unreachable content differs)");
                    return Ok(());
                }
                vfail!(format!("C05/tampered-history-verified-with-different-state/{field_name}"), "{what}: replay succeeded with equal hashes but different store content");
            }
            probe.class(format!("accepted-same-result:{field_name}"));
            Ok(())
        }
    }
}

fn check5(ctx: &Ctx, c: &Case5, probe: &mut Probe) -> Check {
    let (w, _) = run(&c.hist, true);
    let fields = all_fields();
    let mut evals = 0u64;
    for wl in 0..w.n_wl() as u8 {
        let len = w.len(wl);
        if len == 0 {
            continue;
        }
        let id = wl_id(wl);
        let init = &w.initial[wl as usize];
        let p = &w.provenance;

        // ---- untampered direction
        let mut prev: Option<ProvenanceEntry> = None;
        for t in 0..len {
            let e = p.entry(id, wt(t)).map_err(|e| Fail::new("C05/entry-missing", format!("tick {t}: {e:?}")))?;
            vensure_eq!(e.worldline_tick, wt(t), "C05/chain/gap", "entry at index {t}");
            vensure_eq!(e.worldline_id, id, "C05/chain/worldline", "entry {t}");
            let parents: Vec<[u8; 32]> = e.parents.iter().map(|r| r.commit_hash).collect();
            let expect_parents: Vec<[u8; 32]> = prev.iter().map(|x| x.expected.commit_hash).collect();
            vensure_eq!(parents, expect_parents, "C05/chain/parent-is-not-previous-tip", "worldline {wl} tick {t}");
            let patch = e.patch.as_ref().ok_or_else(|| Fail::new("C05/chain/no-patch", "local commit without patch"))?;
            let h = compute_commit_hash_v2(&e.expected.state_root, &parents, &e.expected.patch_digest, patch.policy_id());
            vensure_eq!(h, e.expected.commit_hash, "C05/commit-id-binding", "worldline {wl} tick {t}");
            vensure_eq!(patch.patch_digest, e.expected.patch_digest, "C05/patch-digest-binding", "tick {t}");
            prev = Some(e);
        }
        let orig = p.replay_worldline_state_at(id, init, wt(len)).map_err(|e| Fail::new("C05/untampered-replay-fails", format!("{e:?}")))?;
        // every contiguous BTR segment validates
        for a in 0..len {
            for b in a + 1..=len {
                let r = p.build_btr(id, wt(a), wt(b), 7, vec![1, 2]).map_err(|e| Fail::new("C05/untampered-btr-fails", format!("[{a},{b}): {e:?}")))?;
                p.validate_btr(&r).map_err(|e| Fail::new("C05/untampered-btr-fails", format!("[{a},{b}): {e:?}")))?;
                evals += 1;
            }
        }
        // ---- alterations of boundary-transition records themselves. Truth for a record: there is
        // a genuine segment [start, start+n) of the registered history with the same payload
        // entries, boundaries, initial-state handle and worldline. validate_btr must accept
        // exactly the truthful records (logical_counter / auth_tag are documented opaque).
        {
            let truthful = |p: &ProvenanceService, r: &warp_core::BoundaryTransitionRecord| -> bool {
                let a = r.payload.start_worldline_tick.as_u64();
                let n = r.payload.entries.len() as u64;
                match p.build_btr(r.worldline_id, wt(a), wt(a + n), r.logical_counter, r.auth_tag.clone()) {
                    Ok(g) => &g == r,
                    Err(_) => false,
                }
            };
            let judge_btr = |p: &ProvenanceService, r: &warp_core::BoundaryTransitionRecord, what: &str, probe: &mut Probe| -> Check {
                let t = truthful(p, r);
                let v = p.validate_btr(r);
                match (t, v) {
                    (true, Ok(())) => probe.class(format!("btr:{what}:truthful-accepted")),
                    (false, Err(_)) => probe.class(format!("btr:{what}:rejected")),
                    (true, Err(e)) => vfail!(format!("C05/btr/truthful-record-refused/{what}"), "worldline {wl} [{}..+{}): {e:?}", r.payload.start_worldline_tick.as_u64(), r.payload.entries.len()),
                    (false, Ok(())) => vfail!(format!("C05/btr/altered-record-validates/{what}"), "worldline {wl} [{}..+{}) against a registered history of {len} ticks", r.payload.start_worldline_tick.as_u64(), r.payload.entries.len()),
                }
                Ok(())
            };
            // a fabricated successor of the last entry of `r` (self-consistent: next tick, parent = that entry)
            let fabricate_after = |last: &ProvenanceEntry| -> ProvenanceEntry {
                let mut f = last.clone();
                f.worldline_tick = wt(last.worldline_tick.as_u64() + 1);
                f.parents = vec![warp_core::ProvenanceRef { worldline_id: last.worldline_id, worldline_tick: last.worldline_tick, commit_hash: last.expected.commit_hash }];
                f.expected.state_root[0] ^= 0x5a;
                f
            };
            let mut segs: Vec<(u64, u64)> = Vec::new();
            for a in 0..len {
                for b in a + 1..=len {
                    if len <= 5 || a == 0 || b == len || (a + b) % 3 == 0 {
                        segs.push((a, b));
                    }
                }
            }
            for (a, b) in segs {
                let g = p.build_btr(id, wt(a), wt(b), 3, vec![9]).map_err(|e| Fail::new("C05/untampered-btr-fails", format!("[{a},{b}): {e:?}")))?;
                let mut alts: Vec<(&str, warp_core::BoundaryTransitionRecord)> = Vec::new();
                let mut r = g.clone();
                r.input_boundary_hash[7] ^= 1;
                alts.push(("input-boundary", r));
                let mut r = g.clone();
                r.output_boundary_hash[7] ^= 1;
                alts.push(("output-boundary", r));
                let mut r = g.clone();
                r.u0_ref.0[3] ^= 1;
                alts.push(("u0-ref", r));
                let mut r = g.clone();
                r.logical_counter ^= 0xff;
                r.auth_tag.push(1);
                alts.push(("opaque-fields", r));
                // drop the first entry, with and without re-deriving start and input boundary
                if b - a >= 2 {
                    let mut r = g.clone();
                    r.payload.entries.remove(0);
                    alts.push(("drop-first-only", r.clone()));
                    r.payload.start_worldline_tick = wt(a + 1);
                    alts.push(("drop-first-restart", r.clone()));
                    r.input_boundary_hash = g.payload.entries[0].expected.state_root;
                    alts.push(("drop-first-rederived", r));
                    let mut r = g.clone();
                    r.payload.entries.pop();
                    alts.push(("drop-last-only", r.clone()));
                    r.output_boundary_hash = r.payload.entries.last().unwrap().expected.state_root;
                    alts.push(("drop-last-rederived", r));
                    let mut r = g.clone();
                    r.payload.entries.swap(0, 1);
                    alts.push(("swap-entries", r));
                }
                // extend past the end of the segment: by the genuine next entry when there is one,
                // by a fabricated self-consistent entry otherwise (a record reaching past the tip)
                {
                    let last = g.payload.entries.last().unwrap();
                    let next = if b < len { p.entry(id, wt(b)).unwrap() } else { fabricate_after(last) };
                    let mut r = g.clone();
                    r.payload.entries.push(next.clone());
                    alts.push((if b < len { "extend-genuine-only" } else { "extend-past-tip-only" }, r.clone()));
                    r.output_boundary_hash = next.expected.state_root;
                    alts.push((if b < len { "extend-genuine-rederived" } else { "extend-past-tip-rederived" }, r.clone()));
                    if b < len {
                        // genuine next tick, fabricated content
                        let mut r2 = g.clone();
                        let f = fabricate_after(last);
                        r2.output_boundary_hash = f.expected.state_root;
                        r2.payload.entries.push(f);
                        alts.push(("extend-fabricated-inside-history", r2));
                    }
                }
                // a record lying entirely past the tip
                if b == len {
                    let last = g.payload.entries.last().unwrap();
                    let f = fabricate_after(last);
                    let r = warp_core::BoundaryTransitionRecord {
                        worldline_id: g.worldline_id,
                        u0_ref: g.u0_ref,
                        input_boundary_hash: last.expected.state_root,
                        output_boundary_hash: f.expected.state_root,
                        payload: warp_core::BtrPayload { worldline_id: g.worldline_id, start_worldline_tick: wt(len), entries: vec![f] },
                        logical_counter: 1,
                        auth_tag: vec![],
                    };
                    alts.push(("entirely-past-tip", r));
                }
                // one altered field inside a payload entry (sampled fields)
                for (k, field) in fields.iter().enumerate() {
                    if (k as u64 + a + b) % 7 != 0 {
                        continue;
                    }
                    let mut r = g.clone();
                    let ix = ((k as u64) % (b - a)) as usize;
                    if tamper(&mut r.payload.entries[ix], field) {
                        if ix + 1 == r.payload.entries.len() {
                            r.output_boundary_hash = r.payload.entries[ix].expected.state_root;
                        }
                        alts.push(("entry-field", r));
                    }
                }
                for (what, r) in &alts {
                    judge_btr(p, r, what, probe)?;
                    evals += 1;
                }
                // the same genuine record against a SHORTER registered history (its suffix was
                // rolled back): rebuilt service holding the first k entries only
                if b == len && len >= 2 {
                    for k in [a.max(1), len - 1] {
                        if k >= b || k == 0 {
                            continue;
                        }
                        // a service holding the first k entries only
                        let mut ps = ProvenanceService::new();
                        ps.register_worldline(id, init).map_err(|e| Fail::new("C05/harness", format!("{e:?}")))?;
                        let mut ok = true;
                        for tt in 0..k {
                            ok &= ps.append_local_commit(p.entry(id, wt(tt)).unwrap()).is_ok();
                        }
                        if ok {
                            judge_btr(&ps, &g, "record-outlives-rolled-back-suffix", probe)?;
                            evals += 1;
                        }
                    }
                }
            }
        }
        // append with wrong tick / duplicate tick / bad parent is refused
        {
            let mut p2 = p.clone();
            let last = p.entry(id, wt(len - 1)).unwrap();
            let mut gap = last.clone();
            gap.worldline_tick = wt(len + 1);
            vensure!(p2.append_local_commit(gap).is_err(), "C05/append/gap-accepted", "tick {} accepted at length {len}", len + 1);
            vensure!(p2.append_local_commit(last.clone()).is_err(), "C05/append/duplicate-tick-accepted", "re-append of tick {}", len - 1);
            let mut bad_parent = last.clone();
            bad_parent.worldline_tick = wt(len);
            bad_parent.parents = vec![ProvenanceRef { worldline_id: id, worldline_tick: wt(len - 1), commit_hash: [0xab; 32] }];
            vensure!(p2.append_local_commit(bad_parent).is_err(), "C05/append/unknown-parent-accepted", "parent with wrong commit hash accepted");
        }

        // ---- tamper direction: every (tick, field) for short histories, sampled beyond
        let exhaustive = len <= ctx.tier.pick(5, 8);
        let combos: Vec<(u64, usize)> = if exhaustive {
            (0..len).flat_map(|t| (0..fields.len()).map(move |f| (t, f))).collect()
        } else {
            c.picks.iter().map(|(a, b)| (vkit::pick_idx(*a, len as usize) as u64, vkit::pick_idx(*b, fields.len()))).collect()
        };
        probe.class(if exhaustive { "catalogue-exhaustive" } else { "catalogue-sampled" });
        for (t, fi) in combos {
            let field = &fields[fi];
            let mut probe_entry = p.entry(id, wt(t)).unwrap();
            if !tamper(&mut probe_entry, field) {
                continue;
            }
            let name = format!("{field:?}").split('(').next().unwrap_or("?").to_string();
            for with_cp in [false, true] {
                let store = TamperStore { inner: p, wl: id, edit: Edit::Field { tick: t, field: field.clone() }, checkpoints: with_cp };
                // cursor path
                let mut cur = PlaybackCursor::new(CursorId([5; 32]), id, warp_id(0), CursorRole::Reader, init, wt(len));
                let got = cur.seek_to(wt(len), &store, init).map(|_| cur.materialized_state().clone()).map_err(|e| format!("{e:?}"));
                judge(&orig, got, &format!("worldline {wl} tick {t} field {field:?} (cursor, checkpoints={with_cp})"), probe, &name)?;
                evals += 1;
            }
            // service path: rebuild a service whose history contains the altered entry
            let mut p2 = ProvenanceService::new();
            p2.register_worldline(id, init).map_err(|e| Fail::new("C05/harness", format!("{e:?}")))?;
            let mut refused = false;
            for tt in 0..len {
                let mut e = p.entry(id, wt(tt)).unwrap();
                if tt == t {
                    tamper(&mut e, field);
                }
                if p2.append_local_commit(e).is_err() {
                    refused = true;
                    break;
                }
            }
            if refused {
                probe.class(format!("rejected-at-append:{name}"));
            } else {
                let got = p2.replay_worldline_state_at(id, init, wt(len)).map_err(|e| format!("{e:?}"));
                judge(&orig, got, &format!("worldline {wl} tick {t} field {field:?} (service replay)"), probe, &name)?;
                // BTR built from the altered store must not validate against the genuine one
                if let Ok(r) = p2.build_btr(id, wt(t), wt(t + 1), 0, vec![]) {
                    if p.validate_btr(&r).is_ok() && r.payload.entries[0] != p.entry(id, wt(t)).unwrap() {
                        vfail!(format!("C05/tampered-btr-validates/{name}"), "a BTR carrying the altered entry {t} validates against the genuine history");
                    }
                }
            }
            evals += 1;
            if t + 1 < len {
                probe.sub_nontrivial(format!("{:?}|{wl}|{t}|{fi}", orig.state_root(), ).as_bytes());
            }
        }

        // ---- structural edits
        for (kind, x, y) in &c.structural {
            let a = vkit::pick_idx(*x, len as usize) as u64;
            let b = vkit::pick_idx(*y, len as usize) as u64;
            let edit = match kind {
                0 if a != b => Edit::Swap { a, b },
                1 if a != b => Edit::Duplicate { from: a, at: b },
                2 => Edit::Truncate { len: a },
                3 if w.n_wl() > 1 => {
                    let other = (wl + 1) % w.n_wl() as u8;
                    let ol = w.len(other);
                    if ol == 0 {
                        continue;
                    }
                    Edit::Transplant { tick: a, from_wl: other, from_tick: b % ol }
                }
                _ => continue,
            };
            let store = TamperStore { inner: p, wl: id, edit: edit.clone(), checkpoints: true };
            let mut cur = PlaybackCursor::new(CursorId([5; 32]), id, warp_id(0), CursorRole::Reader, init, wt(len));
            let got = cur.seek_to(wt(len), &store, init).map(|_| cur.materialized_state().clone()).map_err(|e| format!("{e:?}"));
            let name = format!("{edit:?}").split(' ').next().unwrap_or("?").to_string();
            judge(&orig, got, &format!("worldline {wl} structural {edit:?}"), probe, &name)?;
            probe.sub_nontrivial(format!("{:?}|{edit:?}", orig.state_root()).as_bytes());
            evals += 1;
        }

        // ---- checkpoint tampering through add_checkpoint
        for t in 0..=len {
            let st = p.replay_worldline_state_at(id, init, wt(t)).map_err(|e| Fail::new("C05/untampered-replay-fails", format!("{e:?}")))?;
            let mut cp = ReplayCheckpoint::from_state(&st);
            cp.checkpoint.state_hash[3] ^= 1;
            let mut p2 = p.clone();
            vensure!(p2.add_checkpoint(id, cp).is_err(), "C05/checkpoint/bad-state-hash-accepted", "tick {t}");
            if t < len {
                // a checkpoint claiming another tick
                let mut cp = ReplayCheckpoint::from_state(&st);
                cp.checkpoint.worldline_tick = wt(t + 1);
                let r = p2.add_checkpoint(id, cp);
                if r.is_ok() {
                    // accepted only if the two ticks are indistinguishable by the chain; replay must still equal the original
                    let got = p2.replay_worldline_state_at(id, init, wt(len)).map_err(|e| format!("{e:?}"));
                    judge(&orig, got, &format!("worldline {wl} checkpoint of tick {t} registered as tick {}", t + 1), probe, "CheckpointTick")?;
                }
            }
            // checkpoint state from another worldline
            if w.n_wl() > 1 {
                let other = (wl + 1) % w.n_wl() as u8;
                if let Ok(os) = p.replay_worldline_state_at(wl_id(other), &w.initial[other as usize], wt(w.len(other).min(t))) {
                    let r = p2.add_checkpoint(id, ReplayCheckpoint::from_state(&os));
                    if r.is_ok() {
                        let got = p2.replay_worldline_state_at(id, init, wt(len)).map_err(|e| format!("{e:?}"));
                        judge(&orig, got, &format!("worldline {wl}: foreign checkpoint from worldline {other}"), probe, "CheckpointForeign")?;
                    }
                }
            }
            evals += 1;
        }
    }
    probe.evals(evals);
    let _: BTreeMap<u8, u8> = BTreeMap::new();
    Ok(())
}

pub fn subs(_ctx: &Ctx) -> Vec<Box<dyn Sub>> {
    vec![crate::svcops::sub(), prop_sub("chain-and-tamper-catalogue", 300, 8_000, case5(), check5)]
}
