//! C08 — ingress is content-addressed, idempotent and order-free.

use crate::hist::*;
use proptest::prelude::*;
use serde::{Deserialize, Serialize};
use std::collections::{BTreeMap, BTreeSet};
use vkit::{prop_sub, vensure, vensure_eq, vfail, Check, Ctx, Fail, Probe, Sub};
use vmodel::rt::*;
use vmodel::tick::{cand_seed, CandSeed};
use vmodel::universe::warp_id;
use warp_core::{
    CausalTickReceiptRef, InboxAddress, IngressCausalParent, IngressDisposition, IngressEnvelope, IngressTarget, NodeId,
    ProvenanceStore, StepRecord,
};

// ---------------------------------------------------------------------------
// identity

#[derive(Clone, Debug, Serialize, Deserialize)]
pub struct IdCase {
    kind: u8,
    bytes: Vec<u8>,
    parents: Vec<(bool, u8)>,
    alt_kind: u8,
    alt_byte: (u16, u8),
    alt_parent: (bool, u8),
    shuffle: Vec<u16>,
}

fn id_case() -> impl Strategy<Value = IdCase> {
    (
        0u8..3,
        prop::collection::vec(any::<u8>(), 0..40),
        prop::collection::vec((any::<bool>(), 0u8..5), 0..4),
        0u8..3,
        (any::<u16>(), 1u8..=255),
        (any::<bool>(), 0u8..5),
        prop::collection::vec(any::<u16>(), 8),
    )
        .prop_map(|(kind, bytes, parents, alt_kind, alt_byte, alt_parent, shuffle)| IdCase { kind, bytes, parents, alt_kind, alt_byte, alt_parent, shuffle })
}

fn rref(b: u8) -> CausalTickReceiptRef {
    CausalTickReceiptRef {
        worldline_id: wl_id(b % 2),
        worldline_tick_after: wt(1 + b as u64),
        commit_global_tick: gt(2 + b as u64),
        commit_hash: [b; 32],
        submission_id: [b.wrapping_add(1); 32],
        ticket_digest: [b.wrapping_add(2); 32],
        receipt_content_digest: [b.wrapping_add(3); 32],
    }
}
fn parent(p: &(bool, u8)) -> IngressCausalParent {
    if p.0 {
        IngressCausalParent::TickReceipt { receipt_ref: rref(p.1) }
    } else {
        IngressCausalParent::ContractInverseTarget { receipt_ref: rref(p.1) }
    }
}

fn check_identity(_ctx: &Ctx, c: &IdCase, probe: &mut Probe) -> Check {
    let parents: Vec<IngressCausalParent> = c.parents.iter().map(parent).collect();
    let targets = [
        IngressTarget::DefaultWriter { worldline_id: wl_id(0) },
        IngressTarget::DefaultWriter { worldline_id: wl_id(1) },
        IngressTarget::InboxAddress { worldline_id: wl_id(0), inbox: InboxAddress("orders".into()) },
        IngressTarget::ExactHead { key: head_key(0, 1) },
    ];
    let base = IngressEnvelope::local_intent_with_causal_parents(targets[0].clone(), kind(c.kind), c.bytes.clone(), parents.clone());
    // route does not enter the identity
    for t in &targets[1..] {
        let e = IngressEnvelope::local_intent_with_causal_parents(t.clone(), kind(c.kind), c.bytes.clone(), parents.clone());
        vensure_eq!(e.ingress_id(), base.ingress_id(), "C08/identity/depends-on-route", "target {:?}", t);
    }
    // parent order and duplication do not enter the identity
    let mut shuffled = parents.clone();
    shuffled.extend(parents.iter().cloned());
    for i in (1..shuffled.len()).rev() {
        let j = vkit::pick_idx(c.shuffle[i % c.shuffle.len()], i + 1);
        shuffled.swap(i, j);
    }
    let e = IngressEnvelope::local_intent_with_causal_parents(targets[0].clone(), kind(c.kind), c.bytes.clone(), shuffled);
    vensure_eq!(e.ingress_id(), base.ingress_id(), "C08/identity/depends-on-parent-order-or-multiplicity", "parents {:?}", c.parents);
    if parents.is_empty() {
        let plain = IngressEnvelope::local_intent(targets[0].clone(), kind(c.kind), c.bytes.clone());
        vensure_eq!(plain.ingress_id(), base.ingress_id(), "C08/identity/empty-parents-differs", "local_intent vs with_causal_parents([])");
    }
    // any difference in kind / bytes / parent set changes it
    if c.alt_kind % 3 != c.kind % 3 {
        let e = IngressEnvelope::local_intent_with_causal_parents(targets[0].clone(), kind(c.alt_kind), c.bytes.clone(), parents.clone());
        vensure!(e.ingress_id() != base.ingress_id(), "C08/identity/ignores-kind", "kinds {} {}", c.kind, c.alt_kind);
    }
    {
        let mut b = c.bytes.clone();
        if b.is_empty() {
            b.push(c.alt_byte.1);
        } else {
            let k = vkit::pick_idx(c.alt_byte.0, b.len());
            b[k] ^= c.alt_byte.1;
        }
        let e = IngressEnvelope::local_intent_with_causal_parents(targets[0].clone(), kind(c.kind), b, parents.clone());
        vensure!(e.ingress_id() != base.ingress_id(), "C08/identity/ignores-bytes", "");
        let mut longer = c.bytes.clone();
        longer.push(0);
        let e = IngressEnvelope::local_intent_with_causal_parents(targets[0].clone(), kind(c.kind), longer, parents.clone());
        vensure!(e.ingress_id() != base.ingress_id(), "C08/identity/ignores-length", "");
    }
    {
        let extra = parent(&c.alt_parent);
        let mut ps = parents.clone();
        let present = ps.contains(&extra);
        if present {
            ps.retain(|p| *p != extra);
        } else {
            ps.push(extra);
        }
        let e = IngressEnvelope::local_intent_with_causal_parents(targets[0].clone(), kind(c.kind), c.bytes.clone(), ps);
        vensure!(e.ingress_id() != base.ingress_id(), "C08/identity/ignores-parent-set", "toggled {:?}", c.alt_parent);
        probe.nontrivial();
    }
    Ok(())
}

// ---------------------------------------------------------------------------
// arrival order / retries metamorphic + inbox model

#[derive(Clone, Debug, Serialize, Deserialize)]
pub struct Sub8 {
    wl: u8,
    route: Route,
    kind: u8,
    prog: CandSeed,
    salt: u32,
}

#[derive(Clone, Debug, Serialize, Deserialize)]
pub struct Case8 {
    world: WorldSeed,
    rounds: Vec<Vec<Sub8>>,
    /// per variant: (swap seeds, duplicate insertions (which, where))
    variants: Vec<(Vec<u16>, Vec<(u16, u16)>)>,
}

fn sub8() -> impl Strategy<Value = Sub8> {
    let route = prop_oneof![3 => Just(Route::Default), 1 => (0u8..3).prop_map(Route::Named), 2 => (0u8..4).prop_map(Route::Exact)];
    (any::<u8>(), route, 0u8..3, cand_seed(4), 0u32..3).prop_map(|(wl, route, kind, prog, salt)| Sub8 { wl, route, kind, prog, salt })
}

fn case8() -> impl Strategy<Value = Case8> {
    (
        world_seed(2, 3),
        prop::collection::vec(prop::collection::vec(sub8(), 1..7), 1..4),
        prop::collection::vec((prop::collection::vec(any::<u16>(), 8), prop::collection::vec((any::<u16>(), any::<u16>()), 0..5)), 3),
    )
        .prop_map(|(world, rounds, variants)| Case8 { world, rounds, variants })
}

#[derive(Debug, PartialEq, Clone)]
struct RoundOutcome {
    records: Result<Vec<StepRecord>, String>,
    pending: Vec<usize>,
    fps: Vec<StateFp>,
    lens: Vec<u64>,
}

fn observe(w: &World, records: Result<Vec<StepRecord>, String>) -> RoundOutcome {
    let mut pending = Vec::new();
    for (_, h) in w.runtime.heads().iter() {
        pending.push(h.inbox().pending_count());
    }
    RoundOutcome { records, pending, fps: (0..w.n_wl() as u8).map(|wl| state_fp(w.frontier(wl))).collect(), lens: (0..w.n_wl() as u8).map(|wl| w.len(wl)).collect() }
}

fn permutations_of(n: usize) -> Vec<Vec<usize>> {
    let mut out = Vec::new();
    let mut a: Vec<usize> = (0..n).collect();
    let mut c = vec![0usize; n];
    out.push(a.clone());
    let mut i = 0;
    while i < n {
        if c[i] < i {
            if i % 2 == 0 { a.swap(0, i) } else { a.swap(c[i], i) }
            out.push(a.clone());
            c[i] += 1;
            i = 0;
        } else {
            c[i] = 0;
            i += 1;
        }
    }
    out
}

fn check8(_ctx: &Ctx, c: &Case8, probe: &mut Probe) -> Check {
    // base run: realise envelopes round by round
    let mut base = build_world(&c.world);
    let mut envs: Vec<Vec<IngressEnvelope>> = Vec::new();
    let mut base_out: Vec<RoundOutcome> = Vec::new();
    let mut base_disp: Vec<Vec<String>> = Vec::new();
    // reference inbox model: per head pending ids, committed ids
    let mut model_pending: BTreeMap<warp_core::WriterHeadKey, BTreeSet<[u8; 32]>> = BTreeMap::new();
    let mut model_committed: BTreeMap<warp_core::WriterHeadKey, BTreeSet<[u8; 32]>> = BTreeMap::new();
    for round in &c.rounds {
        let mut es = Vec::new();
        let mut ds = Vec::new();
        for s in round {
            let wl = base.wl_of(s.wl);
            let p = base.realise_prog(wl, &s.prog);
            let env = base.make_envelope(&c.world, wl, &s.route, s.kind, &p, s.salt);
            let d = base.submit(env.clone());
            // model of dispositions
            match &d {
                Ok(IngressDisposition::Accepted { head_key, ingress_id, .. }) => {
                    let fresh = !model_pending.entry(*head_key).or_default().contains(ingress_id) && !model_committed.entry(*head_key).or_default().contains(ingress_id);
                    vensure!(fresh, "C08/duplicate-accepted-twice", "ingress {:?} accepted although pending or committed on {:?}", &ingress_id[..4], head_key);
                    model_pending.entry(*head_key).or_default().insert(*ingress_id);
                }
                Ok(IngressDisposition::Duplicate { head_key, ingress_id, .. }) => {
                    let known = model_pending.entry(*head_key).or_default().contains(ingress_id) || model_committed.entry(*head_key).or_default().contains(ingress_id);
                    vensure!(known, "C08/fresh-intent-reported-duplicate", "ingress {:?} on {:?}", &ingress_id[..4], head_key);
                }
                _ => {}
            }
            ds.push(match &d {
                Ok(IngressDisposition::Accepted { head_key, .. }) => format!("A{:?}", head_key.head_id),
                Ok(IngressDisposition::Duplicate { head_key, .. }) => format!("D{:?}", head_key.head_id),
                Err(e) => format!("E{}", e.split('(').next().unwrap_or("")),
                #[allow(unreachable_patterns)]
                Ok(_) => "other".into(),
            });
            es.push(env);
        }
        // inbox model: what this pass must commit per head (policy from the world seed)
        let mut expect_commit: BTreeMap<warp_core::WriterHeadKey, BTreeSet<[u8; 32]>> = BTreeMap::new();
        for (wl, (_, heads)) in c.world.worldlines.iter().enumerate() {
            for (h, hs) in heads.iter().enumerate() {
                let key = head_key(wl as u8, h as u8);
                let pend = model_pending.entry(key).or_default();
                let take: Vec<[u8; 32]> = match &hs.policy {
                    PolicySeed::Budgeted(n) => pend.iter().take(*n as usize).copied().collect(),
                    _ => pend.iter().copied().collect(),
                };
                for id in &take {
                    pend.remove(id);
                }
                if !take.is_empty() {
                    expect_commit.insert(key, take.into_iter().collect());
                }
            }
        }
        let recs = match base.pass() {
            PassOutcome::Ok(r) => Ok(r),
            PassOutcome::Err(e) => Err(e),
            PassOutcome::Panic(m) => Err(format!("panic: {m}")),
        };
        if let Ok(recs) = &recs {
            // committed heads and counts follow the inbox model
            let got: BTreeMap<warp_core::WriterHeadKey, usize> = recs.iter().map(|r| (r.head_key, r.admitted_count)).collect();
            let want: BTreeMap<warp_core::WriterHeadKey, usize> = expect_commit.iter().map(|(k, v)| (*k, v.len())).collect();
            vensure_eq!(got, want, "C08/inbox-model/admitted-batch", "heads and batch sizes committed by the pass differ from the reference inbox (pending in id order, budget per policy)");
            for (key, ids) in &expect_commit {
                let wl = wl_ix(&key.worldline_id).unwrap();
                let store = base.frontier(wl).store(&warp_id(0)).ok_or_else(|| Fail::new("C08/harness", "no root store"))?;
                for id in ids {
                    vensure!(store.node(&NodeId(*id)).is_some(), "C08/inbox-model/expected-intent-not-committed", "head {:?}: ingress {:?} should have been admitted (smallest ids first under a budget)", key.head_id, &id[..4]);
                    model_committed.entry(*key).or_default().insert(*id);
                }
            }
        } else {
            probe.class(format!("pass-failed(base):{}", recs.as_ref().err().map(|e| e.chars().take(90).collect::<String>()).unwrap_or_default()));
            return Ok(()); // failing passes are C09's subject; arrival-order law is checked on successful runs
        }
        base_out.push(observe(&base, recs));
        base_disp.push(ds);
        envs.push(es);
    }
    let mut evals = 1u64;

    // variants: same sets per round, other arrival orders, retries inserted anywhere
    let total: usize = envs.iter().map(|e| e.len()).sum();
    let mut variant_orders: Vec<Vec<Vec<usize>>> = Vec::new(); // per variant, per round: order with repeats
    let fact = |n: usize| (1..=n).product::<usize>();
    if envs.iter().map(|e| fact(e.len())).product::<usize>() <= 120 {
        // exhaustive over permutations of each round (cartesian product, bounded)
        let per_round: Vec<Vec<Vec<usize>>> = envs.iter().map(|e| permutations_of(e.len())).collect();
        let mut combos: Vec<Vec<Vec<usize>>> = vec![vec![]];
        for pr in &per_round {
            let mut next = Vec::new();
            for c0 in &combos {
                for p in pr {
                    let mut x = c0.clone();
                    x.push(p.clone());
                    next.push(x);
                }
            }
            combos = next;
        }
        variant_orders = combos;
        probe.class("permutations-exhaustive");
    } else {
        probe.class("permutations-sampled");
    }
    for (swaps, dups) in &c.variants {
        let mut v = Vec::new();
        for es in &envs {
            let n = es.len();
            let mut order: Vec<usize> = (0..n).collect();
            for i in (1..n).rev() {
                let j = vkit::pick_idx(swaps[i % swaps.len()], i + 1);
                order.swap(i, j);
            }
            for (which, at) in dups {
                let x = vkit::pick_idx(*which, n);
                let pos = vkit::pick_idx(*at, order.len() + 1);
                order.insert(pos, x);
            }
            v.push(order);
        }
        variant_orders.push(v);
    }
    for orders in &variant_orders {
        let mut w = build_world(&c.world);
        for (r, order) in orders.iter().enumerate() {
            let mut seen = BTreeSet::new();
            for i in order {
                let d = w.submit(envs[r][*i].clone());
                let first = seen.insert(*i);
                let tag = match &d {
                    Ok(IngressDisposition::Accepted { head_key, .. }) => format!("A{:?}", head_key.head_id),
                    Ok(IngressDisposition::Duplicate { head_key, .. }) => format!("D{:?}", head_key.head_id),
                    Err(e) => format!("E{}", e.split('(').next().unwrap_or("")),
                    #[allow(unreachable_patterns)]
                    Ok(_) => "other".into(),
                };
                let base_tag = &base_disp[r][*i];
                if first {
                    // the first arrival of an intent gets the base disposition unless an equal
                    // intent (same ingress id, same head) arrived first in this order
                    let same_as_earlier = order.iter().take_while(|j| *j != i).any(|j| envs[r][*j].ingress_id() == envs[r][*i].ingress_id());
                    if !same_as_earlier && !base_tag.starts_with('D') && &tag != base_tag {
                        vfail!("C08/disposition-depends-on-arrival-order", "round {r} intent {i}: {tag} vs base {base_tag}");
                    }
                } else if tag.starts_with('A') {
                    vfail!("C08/retry-accepted-as-new", "round {r}: retry of intent {i} while pending was accepted again");
                }
            }
            let recs = match w.pass() {
                PassOutcome::Ok(r) => Ok(r),
                PassOutcome::Err(e) => Err(e),
                PassOutcome::Panic(m) => Err(format!("panic: {m}")),
            };
            let out = observe(&w, recs);
            if out != base_out[r] {
                let what = if out.records != base_out[r].records { "step-records" } else if out.pending != base_out[r].pending { "pending-sets" } else if out.lens != base_out[r].lens { "history-length" } else { "state" };
                vfail!(format!("C08/outcome-depends-on-arrival-order/{what}"), "round {r} order {:?}: {:?} vs base {:?}", order, out.records, base_out[r].records);
            }
        }
        // provenance entries identical
        for wl in 0..w.n_wl() as u8 {
            for t in 0..w.len(wl) {
                let a = w.provenance.entry(wl_id(wl), wt(t)).map_err(|e| Fail::new("C08/harness", format!("{e:?}")))?;
                let b = base.provenance.entry(wl_id(wl), wt(t)).map_err(|e| Fail::new("C08/harness", format!("{e:?}")))?;
                if a != b {
                    vfail!("C08/outcome-depends-on-arrival-order/provenance", "worldline {wl} tick {t} differs");
                }
            }
        }
        evals += 1;
    }
    probe.evals(evals);
    let heads_used: BTreeSet<_> = base.accepted_ids.keys().collect();
    if total >= 3 && heads_used.len() >= 2 {
        probe.nontrivial();
    }
    if c.world.worldlines.iter().any(|(_, hs)| hs.iter().any(|h| matches!(h.policy, PolicySeed::Budgeted(_)))) {
        probe.class("budgeted-inbox");
    }
    Ok(())
}

// ---------------------------------------------------------------------------
// at-most-once over whole histories (retries in every window)

fn check_once(_ctx: &Ctx, c: &HistCase, probe: &mut Probe) -> Check {
    let mut w = build_world(&c.world);
    let mut windows = BTreeSet::new();
    for s in &c.steps {
        // classify retry windows before applying
        if let Step::Retry { which } | Step::RetryPlain { which } = s {
            if !w.submitted.is_empty() {
                let (env, head) = &w.submitted[vkit::pick_idx(*which, w.submitted.len())];
                if let Some(h) = head {
                    let committed = w.committed.get(&(*h, env.ingress_id())).copied().unwrap_or(0) > 0
                        || w.frontier(wl_ix(&h.worldline_id).unwrap()).store(&warp_id(0)).map(|st| st.node(&NodeId(env.ingress_id())).is_some()).unwrap_or(false);
                    windows.insert(if committed && w.restarts > 0 { "after-commit-and-restart" } else if committed { "after-commit" } else { "while-pending" });
                }
            }
        }
        let tag = w.apply_step(&c.world, s);
        if tag.starts_with("restart:failed") {
            if w.mixed_ticks > 0 && tag.contains("ReceiptCorrelationReplayMismatch") {
                // recovery re-validation refuses a tick in which one admitted intent matched no
                // rule while another did (the live commit accepts it): that is C10's subject
                // (recovery succeeds on what was acknowledged), not an ingress question
                probe.class("restart-refused:mixed-tick(C10 subject)");
                return Ok(());
            }
            vfail!("C08/restart-refused-own-retained-history", "{tag}");
        }
        if tag == "restart" {
            probe.class("restart");
            // the restarted runtime stands where the live one stood
            for wl in 0..w.n_wl() as u8 {
                vensure_eq!(w.frontier(wl).current_tick().as_u64(), w.len(wl), "C08/restart/frontier-tick", "worldline {wl}");
                if let Some(lt) = w.ledger[wl as usize].last() {
                    vensure_eq!(w.frontier(wl).state_root(), lt.state_root, "C08/restart/frontier-state", "worldline {wl}");
                }
            }
        }
        if tag == "retry:accepted" || tag == "retry-ticketed:staged" {
            // a retry may be accepted again only if it is neither pending nor committed on that head
            let (env, head) = w.submitted.last().unwrap();
            if let Some(h) = head {
                let n_before = w.submitted[..w.submitted.len() - 1].iter().filter(|(e, hh)| e.ingress_id() == env.ingress_id() && hh == head).count();
                let store_has = w.frontier(wl_ix(&h.worldline_id).unwrap()).store(&warp_id(0)).map(|st| st.node(&NodeId(env.ingress_id())).is_some()).unwrap_or(false);
                if n_before > 0 && store_has {
                    // committed earlier on this worldline: accepted again is a violation only if the same head committed it
                    if w.committed.get(&(*h, env.ingress_id())).copied().unwrap_or(0) > 0 {
                        vfail!("C08/retry-after-commit-accepted", "intent {:?} re-accepted on {:?} after it was committed there", &env.ingress_id()[..4], h.head_id);
                    }
                }
            }
        }
        // invariants after every step
        for ((h, id), n) in &w.committed {
            vensure!(*n <= 1, "C08/intent-committed-twice", "ingress {:?} ran in {n} committed ticks of head {:?}", &id[..4], h.head_id);
        }
        for (key, head) in w.runtime.heads().iter() {
            let accepted = w.accepted_ids.get(key).map(|s| s.len()).unwrap_or(0) as u64;
            let admitted = w.admitted_total.get(key).copied().unwrap_or(0);
            let pending = head.inbox().pending_count() as u64;
            vensure_eq!(accepted, pending + admitted, "C08/conservation", "head {:?}: distinct accepted {} != pending {} + admitted over all passes {}", key.head_id, accepted, pending, admitted);
        }
    }
    for x in &windows {
        probe.class(format!("retry:{x}"));
    }
    if windows.len() >= 2 {
        probe.nontrivial();
    }
    Ok(())
}

pub fn subs(_ctx: &Ctx) -> Vec<Box<dyn Sub>> {
    vec![
        prop_sub("ingress-identity", 20_000, 400_000, id_case(), check_identity),
        prop_sub("arrival-order-retries-inbox-model", 500, 12_000, case8(), check8),
        prop_sub("at-most-once-over-histories", 1_500, 40_000, hist_case(2, 3, 60), check_once),
        prop_sub("at-most-once-across-restarts", 1_500, 40_000, hist_case_ticketed(2, 3, 60), check_once),
    ]
}
