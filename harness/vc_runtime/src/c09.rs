//! C09 — a scheduler pass is all-or-nothing and strictly ordered.

use crate::hist::*;
use proptest::prelude::*;
use serde::{Deserialize, Serialize};
use std::collections::{BTreeMap, BTreeSet};
use vkit::{prop_sub, vensure, vensure_eq, vfail, Check, Ctx, Fail, Probe, Sub};
use vmodel::dsl::*;
use vmodel::rt::*;
use vmodel::tick::{cand_seed, CandSeed};
use vmodel::universe::*;
use warp_core::{
    IngressDisposition, IngressEnvelope, IngressTarget, ProvenanceStore, SchedulerCoordinator, SchedulerFaultRecoveryAuthority,
    SchedulerFaultScope, WriterHeadKey,
};

#[derive(Clone, Debug, Serialize, Deserialize)]
pub enum FailKind {
    Panic,
    UndeclaredRead,
    UndeclaredWrite,
    CrossWarpWrite,
    ApplyErrorMissingEdge,
    ApplyErrorNodeNotIsolated,
    /// every program is honest; the pass runs against a provenance service that lags the
    /// runtime (a clone taken before an earlier pass), so the append of the first head whose
    /// worldline lags is refused AFTER the engine committed that head
    ProvenanceRefusesAppend,
}

#[derive(Clone, Debug, Serialize, Deserialize)]
pub struct Case9 {
    world: WorldSeed,
    /// warm-up passes before the failing one: honest submissions (wl, head, prog)
    warmup: Vec<Vec<(u8, u8, CandSeed)>>,
    /// honest submissions in the failing pass
    honest: Vec<(u8, u8, CandSeed)>,
    fail_at: (u8, u8),
    kind: FailKind,
    /// honest submissions after the failure (further passes)
    after: Vec<Vec<(u8, u8, CandSeed)>>,
    resolve: bool,
    /// honest submissions enter through the witnessed + ticketed path (receipt correlations
    /// are then part of what a failed pass must restore)
    #[serde(default)]
    ticketed: bool,
}

fn subs_vec(max: usize) -> impl Strategy<Value = Vec<(u8, u8, CandSeed)>> {
    prop::collection::vec((any::<u8>(), any::<u8>(), cand_seed(4)), 0..max)
}

fn case9() -> impl Strategy<Value = Case9> {
    (
        world_seed(3, 4),
        prop::collection::vec(subs_vec(4), 0..3),
        subs_vec(8),
        (any::<u8>(), any::<u8>()),
        prop_oneof![
            Just(FailKind::Panic),
            Just(FailKind::UndeclaredRead),
            Just(FailKind::UndeclaredWrite),
            Just(FailKind::CrossWarpWrite),
            Just(FailKind::ApplyErrorMissingEdge),
            Just(FailKind::ApplyErrorNodeNotIsolated),
            Just(FailKind::ProvenanceRefusesAppend),
            Just(FailKind::ProvenanceRefusesAppend),
        ],
        prop::collection::vec(subs_vec(4), 1..3),
        any::<bool>(),
        any::<bool>(),
    )
        .prop_map(|(mut world, warmup, honest, fail_at, kind, after, resolve, ticketed)| {
            // all-or-nothing is about passes: make every inbox accept everything so that the
            // failing intent is really admitted
            for (_, hs) in &mut world.worldlines {
                for h in hs {
                    if matches!(h.policy, PolicySeed::KindFilter(_)) {
                        h.policy = PolicySeed::AcceptAll;
                    }
                }
            }
            Case9 { world, warmup, honest, fail_at, kind, after, resolve, ticketed }
        })
}

/// Top-level fields of a `{:#?}` rendering (4-space indented `name: value` blocks).
fn fields(dbg: &str) -> BTreeMap<String, String> {
    let mut out = BTreeMap::new();
    let mut cur: Option<(String, String)> = None;
    for line in dbg.lines() {
        let top = line.starts_with("    ") && !line.starts_with("     ") && line.trim_start().chars().next().map(|c| c.is_ascii_alphabetic() || c == '_').unwrap_or(false) && line.contains(':');
        if top {
            if let Some((k, v)) = cur.take() {
                out.insert(k, v);
            }
            let t = line.trim_start();
            let (k, v) = t.split_once(':').unwrap();
            cur = Some((k.to_string(), v.to_string()));
        } else if let Some((_, v)) = cur.as_mut() {
            v.push('\n');
            v.push_str(line);
        }
    }
    if let Some((k, v)) = cur.take() {
        out.insert(k, v);
    }
    out
}

const FAULT_EVIDENCE: [&str; 5] = ["scheduler_faults", "faulted_heads", "runtime_fault", "next_scheduler_fault_generation", "runnable"];

fn failing_prog(w: &World, wl: u8, kind: &FailKind) -> Prog {
    let st = lenient_dump(w.frontier(wl));
    let root = st.warps[&0].root_node;
    let (instrs, honest): (Vec<Instr>, bool) = match kind {
        FailKind::Panic => (vec![Instr::ReadNode(root), Instr::Panic], true),
        FailKind::UndeclaredRead => (vec![Instr::ReadNode(root)], false),
        FailKind::UndeclaredWrite => (vec![Instr::UpsertNode { n: (root + 1) % N_NODES, ty: 1 }], false),
        FailKind::CrossWarpWrite => (vec![Instr::ForeignUpsertNode { w: 3, n: 0, ty: 0 }], true),
        FailKind::ApplyErrorMissingEdge => {
            let e = (0..N_EDGES).find(|e| !st.warps[&0].edges.contains_key(e)).unwrap_or(0);
            (vec![Instr::DeleteEdge { e, from: root }], true)
        }
        FailKind::ProvenanceRefusesAppend => (vec![Instr::ReadNode(root)], true),
        FailKind::ApplyErrorNodeNotIsolated => {
            // a node with an incident edge, deleted without deleting the edge
            let n = st.warps[&0].edges.values().map(|r| r.from).next();
            match n {
                Some(n) => (vec![Instr::DeleteNode { n }], true),
                None => (vec![Instr::DeleteEdge { e: 0, from: root }], true),
            }
        }
    };
    let fp = if honest { honest_footprint(0, &instrs) } else { AFootprint { factor_mask: u64::MAX, ..Default::default() } };
    Prog { cond: MatchCond::Always, instrs, fp }
}

fn submit_all(w: &mut World, _seed: &WorldSeed, subs: &[(u8, u8, CandSeed)], salt: u32, ticketed: bool) {
    for (i, (wl, h, p)) in subs.iter().enumerate() {
        let wl = w.wl_of(*wl);
        let h = w.head_of(wl, *h);
        let prog = w.realise_prog(wl, p);
        let env = IngressEnvelope::local_intent(IngressTarget::ExactHead { key: head_key(wl, h) }, kind(0), encode_prog(&prog, salt.wrapping_add(i as u32)));
        if ticketed {
            let _ = w.submit_ticketed(env, 0, true);
        } else {
            let _ = w.submit(env);
        }
    }
}

fn expected_committers(w: &World) -> Vec<WriterHeadKey> {
    SchedulerCoordinator::peek_order(&w.runtime)
        .into_iter()
        .filter(|k| w.runtime.heads().get(k).map(|h| h.inbox().can_admit()).unwrap_or(false))
        .collect()
}

fn check_ok_pass(w: &mut World, what: &str) -> Check {
    let expect = expected_committers(w);
    let gt_before = w.runtime.global_tick().as_u64();
    let lens: Vec<u64> = (0..w.n_wl() as u8).map(|wl| w.len(wl)).collect();
    match w.pass() {
        PassOutcome::Ok(recs) => {
            let got: Vec<WriterHeadKey> = recs.iter().map(|r| r.head_key).collect();
            vensure_eq!(got, expect, "C09/order/committed-heads-not-canonical-runnable-order", "{what}");
            vensure_eq!(w.runtime.global_tick().as_u64(), gt_before + 1, "C09/order/global-tick-not-advanced-by-one", "{what}");
            for wl in 0..w.n_wl() as u8 {
                let n = recs.iter().filter(|r| r.head_key.worldline_id == wl_id(wl)).count() as u64;
                vensure_eq!(w.len(wl), lens[wl as usize] + n, "C09/order/worldline-not-advanced-once-per-head", "{what}: worldline {wl}");
                vensure_eq!(w.frontier(wl).current_tick().as_u64(), w.len(wl), "C09/order/frontier-tick-vs-history", "{what}: worldline {wl}");
            }
            for r in &recs {
                vensure_eq!(r.commit_global_tick.as_u64(), gt_before + 1, "C09/order/record-global-tick", "{what}");
            }
            Ok(())
        }
        PassOutcome::Err(e) => vfail!("C09/honest-pass-failed", "{what}: {e}"),
        PassOutcome::Panic(m) => vfail!("C09/honest-pass-panicked", "{what}: {m}"),
    }
}

/// The commit of one head fails after the engine has committed it: the provenance service the
/// pass runs against refuses the append (it lags the runtime by at least one tick on that
/// worldline). Everything the pass did - to the runtime and to that service - must be undone.
fn check9_stale_provenance(c: &Case9, probe: &mut Probe) -> Check {
    let mut w = build_world(&c.world);
    let mut clones: Vec<warp_core::ProvenanceService> = Vec::new();
    for (i, subs) in c.warmup.iter().enumerate() {
        clones.push(w.provenance.clone());
        submit_all(&mut w, &c.world, subs, 100 * i as u32, c.ticketed);
        check_ok_pass(&mut w, &format!("warm-up pass {i}"))?;
    }
    submit_all(&mut w, &c.world, &c.honest, 5000, c.ticketed);
    let order = expected_committers(&w);
    // the latest clone in which a runnable head's worldline lags
    let lagging = |p: &warp_core::ProvenanceService, w: &World, k: &WriterHeadKey| -> bool {
        let wl = wl_ix(&k.worldline_id).expect("known worldline");
        p.len(k.worldline_id).unwrap_or(0) < w.len(wl)
    };
    let Some(mut stale) = clones.into_iter().rev().find(|p| order.iter().any(|k| lagging(p, &w, k))) else {
        probe.class("no-lagging-service(nothing committed in warm-up or nothing runnable)");
        return Ok(());
    };
    let pos = order.iter().position(|k| lagging(&stale, &w, k)).expect("some head lags");
    let fkey = order[pos];
    let rt_before = fields(&format!("{:#?}", w.runtime));
    let pv_before = format!("{:#?}", stale);
    let pending_before: BTreeMap<WriterHeadKey, usize> = w.runtime.heads().iter().map(|(k, h)| (*k, h.inbox().pending_count())).collect();
    let fps_before: Vec<StateFp> = (0..w.n_wl() as u8).map(|wl| state_fp(w.frontier(wl))).collect();
    let faults_before = w.runtime.scheduler_fault_count();
    std::mem::swap(&mut w.provenance, &mut stale);
    let outcome = w.pass();
    std::mem::swap(&mut w.provenance, &mut stale);
    // `stale` is again the lagging service (as the pass left it); w.provenance the real one
    match &outcome {
        PassOutcome::Ok(recs) => vfail!("C09/failing-commit-reported-success/ProvenanceRefusesAppend", "pass whose head at position {pos} of {} cannot be appended returned Ok({} records)", order.len(), recs.len()),
        PassOutcome::Panic(m) => vfail!("C09/typed-error-surfaced-as-panic", "ProvenanceRefusesAppend: {m}"),
        PassOutcome::Err(_) => {}
    }
    let rt_after = fields(&format!("{:#?}", w.runtime));
    for (k, v) in &rt_before {
        if FAULT_EVIDENCE.contains(&k.as_str()) {
            continue;
        }
        if rt_after.get(k) != Some(v) {
            vfail!(format!("C09/failed-pass-left-effect/runtime.{k}"), "field `{k}` of WorldlineRuntime differs after a failed pass (append refused for the head at position {pos} of {}, worldline {:?})", order.len(), wl_ix(&fkey.worldline_id));
        }
    }
    if format!("{:#?}", stale) != pv_before {
        vfail!("C09/failed-pass-left-effect/provenance", "the provenance service the pass ran against differs after the failed pass (append refused at position {pos})");
    }
    for (k, h) in w.runtime.heads().iter() {
        vensure_eq!(h.inbox().pending_count(), pending_before[k], "C09/failed-pass-left-effect/inbox", "head {:?}", k.head_id);
    }
    for wl in 0..w.n_wl() as u8 {
        vensure!(state_fp(w.frontier(wl)) == fps_before[wl as usize], "C09/failed-pass-left-effect/state", "worldline {wl} (append refused at position {pos})");
        vensure_eq!(w.frontier(wl).tick_history().len() as u64, w.len(wl), "C09/failed-pass-left-effect/tick-history", "worldline {wl}: frontier history entries vs committed ticks");
    }
    vensure_eq!(w.runtime.scheduler_fault_count(), faults_before + 1, "C09/fault-evidence/count", "exactly one fault record expected");
    vensure!(w.runtime.is_runtime_faulted(), "C09/fault-scope/provenance-failure-not-runtime-scoped", "");
    let again = w.pass();
    vensure!(matches!(again, PassOutcome::Err(_)), "C09/quarantine/runtime-fault-did-not-block", "{:?}", again);
    // trusted recovery, then the runtime continues against the real service
    let fault = w.runtime.scheduler_faults().find(|f| matches!(f.status, warp_core::SchedulerFaultStatus::Active)).cloned().ok_or_else(|| Fail::new("C09/fault-evidence/missing", "no active fault"))?;
    let auth = SchedulerFaultRecoveryAuthority::assume_runtime_owner();
    w.runtime.resolve_scheduler_fault(&auth, fault.fault_id, [9; 32]).map_err(|e| Fail::new("C09/recovery/refused", format!("{e:?}")))?;
    check_ok_pass(&mut w, "pass after recovery from a refused append")?;
    for wl in 0..w.n_wl() as u8 {
        let len = w.len(wl);
        let r = w.provenance.replay_worldline_state_at(wl_id(wl), &w.initial[wl as usize], wt(len)).map_err(|e| Fail::new("C09/history-not-replayable-after-fault", format!("worldline {wl}: {e:?}")))?;
        vensure!(state_fp(&r) == state_fp(w.frontier(wl)), "C09/replay-differs-from-frontier-after-fault", "worldline {wl}");
    }
    probe.class("kind:ProvenanceRefusesAppend");
    probe.class(format!("position:{}of{}", pos.min(5), order.len().min(6)));
    probe.class(format!("append-refused:earlier-heads-on-same-worldline={}", order[..pos].iter().filter(|k| k.worldline_id == fkey.worldline_id).count().min(2)));
    if pos > 0 {
        probe.nontrivial();
    }
    Ok(())
}

fn check9(_ctx: &Ctx, c: &Case9, probe: &mut Probe) -> Check {
    if matches!(c.kind, FailKind::ProvenanceRefusesAppend) {
        return check9_stale_provenance(c, probe);
    }
    let mut w = build_world(&c.world);
    for (i, subs) in c.warmup.iter().enumerate() {
        submit_all(&mut w, &c.world, subs, 100 * i as u32, c.ticketed);
        check_ok_pass(&mut w, &format!("warm-up pass {i}"))?;
    }
    // the failing pass: honest work goes to the other heads, the failing head holds the
    // failing intent (plus whatever a budgeted inbox left pending earlier)
    let fwl = w.wl_of(c.fail_at.0);
    let fh = w.head_of(fwl, c.fail_at.1);
    let fkey = head_key(fwl, fh);
    // state-dependent failures (apply errors) must not be invalidated by an earlier head of
    // the same worldline changing the state first: such heads get no new work in this pass
    let honest: Vec<(u8, u8, CandSeed)> = c.honest.iter().cloned().filter(|(wl, h, _)| {
        let wl2 = w.wl_of(*wl);
        let k = head_key(wl2, w.head_of(wl2, *h));
        k != fkey && !(wl2 == fwl && k < fkey)
    }).collect();
    submit_all(&mut w, &c.world, &honest, 5000, c.ticketed);
    let fprog = failing_prog(&w, fwl, &c.kind);
    let fenv = IngressEnvelope::local_intent(IngressTarget::ExactHead { key: fkey }, kind(0), encode_prog(&fprog, 777));
    match w.submit(fenv.clone()) {
        Ok(IngressDisposition::Accepted { .. }) => {}
        other => {
            probe.class(format!("failing-intent-not-accepted:{:?}", other.map(|d| format!("{d:?}").chars().take(20).collect::<String>())));
            return Ok(());
        }
    }
    // the failing intent must be part of the admitted batch
    if let PolicySeed::Budgeted(n) = &c.world.worldlines[fwl as usize].1[fh as usize].policy {
        let pending = w.runtime.heads().get(&fkey).map(|h| h.inbox().pending_count()).unwrap_or(0);
        if pending > *n as usize {
            probe.class("failing-intent-beyond-budget");
            return Ok(());
        }
    }
    let order = expected_committers(&w);
    let Some(pos) = order.iter().position(|k| *k == fkey) else {
        probe.class("failing-head-not-runnable(budget 0)");
        return Ok(());
    };
    let rt_before = fields(&format!("{:#?}", w.runtime));
    let pv_before = format!("{:#?}", w.provenance);
    let pending_before: BTreeMap<WriterHeadKey, usize> = w.runtime.heads().iter().map(|(k, h)| (*k, h.inbox().pending_count())).collect();
    let fps_before: Vec<StateFp> = (0..w.n_wl() as u8).map(|wl| state_fp(w.frontier(wl))).collect();
    let faults_before = w.runtime.scheduler_fault_count();
    let outcome = w.pass();
    let expect_runtime_scope = matches!(c.kind, FailKind::Panic | FailKind::UndeclaredRead | FailKind::UndeclaredWrite | FailKind::CrossWarpWrite);
    match (&outcome, expect_runtime_scope) {
        (PassOutcome::Ok(recs), false) if recs.iter().any(|r| r.head_key.worldline_id == fkey.worldline_id && r.head_key < fkey) => {
            // an earlier head of the same worldline (left-over budgeted work) changed the state
            // the failing program was written against
            probe.class("stale-failing-program");
            return Ok(());
        }
        (PassOutcome::Ok(recs), _)
            if recs.iter().filter(|r| r.head_key == fkey).any(|r| {
                // the failing intent was admitted together with left-over budgeted work of the
                // same head and lost the footprint conflict against it: a lawful rejection
                // (a receipt, not a fault) - its program never ran, so nothing failed
                let ws = w.frontier(fwl);
                let (_, receipt, _) = &ws.tick_history()[(r.worldline_tick_after.as_u64() - 1) as usize];
                receipt.entries().iter().any(|e| e.scope.local_id.0 == fenv.ingress_id() && matches!(e.disposition, warp_core::TickReceiptDisposition::Rejected(_)))
            }) =>
        {
            probe.class("failing-intent-lawfully-rejected(conflict with left-over work of its head)");
            return Ok(());
        }
        (PassOutcome::Ok(recs), _) => {
            vfail!(format!("C09/failing-commit-reported-success/{:?}", c.kind), "pass with a failing head at position {pos} of {} returned Ok({} records)", order.len(), recs.len());
        }
        (PassOutcome::Panic(_), true) | (PassOutcome::Err(_), false) => {}
        (PassOutcome::Panic(m), false) => vfail!("C09/typed-error-surfaced-as-panic", "{:?}: {m}", c.kind),
        (PassOutcome::Err(e), true) => {
            // an unwinding executor is re-raised by contract; a typed error here is only
            // acceptable if it carries the same information
            vfail!("C09/executor-panic-not-reraised", "{:?}: pass returned Err({e}) instead of re-raising", c.kind);
        }
    }
    // all-or-nothing: every field except fault evidence is byte-identical
    let rt_after = fields(&format!("{:#?}", w.runtime));
    for (k, v) in &rt_before {
        if FAULT_EVIDENCE.contains(&k.as_str()) {
            continue;
        }
        if rt_after.get(k) != Some(v) {
            vfail!(format!("C09/failed-pass-left-effect/runtime.{k}"), "field `{k}` of WorldlineRuntime differs after a failed pass (failing head at position {pos} of {}, kind {:?})", order.len(), c.kind);
        }
    }
    vensure!(rt_after.keys().all(|k| rt_before.contains_key(k)), "C09/harness/field-set-changed", "");
    if format!("{:#?}", w.provenance) != pv_before {
        vfail!("C09/failed-pass-left-effect/provenance", "ProvenanceService differs after a failed pass (failing head at position {pos})");
    }
    for (k, h) in w.runtime.heads().iter() {
        vensure_eq!(h.inbox().pending_count(), pending_before[k], "C09/failed-pass-left-effect/inbox", "head {:?}", k.head_id);
    }
    for wl in 0..w.n_wl() as u8 {
        vensure!(state_fp(w.frontier(wl)) == fps_before[wl as usize], "C09/failed-pass-left-effect/state", "worldline {wl}");
    }
    // only fault evidence is added, with the documented scope
    vensure_eq!(w.runtime.scheduler_fault_count(), faults_before + 1, "C09/fault-evidence/count", "exactly one fault record expected");
    let fault = w.runtime.scheduler_faults().last().cloned().ok_or_else(|| Fail::new("C09/fault-evidence/missing", "no fault"))?;
    let fault = w.runtime.scheduler_faults().find(|f| matches!(f.status, warp_core::SchedulerFaultStatus::Active) && (f.scope == SchedulerFaultScope::Runtime || f.scope == SchedulerFaultScope::Head(fkey))).cloned().unwrap_or(fault);
    if expect_runtime_scope {
        vensure!(fault.scope == SchedulerFaultScope::Runtime && w.runtime.is_runtime_faulted(), "C09/fault-scope/unwinding-executor-not-runtime-scoped", "{:?}: {:?}", c.kind, fault.scope);
        // quarantined until trusted recovery: further passes are refused and change nothing
        let again = w.pass();
        vensure!(matches!(again, PassOutcome::Err(_)), "C09/quarantine/runtime-fault-did-not-block", "{:?}", again);
    } else {
        vensure!(fault.scope == SchedulerFaultScope::Head(fkey), "C09/fault-scope/head-scoped-cause-blocks-wider", "{:?}: scope {:?}", c.kind, fault.scope);
        vensure!(w.runtime.is_head_faulted(&fkey) && !w.runtime.is_runtime_faulted(), "C09/quarantine/head-not-quarantined", "");
        vensure!(!SchedulerCoordinator::peek_order(&w.runtime).contains(&fkey), "C09/quarantine/faulted-head-still-runnable", "");
        // unrelated heads keep committing; the faulted head is skipped
        if order.len() > 1 {
            let expect = expected_committers(&w);
            vensure!(!expect.contains(&fkey) && expect.len() == order.len() - 1, "C09/quarantine/unrelated-heads-blocked", "runnable after head fault: {} of {}", expect.len(), order.len());
            check_ok_pass(&mut w, "pass after a head-scoped fault")?;
            probe.class("others-continue-after-head-fault");
        }
        // eligibility changes alone must not re-admit
        let _ = w.runtime.set_head_eligibility(fkey, warp_core::HeadEligibility::Admitted);
        vensure!(w.runtime.is_head_faulted(&fkey) && !SchedulerCoordinator::peek_order(&w.runtime).contains(&fkey), "C09/quarantine/eligibility-change-readmitted-head", "");
    }
    // trusted recovery re-admits and keeps the record
    if c.resolve {
        let auth = SchedulerFaultRecoveryAuthority::assume_runtime_owner();
        w.runtime.resolve_scheduler_fault(&auth, fault.fault_id, [9; 32]).map_err(|e| Fail::new("C09/recovery/refused", format!("{e:?}")))?;
        vensure!(!w.runtime.is_runtime_faulted() && !w.runtime.is_head_faulted(&fkey), "C09/recovery/not-readmitted", "");
        vensure!(w.runtime.scheduler_fault(&fault.fault_id).is_some(), "C09/recovery/record-dropped", "");
        vensure!(w.runtime.resolve_scheduler_fault(&auth, fault.fault_id, [9; 32]).is_err(), "C09/recovery/double-resolve-accepted", "");
        // the failing intent is still pending; it fails again if run. Drain it by faulting once
        // more is not what we want: check instead that honest work on OTHER heads proceeds.
        probe.class("resolved");
    }
    // further passes and the history stays replayable
    if !w.runtime.is_runtime_faulted() && (!c.resolve || !matches!(c.kind, FailKind::Panic | FailKind::UndeclaredRead | FailKind::UndeclaredWrite | FailKind::CrossWarpWrite)) && !c.resolve {
        for (i, subs) in c.after.iter().enumerate() {
            let filtered: Vec<(u8, u8, CandSeed)> = subs.iter().cloned().filter(|(wl, h, _)| {
                let wl2 = w.wl_of(*wl);
                head_key(wl2, w.head_of(wl2, *h)) != fkey
            }).collect();
            submit_all(&mut w, &c.world, &filtered, 9000 + 100 * i as u32, c.ticketed);
            check_ok_pass(&mut w, &format!("pass {i} after the fault"))?;
        }
    }
    for wl in 0..w.n_wl() as u8 {
        let len = w.len(wl);
        let r = w.provenance.replay_worldline_state_at(wl_id(wl), &w.initial[wl as usize], wt(len)).map_err(|e| Fail::new("C09/history-not-replayable-after-fault", format!("worldline {wl}: {e:?}")))?;
        vensure!(state_fp(&r) == state_fp(w.frontier(wl)), "C09/replay-differs-from-frontier-after-fault", "worldline {wl}");
    }
    probe.class(format!("kind:{:?}", c.kind));
    if c.ticketed {
        probe.class(format!("ticketed:correlations={}", w.runtime.receipt_correlations().count().min(6)));
    }
    probe.class(format!("position:{}of{}", pos.min(5), order.len().min(6)));
    if pos > 0 {
        probe.nontrivial();
    }
    let _: BTreeSet<u8> = BTreeSet::new();
    Ok(())
}

pub fn subs(_ctx: &Ctx) -> Vec<Box<dyn Sub>> {
    vec![prop_sub("failing-head-at-every-position", 1_500, 50_000, case9(), check9)]
}
