//! Shared history generation for the runtime-group checks.

use proptest::prelude::*;
use serde::{Deserialize, Serialize};
use vkit::Fail;
use vmodel::rt::*;
use warp_core::{ProvenanceService, ProvenanceStore};

#[derive(Clone, Debug, Serialize, Deserialize)]
pub struct HistCase {
    pub world: WorldSeed,
    pub steps: Vec<Step>,
}

pub fn hist_case(max_wl: usize, max_heads: usize, max_steps: usize) -> impl Strategy<Value = HistCase> {
    (world_seed(max_wl, max_heads), prop::collection::vec(step_seed(), 1..max_steps)).prop_map(|(world, steps)| HistCase { world, steps })
}

/// Run a script; a final pass flushes pending work so that histories are rarely empty.
pub fn run(case: &HistCase, flush: bool) -> (World, Vec<String>) {
    let mut w = build_world(&case.world);
    let mut tags = Vec::new();
    for s in &case.steps {
        tags.push(w.apply_step(&case.world, s));
    }
    if flush {
        tags.push(w.apply_step(&case.world, &Step::Pass));
    }
    (w, tags)
}

/// Histories in which every intent enters through the witnessed + ticketed path, with restarts.
pub fn hist_case_ticketed(max_wl: usize, max_heads: usize, max_steps: usize) -> impl Strategy<Value = HistCase> {
    (world_seed(max_wl, max_heads), prop::collection::vec(step_seed_ticketed(), 1..max_steps)).prop_map(|(world, steps)| HistCase { world, steps })
}

/// A checkpoint-free copy of the service (rebuilt from entries).
pub fn strip_checkpoints(w: &World) -> Result<ProvenanceService, Fail> {
    let mut p = ProvenanceService::new();
    for wl in 0..w.n_wl() as u8 {
        p.register_worldline(wl_id(wl), &w.initial[wl as usize]).map_err(|e| Fail::new("C07/harness/register", format!("{e:?}")))?;
        for t in 0..w.len(wl) {
            let e = w.provenance.entry(wl_id(wl), wt(t)).map_err(|e| Fail::new("C07/harness/entry", format!("{e:?}")))?;
            p.append_local_commit(e).map_err(|e| Fail::new("C05/append-refuses-own-history", format!("re-appending the recorded entry {t} of worldline {wl} is refused: {e:?}")))?;
        }
    }
    Ok(p)
}

