//! Shared history generation for the runtime-group checks.

use proptest::prelude::*;
use serde::{Deserialize, Serialize};
use vmodel::rt::*;

#[derive(Clone, Debug, Serialize, Deserialize)]
pub struct HistCase {
    pub world: WorldSeed,
    pub steps: Vec<Step>,
}

pub fn hist_case(max_wl: usize, max_heads: usize, max_steps: usize) -> impl Strategy<Value = HistCase> {
    (world_seed(max_wl, max_heads), prop::collection::vec(step_seed(), 1..max_steps)).prop_map(|(world, steps)| HistCase { world, steps })
}

/// Run a script; a final pass flushes pending work so that histories are rarely empty.
pub fn run(case: &HistCase, flush: bool) -> (World, Vec<String>) {
    let mut w = build_world(&case.world);
    let mut tags = Vec::new();
    for s in &case.steps {
        tags.push(w.apply_step(&case.world, s));
    }
    if flush {
        tags.push(w.apply_step(&case.world, &Step::Pass));
    }
    (w, tags)
}
