//! Store-level op sequences with rollback (shared by C05 and C07).
//!
//! Two branches that share a prefix are taken from a generated runtime history and a live
//! fork of it that continued on its own. A fresh `ProvenanceService` is then driven through a
//! generated sequence of `append / mark (checkpoint_for) / restore / checkpoint / switch
//! branch` operations against a plain model (entry count, checkpoint ticks, marks). After
//! every operation the service must hold exactly the model's history: its length, and for
//! every tick a replay (service-level and fresh cursor) equal to the branch's own ground
//! truth - whatever was rolled back must have left nothing behind.

use crate::hist::*;
use proptest::prelude::*;
use serde::{Deserialize, Serialize};
use std::collections::BTreeSet;
use vkit::{prop_sub, vensure, vensure_eq, vfail, Check, Ctx, Fail, Probe, Sub};
use vmodel::rt::*;
use vmodel::universe::warp_id;
use warp_core::{CursorId, CursorRole, PlaybackCursor, ProvenanceEntry, ProvenanceService, ProvenanceStore, WorldlineState};

#[derive(Clone, Debug, Serialize, Deserialize)]
pub struct CaseOps {
    pub hist: HistCase,
    pub fork: (u8, u16),
    pub after: Vec<(bool, Step)>,
    /// (op selector, argument)
    pub ops: Vec<(u8, u16)>,
}

fn case_ops() -> impl Strategy<Value = CaseOps> {
    (hist_case(1, 2, 30), (any::<u8>(), any::<u16>()), prop::collection::vec((any::<bool>(), step_seed()), 4..24), prop::collection::vec((0u8..9, any::<u16>()), 4..40))
        .prop_map(|(hist, fork, after, ops)| CaseOps { hist, fork, after, ops })
}

fn rewrite(mut e: ProvenanceEntry, from: warp_core::WorldlineId, to: warp_core::WorldlineId) -> ProvenanceEntry {
    e.worldline_id = to;
    if let Some(h) = e.head_key.as_mut() {
        if h.worldline_id == from {
            h.worldline_id = to;
        }
    }
    for p in &mut e.parents {
        if p.worldline_id == from {
            p.worldline_id = to;
        }
    }
    e
}

struct Model {
    len: u64,
    cps: BTreeSet<u64>,
}

fn check_ops(ctx: &Ctx, c: &CaseOps, probe: &mut Probe) -> Check {
    let pfx = ctx.id.as_str();
    let (mut w, _) = run(&c.hist, true);
    let parent = w.wl_of(c.fork.0);
    let plen = w.len(parent);
    if plen == 0 {
        probe.class("empty-history");
        return Ok(());
    }
    let f = vkit::pick_idx(c.fork.1, plen as usize) as u64;
    let child = w.fork_worldline(parent, f).map_err(|e| Fail::new(format!("{pfx}/live-fork-error"), e))?;
    for (to_child, s) in &c.after {
        let s2 = match (to_child, s) {
            (true, Step::Submit { kind, prog, salt, .. }) => Step::Submit { wl: child, route: Route::Default, kind: *kind, prog: prog.clone(), salt: *salt },
            (_, s) => s.clone(),
        };
        w.apply_step(&c.hist.world, &s2);
    }
    w.apply_step(&c.hist.world, &Step::Pass);
    let base = strip_checkpoints(&w)?;
    let pid = wl_id(parent);
    let cid = wl_id(child);
    let init = w.initial[parent as usize].clone();
    let branches: [Vec<ProvenanceEntry>; 2] = [
        (0..w.len(parent)).map(|t| base.entry(pid, wt(t))).collect::<Result<_, _>>().map_err(|e| Fail::new(format!("{pfx}/harness/entry"), format!("{e:?}")))?,
        (0..w.len(child)).map(|t| base.entry(cid, wt(t)).map(|e| rewrite(e, cid, pid))).collect::<Result<_, _>>().map_err(|e| Fail::new(format!("{pfx}/harness/entry"), format!("{e:?}")))?,
    ];
    let truth_of = |id, n: u64| -> Result<Vec<WorldlineState>, Fail> { (0..=n).map(|t| base.replay_worldline_state_at(id, &init, wt(t)).map_err(|e| Fail::new(format!("{pfx}/harness/truth"), format!("{e:?}")))).collect() };
    let truths: [Vec<WorldlineState>; 2] = [truth_of(pid, w.len(parent))?, truth_of(cid, w.len(child))?];
    let diverged = branches[0].len() as u64 > f + 1 && branches[1].len() as u64 > f + 1 && branches[0][(f + 1) as usize].expected.commit_hash != branches[1][(f + 1) as usize].expected.commit_hash;

    let mut s = ProvenanceService::new();
    s.register_worldline(pid, &init).map_err(|e| Fail::new(format!("{pfx}/harness/register"), format!("{e:?}")))?;
    let mut m = Model { len: 0, cps: BTreeSet::new() };
    let mut marks = Vec::new(); // (rollback marker, model length, model checkpoints, branch)
    let mut cur = 0usize;
    let mut evals = 0u64;
    let (mut rolled_back_checkpoint, mut regrown_past_it) = (None::<u64>, false);
    let mut switched_after_restore = false;
    for (op, arg) in &c.ops {
        let what;
        match op {
            0..=3 => {
                // append the next entry of the current branch
                if (m.len as usize) < branches[cur].len() {
                    let e = branches[cur][m.len as usize].clone();
                    s.append_local_commit(e).map_err(|e| Fail::new(format!("{pfx}/store-ops/append-of-genuine-next-entry-refused"), format!("branch {cur} tick {}: {e:?}", m.len)))?;
                    m.len += 1;
                    if let Some(t) = rolled_back_checkpoint {
                        if m.len >= t {
                            regrown_past_it = true;
                        }
                    }
                    what = "append";
                } else {
                    what = "append:branch-exhausted";
                }
            }
            4 => {
                let cp = s.checkpoint_for([pid]).map_err(|e| Fail::new(format!("{pfx}/harness/checkpoint_for"), format!("{e:?}")))?;
                marks.push((cp, m.len, m.cps.clone(), cur));
                what = "mark";
            }
            5 => {
                if marks.is_empty() {
                    what = "restore:no-mark";
                } else {
                    let k = vkit::pick_idx(*arg, marks.len());
                    let (cp, len, cps, _) = marks[k].clone();
                    if len <= m.len {
                        for t in &m.cps {
                            if *t > len && !cps.contains(t) {
                                rolled_back_checkpoint = Some(rolled_back_checkpoint.map(|x: u64| x.min(*t)).unwrap_or(*t));
                            }
                        }
                        s.restore(&cp);
                        m.len = len;
                        m.cps = cps;
                        marks.truncate(k + 1);
                        what = "restore";
                    } else {
                        what = "restore:mark-is-ahead";
                    }
                }
            }
            6 | 7 => {
                // record a checkpoint of the (ground-truth) state at the current tip
                let st = &truths[cur][m.len as usize];
                s.checkpoint(pid, st).map_err(|e| Fail::new(format!("{pfx}/store-ops/checkpoint-of-genuine-state-refused"), format!("tick {}: {e:?}", m.len)))?;
                m.cps.insert(m.len);
                what = "checkpoint";
            }
            _ => {
                if m.len <= f + 1 {
                    cur = 1 - cur;
                    if rolled_back_checkpoint.is_some() {
                        switched_after_restore = true;
                    }
                    what = "switch-branch";
                } else {
                    what = "switch:not-on-shared-prefix";
                }
            }
        }
        probe.class(format!("op:{what}"));
        // the service holds exactly the model's history
        vensure_eq!(s.len(pid).unwrap_or(u64::MAX), m.len, format!("{pfx}/store-ops/length"), "after {what}");
        if let Some(cp) = s.checkpoint_before(pid, wt(u64::MAX)) {
            vensure!(cp.worldline_tick.as_u64() <= m.len, format!("{pfx}/store-ops/checkpoint-beyond-history"), "after {what}: history has {} entries, a checkpoint at tick {} is retained", m.len, cp.worldline_tick.as_u64());
        }
        for t in 0..=m.len {
            let want = &truths[cur][t as usize];
            let r = match s.replay_worldline_state_at(pid, &init, wt(t)) {
                Ok(r) => r,
                Err(e) => vfail!(format!("{pfx}/store-ops/untampered-history-fails-to-replay"), "after {what} (model: {} entries, checkpoints {:?}) tick {t}: {e:?}", m.len, m.cps),
            };
            if state_fp(&r) != state_fp(want) || r.tick_history() != want.tick_history() {
                vfail!(format!("{pfx}/store-ops/replay-differs-from-retained-history"), "after {what} (model: {} entries, checkpoints {:?}) tick {t}: replay yields another state/commit chain than the retained entries", m.len, m.cps);
            }
            let mut cu = PlaybackCursor::new(CursorId([5; 32]), pid, warp_id(0), CursorRole::Reader, &init, wt(m.len));
            match cu.seek_to(wt(t), &s, &init) {
                Ok(()) => {}
                Err(e) => vfail!(format!("{pfx}/store-ops/untampered-history-fails-to-replay"), "cursor after {what} tick {t}: {e:?}"),
            }
            if state_fp(cu.materialized_state()) != state_fp(want) {
                vfail!(format!("{pfx}/store-ops/replay-differs-from-retained-history"), "cursor after {what} tick {t}");
            }
            evals += 2;
        }
        vensure!(s.replay_worldline_state_at(pid, &init, wt(m.len + 1)).is_err(), format!("{pfx}/store-ops/history-beyond-tip"), "after {what}");
    }
    probe.evals(evals);
    if diverged {
        probe.class("branches-diverge");
    }
    if regrown_past_it {
        probe.class("regrown-past-a-rolled-back-checkpoint");
        probe.nontrivial();
    }
    if switched_after_restore && diverged {
        probe.class("switched-branch-after-rollback");
    }
    Ok(())
}

pub fn sub() -> Box<dyn Sub> {
    prop_sub("store-ops-rollback-branches", 1_200, 30_000, case_ops(), check_ops)
}
