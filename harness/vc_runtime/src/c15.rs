//! C15 — speculative lanes fork faithfully and settle lawfully.
//!
//! Generated runs: a base worldline produces some history; one or two strands are forked
//! through `WorldlineRuntime::fork_strand` (the second possibly from the first strand's child
//! lane: a chain) at generated ticks, with Shared or AuthorOnly posture; then base and strand
//! lanes are ticked by the ordinary scheduler with generated intents whose data-driven
//! programs are realised against the lane they are sent to (the node/edge universe is small,
//! so disjoint, read-overlapping and write-overlapping footprints all occur); finally every
//! strand is compared, planned and settled (inner strand first) under a generated plural
//! policy, optionally with a failure injected into the last fallible step of settlement.
//!
//! Oracles: fork copies exactly the parent's prefix (entries equal modulo lane id, child
//! state = parent's state at that tick, pinned basis = the parent's recorded commit, fresh
//! heads only); invalid forks change nothing; lane isolation as a metamorphic relation
//! (dropping every strand-directed submission leaves each base lane's per-tick roots, commit
//! ids and patch digests unchanged, and vice versa); compare/plan are pure and deterministic;
//! settlement is all-or-nothing; imported entries give the parent the strand's values on the
//! slots the strand wrote; conflict/plural entries leave the parent's state root unchanged;
//! no slot the parent wrote since the anchor changes value; nothing imports after the first
//! retained conflict/plural; the parent replays from its own history to its live state.

use crate::hist::*;
use proptest::prelude::*;
use serde::{Deserialize, Serialize};
use std::collections::BTreeSet;
use vkit::{prop_sub, vensure, vensure_eq, vfail, Check, Ctx, Fail, Probe, Sub};
use vmodel::rt::*;
use warp_core::{
    AttachmentOwner, BraidMemberRef, BraidShell, BraidShellMember, BraidShellOutcome, CausalPosture, ForkStrandReceipt,
    ForkStrandRequest, InboxPolicy, MemberVerdict, PlaybackMode, ProvenanceEntry, ProvenanceEventKind, ProvenanceService,
    ProvenanceStore, SettlementDecision, SettlementError, SettlementPolicy, SettlementService, SlotId, StrandId,
    StrandRevalidationState, WorldlineRuntime, WorldlineState, WriterHead,
};

#[derive(Clone, Debug, Serialize, Deserialize)]
pub struct StrandSeed {
    /// fork from the previous strand's child lane (a chain) instead of the base lane
    pub from_strand: bool,
    pub tick: u16,
    pub shared: bool,
}

#[derive(Clone, Debug, Serialize, Deserialize)]
pub struct Case15 {
    pub world: WorldSeed,
    pub pre: Vec<Step>,
    pub strands: Vec<StrandSeed>,
    pub post: Vec<Step>,
    pub plural: bool,
    pub inject: bool,
    pub pin: bool,
}

fn lane_step() -> impl Strategy<Value = Step> {
    // retries pick by submission index, which differs between the full run and the runs with
    // one lane class dropped; restarts drop strands: neither belongs to this check
    step_seed().prop_map(|s| match s {
        Step::Retry { .. } | Step::RetryPlain { .. } | Step::Restart => Step::Pass,
        other => other,
    })
}

fn case15() -> impl Strategy<Value = Case15> {
    (
        world_seed(1, 2),
        prop::collection::vec(lane_step(), 3..16),
        prop::collection::vec((any::<bool>(), any::<u16>(), prop::bool::weighted(0.9)).prop_map(|(from_strand, tick, shared)| StrandSeed { from_strand, tick, shared }), 1..=2),
        prop::collection::vec(lane_step(), 2..28),
        any::<bool>(),
        prop::bool::weighted(0.3),
        any::<bool>(),
    )
        .prop_map(|(world, pre, strands, post, plural, inject, pin)| Case15 { world, pre, strands, post, plural, inject, pin })
}

#[derive(Clone, Copy, PartialEq, Eq, Debug)]
enum Drop {
    Nothing,
    StrandSubmissions,
    BaseSubmissions,
}

#[derive(Clone, Debug)]
struct StrandInfo {
    id: StrandId,
    parent: u8,
    child: u8,
    fork_tick: u64,
    shared: bool,
}

fn fp_pair(rt: &WorldlineRuntime, pv: &ProvenanceService) -> ([u8; 32], [u8; 32]) {
    (vkit::debug_hash(rt), vkit::debug_hash(pv))
}

fn rewrite(mut e: ProvenanceEntry, from: warp_core::WorldlineId, to: warp_core::WorldlineId) -> ProvenanceEntry {
    e.worldline_id = to;
    if let Some(h) = e.head_key.as_mut() {
        if h.worldline_id == from {
            h.worldline_id = to;
        }
    }
    for p in &mut e.parents {
        if p.worldline_id == from {
            p.worldline_id = to;
        }
    }
    e
}

/// Slots whose content the ops of a patch set or clear.
fn op_written_slots(ops: &[warp_core::WarpOp]) -> BTreeSet<SlotId> {
    use warp_core::{AttachmentKey, EdgeKey, WarpOp};
    let mut out = BTreeSet::new();
    for op in ops {
        match op {
            WarpOp::UpsertNode { node, .. } => {
                out.insert(SlotId::Node(*node));
            }
            WarpOp::DeleteNode { node } => {
                out.insert(SlotId::Node(*node));
                out.insert(SlotId::Attachment(AttachmentKey::node_alpha(*node)));
            }
            WarpOp::UpsertEdge { warp_id, record } => {
                out.insert(SlotId::Edge(EdgeKey { warp_id: *warp_id, local_id: record.id }));
            }
            WarpOp::DeleteEdge { warp_id, edge_id, .. } => {
                out.insert(SlotId::Edge(EdgeKey { warp_id: *warp_id, local_id: *edge_id }));
                out.insert(SlotId::Attachment(AttachmentKey::edge_beta(EdgeKey { warp_id: *warp_id, local_id: *edge_id })));
            }
            WarpOp::SetAttachment { key, .. } => {
                out.insert(SlotId::Attachment(*key));
            }
            _ => {}
        }
    }
    out
}

/// Content of one slot of a worldline state, rendered.
fn slot_value(ws: &WorldlineState, slot: &SlotId) -> String {
    match slot {
        SlotId::Node(k) => format!("{:?}", ws.store(&k.warp_id).and_then(|s| s.node(&k.local_id))),
        SlotId::Edge(k) => {
            let rec = ws.store(&k.warp_id).and_then(|s| s.iter_edges().flat_map(|(_, es)| es.iter()).find(|e| e.id == k.local_id).map(|e| (e.from, e.to, e.ty)));
            format!("{rec:?}")
        }
        SlotId::Attachment(k) => match &k.owner {
            AttachmentOwner::Node(n) => format!("{:?}/{:?}", k.plane, ws.store(&n.warp_id).and_then(|s| s.node_attachment(&n.local_id))),
            AttachmentOwner::Edge(e) => format!("{:?}/{:?}", k.plane, ws.store(&e.warp_id).and_then(|s| s.edge_attachment(&e.local_id))),
        },
        SlotId::Port(_) => "port".into(),
    }
}

fn invalid_fork_changes_nothing(w: &mut World, parent: u8, what: &str, req: ForkStrandRequest) -> Check {
    let before = fp_pair(&w.runtime, &w.provenance);
    match w.runtime.fork_strand(&mut w.provenance, req) {
        Ok(_) => vfail!(format!("C15/fork/invalid-request-accepted/{what}"), "fork of lane {parent}"),
        Err(_) => {
            let after = fp_pair(&w.runtime, &w.provenance);
            vensure!(before.0 == after.0, format!("C15/fork/failed-fork-left-effect/runtime/{what}"), "");
            vensure!(before.1 == after.1, format!("C15/fork/failed-fork-left-effect/provenance/{what}"), "");
        }
    }
    Ok(())
}

/// Run the script; `drop` skips post-fork submissions of one lane class.
fn run_variant(c: &Case15, drop: Drop, probe: &mut Probe) -> Result<Option<(World, Vec<StrandInfo>, usize)>, Fail> {
    let mut w = build_world(&c.world);
    for s in &c.pre {
        w.apply_step(&c.world, s);
    }
    w.apply_step(&c.world, &Step::Pass);
    let n_base = w.n_wl();
    let mut strands: Vec<StrandInfo> = Vec::new();
    for (i, ss) in c.strands.iter().enumerate() {
        let parent = match (ss.from_strand, strands.last()) {
            (true, Some(prev)) => prev.child,
            _ => 0,
        };
        let plen = w.len(parent);
        if plen == 0 {
            return Ok(None);
        }
        let f = vkit::pick_idx(ss.tick, plen as usize) as u64;
        let label = format!("verif-strand-{i}");
        if drop == Drop::Nothing {
            // invalid forks first: each must leave runtime and provenance untouched
            let child_id = wl_id(w.n_wl() as u8);
            let head = || WriterHead::with_routing(head_key(w.n_wl() as u8, 0), PlaybackMode::Play, InboxPolicy::AcceptAll, None, true);
            let mk = |fork_tick: u64, child, heads: Vec<WriterHead>| ForkStrandRequest { strand_id: warp_core::make_strand_id(&label), source_lane_id: wl_id(parent), fork_tick: wt(fork_tick), child_worldline_id: child, writer_heads: heads, retention_posture: retention_posture(ss.shared) };
            let reqs = vec![
                ("fork-tick-out-of-range", mk(plen, child_id, vec![head()])),
                ("child-id-taken", mk(f, wl_id(parent), vec![head()])),
                ("duplicate-heads", mk(f, child_id, vec![head(), head()])),
                ("head-of-another-lane", mk(f, child_id, vec![WriterHead::with_routing(head_key(parent, 0), PlaybackMode::Play, InboxPolicy::AcceptAll, None, true)])),
            ];
            for (what, req) in reqs {
                invalid_fork_changes_nothing(&mut w, parent, what, req)?;
            }
        }
        let parent_heads_before: Vec<_> = w.runtime.heads().iter().map(|(k, _)| *k).collect();
        let (child, receipt) = w.fork_strand(parent, f, ss.shared, &label).map_err(|e| Fail::new("C15/fork/valid-fork-refused", format!("fork of lane {parent} at {f}: {e}")))?;
        if drop == Drop::Nothing {
            check_fork(&w, parent, child, f, &receipt, &parent_heads_before)?;
        }
        strands.push(StrandInfo { id: receipt.strand_id, parent, child, fork_tick: f, shared: ss.shared });
    }
    if c.pin && strands.len() == 2 && drop == Drop::Nothing {
        // a read-only support pin between the two strands must not change either lane
        let (a, b) = (&strands[1], &strands[0]);
        let before: Vec<StateFp> = (0..w.n_wl() as u8).map(|l| state_fp(w.frontier(l))).collect();
        let t = w.len(b.child).saturating_sub(1);
        if w.runtime.pin_support(&w.provenance, a.id, b.id, wt(t)).is_ok() {
            probe.class("support-pin");
        }
        let after: Vec<StateFp> = (0..w.n_wl() as u8).map(|l| state_fp(w.frontier(l))).collect();
        vensure!(before == after, "C15/pin/support-pin-changed-a-lane", "");
    } else if c.pin && strands.len() == 2 {
        let (a, b) = (&strands[1], &strands[0]);
        let t = w.len(b.child).saturating_sub(1);
        let _ = w.runtime.pin_support(&w.provenance, a.id, b.id, wt(t));
    }
    for s in &c.post {
        let lane = match s {
            Step::Submit { wl, .. } | Step::SubmitTicketed { wl, .. } => Some(w.wl_of(*wl)),
            _ => None,
        };
        if let Some(l) = lane {
            let is_strand = (l as usize) >= n_base;
            if (drop == Drop::StrandSubmissions && is_strand) || (drop == Drop::BaseSubmissions && !is_strand) {
                continue;
            }
        }
        // per-pass isolation: a lane without a commit in this pass keeps its content
        let before: Vec<(u64, StateFp)> = (0..w.n_wl() as u8).map(|l| (w.len(l), state_fp(w.frontier(l)))).collect();
        let tag = w.apply_step(&c.world, s);
        if tag.starts_with("pass:ok") {
            let recs = w.pass_records.last().cloned().unwrap_or_default();
            for l in 0..w.n_wl() as u8 {
                let committed = recs.iter().filter(|r| r.head_key.worldline_id == wl_id(l)).count() as u64;
                vensure_eq!(w.len(l), before[l as usize].0 + committed, "C15/isolation/history-grew-without-own-commit", "lane {l}");
                if committed == 0 {
                    vensure!(state_fp(w.frontier(l)) == before[l as usize].1, "C15/isolation/lane-changed-without-own-commit", "lane {l} changed in a pass in which only other lanes committed");
                }
            }
        } else if tag == "pass:err" || tag == "pass:panic" {
            probe.class("script-pass-failed");
            return Ok(None);
        }
    }
    Ok(Some((w, strands, n_base)))
}

fn check_fork(w: &World, parent: u8, child: u8, f: u64, receipt: &ForkStrandReceipt, heads_before: &[warp_core::WriterHeadKey]) -> Check {
    let (pid, cid) = (wl_id(parent), wl_id(child));
    let basis = &receipt.fork_basis_ref;
    let pe = w.provenance.entry(pid, wt(f)).map_err(|e| Fail::new("C15/harness/entry", format!("{e:?}")))?;
    vensure!(basis.source_lane_id == pid && basis.fork_tick == wt(f) && basis.commit_hash == pe.expected.commit_hash && basis.boundary_hash == pe.expected.state_root && basis.provenance_ref == pe.as_ref(), "C15/fork/basis-does-not-pin-the-parent-coordinate", "{basis:?} vs parent entry {f} commit {:?}", &pe.expected.commit_hash[..4]);
    vensure_eq!(receipt.child_worldline_id, cid, "C15/fork/receipt-child", "");
    vensure_eq!(w.provenance.len(cid).unwrap_or(0), f + 1, "C15/fork/child-history-length", "fork of lane {parent} at {f}");
    for t in 0..=f {
        let a = w.provenance.entry(pid, wt(t)).map_err(|e| Fail::new("C15/harness/entry", format!("{e:?}")))?;
        let b = w.provenance.entry(cid, wt(t)).map_err(|e| Fail::new("C15/harness/entry", format!("{e:?}")))?;
        vensure!(rewrite(a, pid, cid) == b, "C15/fork/copied-entry-differs-from-parent", "tick {t} of the fork of lane {parent} at {f}");
    }
    let at = w.provenance.replay_worldline_state_at(pid, &w.initial[parent as usize], wt(f + 1)).map_err(|e| Fail::new("C15/harness/replay", format!("{e:?}")))?;
    vensure!(state_fp(w.frontier(child)) == state_fp(&at), "C15/fork/child-state-is-not-parent-state-at-fork-tick", "fork of lane {parent} at {f}");
    vensure_eq!(w.frontier(child).current_tick().as_u64(), f + 1, "C15/fork/child-frontier-tick", "");
    // heads: fresh, on the child lane only; nobody else's head set changed
    vensure!(!receipt.writer_heads.is_empty() && receipt.writer_heads.iter().all(|k| k.worldline_id == cid), "C15/fork/child-head-on-foreign-lane", "{:?}", receipt.writer_heads);
    let now: Vec<_> = w.runtime.heads().iter().map(|(k, _)| *k).collect();
    for k in heads_before {
        vensure!(now.contains(k), "C15/fork/existing-head-removed", "{k:?}");
        vensure!(!receipt.writer_heads.contains(k), "C15/fork/head-shared-with-existing-lane", "{k:?}");
    }
    let added: Vec<_> = now.iter().filter(|k| !heads_before.contains(k)).collect();
    vensure!(added.len() == receipt.writer_heads.len() && added.iter().all(|k| receipt.writer_heads.contains(k)), "C15/fork/registered-heads-differ-from-receipt", "");
    let s = w.runtime.strands().get(&receipt.strand_id).ok_or_else(|| Fail::new("C15/fork/strand-not-registered", ""))?;
    vensure!(s.fork_basis_ref() == *basis && s.child_worldline_id() == cid && s.writer_heads() == receipt.writer_heads.as_slice(), "C15/fork/registered-strand-differs-from-receipt", "");
    Ok(())
}

fn lane_chain(w: &World, lane: u8) -> Vec<([u8; 32], [u8; 32], [u8; 32])> {
    w.ledger[lane as usize].iter().map(|t| (t.state_root, t.commit_hash, t.patch_digest)).collect()
}

fn settle_strand(c: &Case15, w: &mut World, s: &StrandInfo, probe: &mut Probe) -> Check {
    let (pid, cid) = (wl_id(s.parent), wl_id(s.child));
    let policy = if c.plural { SettlementPolicy::allow_plural_over_footprint_overlap([0x77; 32]) } else { SettlementPolicy::default() };
    let f0 = fp_pair(&w.runtime, &w.provenance);
    let parent_len0 = w.len(s.parent);
    let child_len0 = w.len(s.child);
    // compare is inspection only
    let delta = SettlementService::compare(&w.runtime, &w.provenance, s.id).map_err(|e| Fail::new("C15/compare-refused", format!("{e:?}")))?;
    vensure_eq!(delta.source_entries.len() as u64, child_len0 - (s.fork_tick + 1), "C15/compare/suffix-length", "strand on lane {}", s.child);
    vensure!(delta.source_lane_id == cid && delta.fork_basis_ref.source_lane_id == pid, "C15/compare/lanes", "");
    if !s.shared {
        let p = SettlementService::plan_with_policy(&w.runtime, &w.provenance, s.id, &policy);
        vensure!(matches!(p, Err(SettlementError::NonSharedStrand { .. })), "C15/posture/author-only-strand-planned", "{p:?}");
        let r = SettlementService::settle_with_policy(&mut w.runtime, &mut w.provenance, s.id, &policy);
        vensure!(matches!(r, Err(SettlementError::NonSharedStrand { .. })), "C15/posture/author-only-strand-settled", "");
        vensure!(fp_pair(&w.runtime, &w.provenance) == f0, "C15/posture/refused-settlement-left-effect", "");
        probe.class("author-only:refused");
        return Ok(());
    }
    let plan = SettlementService::plan_with_policy(&w.runtime, &w.provenance, s.id, &policy).map_err(|e| Fail::new("C15/plan-refused", format!("{e:?}")))?;
    let plan2 = SettlementService::plan_with_policy(&w.runtime, &w.provenance, s.id, &policy).map_err(|e| Fail::new("C15/plan-refused", format!("{e:?}")))?;
    vensure!(plan == plan2, "C15/plan/nondeterministic", "");
    vensure!(fp_pair(&w.runtime, &w.provenance) == f0, "C15/plan/planning-has-side-effects", "");
    vensure_eq!(plan.decisions.len(), delta.source_entries.len(), "C15/plan/one-decision-per-suffix-entry", "");
    vensure!(plan.target_worldline == pid, "C15/plan/target", "");
    // nothing imports past the first retained conflict / plural
    let first_retained = plan.decisions.iter().position(|d| !matches!(d, SettlementDecision::ImportCandidate(_)));
    if let Some(k) = first_retained {
        vensure!(plan.decisions[k..].iter().all(|d| !matches!(d, SettlementDecision::ImportCandidate(_))), "C15/plan/import-after-retained-conflict", "decision kinds: {:?}", plan.decisions.iter().map(|d| d.admission_outcome_kind()).collect::<Vec<_>>());
    }
    if !c.plural {
        vensure!(plan.decisions.iter().all(|d| !matches!(d, SettlementDecision::PluralAlternative(_))), "C15/plan/plural-under-refusing-policy", "");
    }
    // slots the parent wrote since the anchor, and the strand's closed footprint
    let mut parent_written: BTreeSet<SlotId> = BTreeSet::new();
    for t in s.fork_tick + 1..parent_len0 {
        let e = w.provenance.entry(pid, wt(t)).map_err(|e| Fail::new("C15/harness/entry", format!("{e:?}")))?;
        if let Some(p) = &e.patch {
            parent_written.extend(p.out_slots.iter().copied());
        }
    }
    let mut strand_touched: BTreeSet<SlotId> = BTreeSet::new();
    let mut all_local = true;
    for r in &delta.source_entries {
        let e = w.provenance.entry(cid, r.worldline_tick).map_err(|e| Fail::new("C15/harness/entry", format!("{e:?}")))?;
        all_local &= matches!(e.event_kind, ProvenanceEventKind::LocalCommit);
        if let Some(p) = &e.patch {
            strand_touched.extend(p.in_slots.iter().copied());
            strand_touched.extend(p.out_slots.iter().copied());
            // replaying a delete also clears the element's attachment slot
            strand_touched.extend(op_written_slots(&p.ops));
        }
    }
    let moved = parent_len0 > s.fork_tick + 1;
    let disjoint = parent_written.is_disjoint(&strand_touched);
    let class = if !moved { "parent-unmoved" } else if disjoint { "parent-moved-disjoint" } else { "parent-moved-overlapping" };
    probe.class(format!("settle:{class}"));
    match (&plan.basis_report.parent_revalidation, moved, disjoint) {
        (StrandRevalidationState::AtAnchor, false, _) => {}
        (StrandRevalidationState::ParentAdvancedDisjoint { .. }, true, true) => {}
        (StrandRevalidationState::RevalidationRequired { overlapping_slots, .. }, true, false) => {
            vensure!(overlapping_slots.iter().all(|sl| parent_written.contains(sl) && strand_touched.contains(sl)), "C15/basis/overlap-slots-not-in-both-footprints", "");
        }
        (other, _, _) => vfail!("C15/basis/parent-movement-misclassified", "parent moved={moved} disjoint={disjoint} but the basis report says {other:?}"),
    }
    // does the suffix replay cleanly on the parent as it stands? (harness-side simulation)
    let mut sim = w.frontier(s.parent).clone();
    let mut clean_prefix = 0usize;
    for r in &delta.source_entries {
        let e = w.provenance.entry(cid, r.worldline_tick).map_err(|e| Fail::new("C15/harness/entry", format!("{e:?}")))?;
        match &e.patch {
            Some(p) if matches!(e.event_kind, ProvenanceEventKind::LocalCommit) && p.apply_to_worldline_state(&mut sim).is_ok() => clean_prefix += 1,
            _ => break,
        }
    }
    let replays_cleanly = clean_prefix == delta.source_entries.len();
    if !replays_cleanly {
        probe.class("settle:suffix-does-not-replay-on-parent");
    }
    if all_local && replays_cleanly && (!moved || disjoint) {
        // entries that replay cleanly on an unmoved or disjointly moved parent are imported
        vensure!(first_retained.is_none(), "C15/plan/clean-suffix-not-imported", "{class}: decision kinds {:?}", plan.decisions.iter().map(|d| match d { SettlementDecision::ConflictArtifact(a) => format!("Conflict({:?}, {:?})", a.reason, a.overlap_revalidation), SettlementDecision::PluralAlternative(p) => format!("Plural({} slots)", p.overlapping_slots.len()), SettlementDecision::ImportCandidate(_) => "Import".to_string() }).collect::<Vec<_>>());
    }
    // failure injected into the last fallible step (the retained shell), on copies
    if c.inject {
        let plural_id = plan.decisions.iter().find_map(|d| if let SettlementDecision::PluralAlternative(p) = d { Some(p.plural_id) } else { None });
        if let Some(plural_id) = plural_id {
            let (mut rt2, mut pv2) = (w.runtime.clone(), w.provenance.clone());
            let dummy = BraidShell::assemble(
                pid,
                plan.target_base_ref,
                vec![BraidShellMember { member_ref: BraidMemberRef::Revealed(warp_core::make_strand_id("verif-dummy-binder")), support_pin_digest: [1; 32], basis_digest: [2; 32], frontier_digest: [3; 32], footprint_digest: [4; 32], claim_digest: [5; 32], verdict: MemberVerdict::Plural, verdict_digest: [6; 32], posture: CausalPosture::AuthorOnly }],
                [0xAB; 32],
                BraidShellOutcome::Plural { alternative_ids: vec![plural_id] },
                CausalPosture::AuthorOnly,
            )
            .map_err(|e| Fail::new("C15/harness/dummy-shell", format!("{e:?}")))?;
            pv2.append_braid_shell(dummy).map_err(|e| Fail::new("C15/harness/dummy-shell-append", format!("{e:?}")))?;
            let f1 = fp_pair(&rt2, &pv2);
            let r = SettlementService::settle_with_policy(&mut rt2, &mut pv2, s.id, &policy);
            vensure!(r.is_err(), "C15/settle/shell-retention-failure-ignored", "settlement succeeded although its plural id is bound to another shell");
            let f2 = fp_pair(&rt2, &pv2);
            vensure!(f1.0 == f2.0, "C15/settle/failed-settlement-left-effect/runtime", "");
            vensure!(f1.1 == f2.1, "C15/settle/failed-settlement-left-effect/provenance", "");
            probe.class("settle:failure-injected-after-appends");
        }
    }
    // the real settlement
    let parent_before = w.frontier(s.parent).clone();
    let child_fp_before = state_fp(w.frontier(s.child));
    let res = match SettlementService::settle_with_policy(&mut w.runtime, &mut w.provenance, s.id, &policy) {
        Ok(r) => r,
        Err(e) => {
            let f1 = fp_pair(&w.runtime, &w.provenance);
            vensure!(f1.0 == f0.0, "C15/settle/failed-settlement-left-effect/runtime", "{e:?}");
            vensure!(f1.1 == f0.1, "C15/settle/failed-settlement-left-effect/provenance", "{e:?}");
            vfail!("C15/settle/planned-settlement-refused", "plan succeeded, settle failed: {e:?}");
        }
    };
    vensure!(res.plan == plan, "C15/settle/executed-plan-differs-from-plan", "");
    vensure_eq!(w.len(s.parent), parent_len0 + plan.decisions.len() as u64, "C15/settle/appended-count", "");
    vensure_eq!(w.frontier(s.parent).current_tick().as_u64(), w.len(s.parent), "C15/settle/frontier-vs-history", "");
    vensure!(w.len(s.child) == child_len0 && state_fp(w.frontier(s.child)) == child_fp_before, "C15/settle/strand-lane-changed", "");
    vensure_eq!((res.appended_imports.len(), res.appended_conflicts.len(), res.appended_plurals.len()), (plan.decisions.iter().filter(|d| matches!(d, SettlementDecision::ImportCandidate(_))).count(), plan.decisions.iter().filter(|d| matches!(d, SettlementDecision::ConflictArtifact(_))).count(), plan.decisions.iter().filter(|d| matches!(d, SettlementDecision::PluralAlternative(_))).count()), "C15/settle/appended-kinds", "");
    // the parent stays verifiable from its own history
    let init = w.initial[s.parent as usize].clone();
    let replayed = w.provenance.replay_worldline_state(pid, &init).map_err(|e| Fail::new("C15/settle/parent-no-longer-replays", format!("{e:?}")))?;
    vensure!(state_fp(&replayed) == state_fp(w.frontier(s.parent)), "C15/settle/parent-replay-differs-from-live-state", "");
    // per decision
    let cinit = w.initial[s.child as usize].clone();
    let mut prev_root = parent_before.state_root();
    for (i, d) in plan.decisions.iter().enumerate() {
        let t = parent_len0 + i as u64;
        let after = w.provenance.replay_worldline_state_at(pid, &init, wt(t + 1)).map_err(|e| Fail::new("C15/settle/parent-no-longer-replays", format!("tick {t}: {e:?}")))?;
        match d {
            SettlementDecision::ImportCandidate(cand) => {
                let src = w.provenance.entry(cid, cand.source_ref.worldline_tick).map_err(|e| Fail::new("C15/harness/entry", format!("{e:?}")))?;
                let child_after = w.provenance.replay_worldline_state_at(cid, &cinit, wt(cand.source_ref.worldline_tick.as_u64() + 1)).map_err(|e| Fail::new("C15/harness/replay-child", format!("{e:?}")))?;
                if let Some(p) = &src.patch {
                    // the slots the strand's entry wrote: what its ops set or clear (its declared
                    // out-slots also name adjacency of edge sources, whose node records it leaves alone)
                    for sl in &op_written_slots(&p.ops) {
                        let (a, b) = (slot_value(&after, sl), slot_value(&child_after, sl));
                        vensure!(a == b, "C15/import/parent-does-not-take-strand-value", "import {i} (source tick {}): slot {sl:?} is {a} on the parent, {b} on the strand", cand.source_ref.worldline_tick.as_u64());
                    }
                }
                vensure_eq!(after.state_root(), cand.target_expected_state_root, "C15/import/expected-root", "import {i}");
                probe.class("decision:import");
            }
            SettlementDecision::ConflictArtifact(a) => {
                vensure_eq!(after.state_root(), prev_root, "C15/retained/conflict-artifact-changed-parent-state", "decision {i} ({:?})", a.reason);
                probe.class(format!("decision:conflict:{:?}", a.reason));
            }
            SettlementDecision::PluralAlternative(_) => {
                vensure_eq!(after.state_root(), prev_root, "C15/retained/plural-artifact-changed-parent-state", "decision {i}");
                probe.class("decision:plural");
            }
        }
        prev_root = after.state_root();
    }
    // never overwrite: every slot the parent wrote since the anchor keeps the parent's value
    let parent_after = w.frontier(s.parent);
    for sl in &parent_written {
        let (a, b) = (slot_value(&parent_before, sl), slot_value(parent_after, sl));
        vensure!(a == b, "C15/settle/parent-written-slot-overwritten", "slot {sl:?}: parent held {a} before settlement, {b} after");
    }
    if moved && !delta.source_entries.is_empty() && delta.source_entries.len() >= 2 && !disjoint {
        probe.nontrivial();
    }
    Ok(())
}

fn check15(_ctx: &Ctx, c: &Case15, probe: &mut Probe) -> Check {
    let Some((mut w, strands, n_base)) = run_variant(c, Drop::Nothing, probe)? else {
        probe.class("skipped:no-history-to-fork");
        return Ok(());
    };
    // lane isolation as a metamorphic relation
    let mut scratch = Probe::default();
    if let Some((wb, _, _)) = run_variant(c, Drop::StrandSubmissions, &mut scratch)? {
        for l in 0..n_base as u8 {
            vensure!(lane_chain(&w, l) == lane_chain(&wb, l), "C15/isolation/strand-ticks-changed-the-parent", "base lane {l}: its per-tick roots / commit ids / patch digests differ from the run in which no strand was ever ticked");
        }
        probe.class("isolation:strand-dropped-compared");
    }
    if let Some((wc, _, _)) = run_variant(c, Drop::BaseSubmissions, &mut scratch)? {
        for s in &strands {
            vensure!(lane_chain(&w, s.child) == lane_chain(&wc, s.child), "C15/isolation/parent-ticks-changed-the-strand", "strand lane {}: its per-tick roots / commit ids / patch digests differ from the run in which the base was never ticked after the fork", s.child);
        }
        probe.class("isolation:base-dropped-compared");
    }
    probe.class(format!("strands:{}{}", strands.len(), if strands.len() == 2 && strands[1].parent != 0 { ":chain" } else { "" }));
    // settle inner strands first
    for s in strands.iter().rev() {
        settle_strand(c, &mut w, s, probe)?;
    }
    // every lane keeps ticking and stays replayable
    w.apply_step(&c.world, &Step::Pass);
    for l in 0..w.n_wl() as u8 {
        let r = w.provenance.replay_worldline_state(wl_id(l), &w.initial[l as usize]).map_err(|e| Fail::new("C15/after-settlement/lane-no-longer-replays", format!("lane {l}: {e:?}")))?;
        vensure!(state_fp(&r) == state_fp(w.frontier(l)), "C15/after-settlement/replay-differs-from-live-state", "lane {l}");
    }
    Ok(())
}

pub fn subs(_ctx: &Ctx) -> Vec<Box<dyn Sub>> {
    vec![prop_sub("fork-tick-settle-histories", 6_000, 150_000, case15(), check15)]
}

/// Development aid: `vc_runtime --debug15 <replay.json>` prints lane histories and the plan.
pub fn debug(path: &str) {
    let v: serde_json::Value = serde_json::from_str(&std::fs::read_to_string(path).expect("read")).expect("json");
    let c: Case15 = serde_json::from_value(v.get("case").cloned().expect("case")).expect("Case15");
    println!("strands: {:?} plural={} inject={} pin={}", c.strands, c.plural, c.inject, c.pin);
    let mut probe = Probe::default();
    let Some((w, strands, _)) = run_variant(&c, Drop::Nothing, &mut probe).expect("run") else {
        println!("skipped");
        return;
    };
    let short = |op: &warp_core::WarpOp| format!("{op:?}").chars().filter(|c| !c.is_whitespace()).collect::<String>().replace(", 0", "").chars().take(260).collect::<String>();
    for l in 0..w.n_wl() as u8 {
        println!("lane {l}: len {}", w.len(l));
        for t in 0..w.len(l) {
            let e = w.provenance.entry(wl_id(l), wt(t)).unwrap();
            println!("  [{t}] {:?} root {:02x?}", e.event_kind, &e.expected.state_root[..3]);
            if let Some(p) = &e.patch {
                for op in &p.ops {
                    println!("       {}", short(op));
                }
                println!("       in_slots {} out_slots {}", p.in_slots.len(), p.out_slots.len());
            }
        }
    }
    for s in strands.iter().rev() {
        println!("strand {:?}", s);
        let policy = if c.plural { SettlementPolicy::allow_plural_over_footprint_overlap([0x77; 32]) } else { SettlementPolicy::default() };
        match SettlementService::plan_with_policy(&w.runtime, &w.provenance, s.id, &policy) {
            Ok(p) => {
                println!("  basis: {:?}", format!("{:?}", p.basis_report.parent_revalidation).chars().take(300).collect::<String>());
                for d in &p.decisions {
                    println!("  decision: {}", format!("{d:?}").chars().filter(|c| !c.is_whitespace()).collect::<String>().replace(",0", "").chars().take(400).collect::<String>());
                }
            }
            Err(e) => println!("  plan error {e:?}"),
        }
    }
}
