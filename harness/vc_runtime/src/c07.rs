//! C07 — replay is path-independent.

use crate::hist::*;
use proptest::prelude::*;
use serde::{Deserialize, Serialize};
use vkit::{prop_sub, vensure, vensure_eq, vfail, Check, Ctx, Fail, Probe, Sub, Tier};
use vmodel::rt::*;
use vmodel::universe::warp_id;
use warp_core::{
    CursorId, CursorRole, PlaybackCursor, PlaybackMode, ProvenanceService, ProvenanceStore, ReplayCheckpoint, SeekThen,
    WorldlineState,
};

#[derive(Clone, Debug, Serialize, Deserialize)]
pub struct Case7 {
    pub hist: HistCase,
    /// sampled checkpoint subsets (bitmasks) used when the history is too long to enumerate
    pub subsets: Vec<u16>,
    /// random cursor walk: (op, arg)
    pub walk: Vec<(u8, u16)>,
    /// fork (worldline pick, tick pick) of the live world after the script; the child is
    /// registered with the runtime and continues with `after`
    #[serde(default)]
    pub fork: Option<(u8, u16)>,
    /// steps after the fork; `true` redirects a submission to the forked child
    #[serde(default)]
    pub after: Vec<(bool, Step)>,
}

fn case7() -> impl Strategy<Value = Case7> {
    (
        hist_case(2, 2, 44),
        prop::collection::vec(any::<u16>(), 6),
        prop::collection::vec((0u8..6, any::<u16>()), 4..24),
        prop::option::weighted(0.7, (any::<u8>(), any::<u16>())),
        prop::collection::vec((any::<bool>(), step_seed()), 0..24),
    )
        .prop_map(|(hist, subsets, walk, fork, after)| Case7 { hist, subsets, walk, fork, after })
}

/// Equality of two materialised worldline states "as replay results".
fn same_replay_state(a: &WorldlineState, b: &WorldlineState) -> Result<(), String> {
    if state_fp(a) != state_fp(b) {
        return Err(format!("state content differs: {:?} vs {:?}", state_fp(a), state_fp(b)));
    }
    if a.current_tick() != b.current_tick() {
        return Err(format!("tick counter differs: {:?} vs {:?}", a.current_tick(), b.current_tick()));
    }
    if a.tick_history() != b.tick_history() {
        return Err("tick_history (snapshots/receipts/patches) differs".into());
    }
    if a.last_snapshot() != b.last_snapshot() {
        return Err("last_snapshot differs".into());
    }
    if a.last_materialization().len() != b.last_materialization().len() {
        return Err("last_materialization differs".into());
    }
    Ok(())
}

fn hex8(h: &[u8; 32]) -> String {
    h[..6].iter().map(|b| format!("{b:02x}")).collect()
}

fn cursor(wl: u8, init: &WorldlineState, pin: u64) -> PlaybackCursor {
    PlaybackCursor::new(CursorId([9; 32]), wl_id(wl), warp_id(0), CursorRole::Reader, init, wt(pin))
}

struct Tally {
    evals: u64,
    nontrivial: bool,
}

/// All replay-path checks for one worldline of `w`. `base` is the checkpoint-free rebuild.
fn check_worldline(ctx: &Ctx, c: &Case7, w: &World, base: &ProvenanceService, wl: u8, exhaustive_ok: bool, probe: &mut Probe, tally: &mut Tally) -> Check {
    let len = w.len(wl);
    let init = &w.initial[wl as usize];
    let id = wl_id(wl);
    vensure_eq!(len as usize, w.ledger[wl as usize].len(), "C07/harness/ledger-length", "worldline {wl}");
    // ground truth: live ledger + fold of patches from U0
    let mut truth: Vec<WorldlineState> = Vec::new();
    let mut fold = init.clone();
    for t in 0..=len {
        let r = base.replay_worldline_state_at(id, init, wt(t)).map_err(|e| Fail::new("C07/replay-error", format!("worldline {wl} tick {t}: {e:?}")))?;
        let expect_fp = if t == 0 { Some(state_fp(init)) } else { w.ledger[wl as usize][t as usize - 1].fp.clone() };
        if let Some(expect_fp) = expect_fp {
            if state_fp(&r) != expect_fp {
                vfail!("C07/replay-differs-from-live-state", "worldline {wl} tick {t}: replayed {:?}, live runtime held {:?}", state_fp(&r), expect_fp);
            }
            probe.class("live-content-compared");
        }
        if t > 0 {
            let lt = &w.ledger[wl as usize][t as usize - 1];
            let snap = r.last_snapshot().ok_or_else(|| Fail::new("C07/replay-metadata", "no last snapshot"))?;
            vensure!(snap.hash == lt.commit_hash && snap.patch_digest == lt.patch_digest && snap.state_root == lt.state_root, "C07/replay-hashes-differ-from-live", "worldline {wl} tick {t}: commit {} vs {}, patch digest {} vs {}, root {} vs {}", hex8(&snap.hash), hex8(&lt.commit_hash), hex8(&snap.patch_digest), hex8(&lt.patch_digest), hex8(&snap.state_root), hex8(&lt.state_root));
            let e = base.entry(id, wt(t - 1)).map_err(|e| Fail::new("C07/harness/entry", format!("{e:?}")))?;
            e.patch.as_ref().ok_or_else(|| Fail::new("C07/harness", "entry without patch"))?.apply_to_worldline_state(&mut fold).map_err(|e| Fail::new("C07/fold-apply-error", format!("tick {t}: {e:?}")))?;
            if state_fp(&fold) != state_fp(&r) {
                vfail!("C07/replay-differs-from-fold", "worldline {wl} tick {t}");
            }
        }
        truth.push(r);
        tally.evals += 1;
    }
    // the live service (with whatever checkpoints the script and forks left in it) replays
    // every tick to the same state, by service replay, fresh cursor, and backward seek
    for t in 0..=len {
        let r = w.provenance.replay_worldline_state_at(id, init, wt(t)).map_err(|e| Fail::new("C07/live-replay-error", format!("worldline {wl} tick {t} on the live service (checkpoints {:?}): {e:?}", w.checkpoints[wl as usize])))?;
        if let Err(m) = same_replay_state(&r, &truth[t as usize]) {
            vfail!("C07/live-replay-depends-on-retained-checkpoints", "worldline {wl} tick {t} (checkpoints {:?}): {m}", w.checkpoints[wl as usize]);
        }
        let mut cur = cursor(wl, init, len);
        cur.seek_to(wt(t), &w.provenance, init).map_err(|e| Fail::new("C07/live-seek-error", format!("worldline {wl} fresh seek {t}: {e:?}")))?;
        if let Err(m) = same_replay_state(cur.materialized_state(), &truth[t as usize]) {
            vfail!("C07/live-seek-path-dependence", "worldline {wl} fresh seek {t}: {m}");
        }
        let mut cur = cursor(wl, init, len);
        cur.seek_to(wt(len), &w.provenance, init).map_err(|e| Fail::new("C07/live-seek-error", format!("worldline {wl} seek {len}: {e:?}")))?;
        cur.seek_to(wt(t), &w.provenance, init).map_err(|e| Fail::new("C07/live-seek-error", format!("worldline {wl} seek {len}->{t}: {e:?}")))?;
        if let Err(m) = same_replay_state(cur.materialized_state(), &truth[t as usize]) {
            vfail!("C07/live-seek-path-dependence", "worldline {wl} seek {len}->{t}: {m}");
        }
        tally.evals += 3;
    }
    if len == 0 {
        return Ok(());
    }
    // checkpoint subsets
    let n_ticks = (len + 1) as u32;
    let exhaustive_limit = if exhaustive_ok { ctx.tier.pick(5u64, 7u64) } else { 0 };
    let masks: Vec<u32> = if len + 1 <= exhaustive_limit { (0..(1u32 << n_ticks)).collect() } else { c.subsets.iter().map(|m| (*m as u32) & ((1u32 << n_ticks.min(16)) - 1)).collect() };
    if len + 1 <= exhaustive_limit {
        probe.class(format!("subsets-exhaustive:len={len}"));
    } else {
        probe.class("subsets-sampled");
    }
    for mask in masks {
        let mut p = base.clone();
        for t in 0..=len.min(15) {
            if mask & (1 << t) != 0 {
                p.add_checkpoint(id, ReplayCheckpoint::from_state(&truth[t as usize]))
                    .map_err(|e| Fail::new("C07/checkpoint-of-replayed-state-refused", format!("worldline {wl} tick {t}: {e:?}")))?;
            }
        }
        for target in 0..=len {
            // service-level replay
            let r = p.replay_worldline_state_at(id, init, wt(target)).map_err(|e| Fail::new("C07/replay-error", format!("K={mask:#b} target {target}: {e:?}")))?;
            if let Err(m) = same_replay_state(&r, &truth[target as usize]) {
                vfail!("C07/replay-depends-on-checkpoints", "worldline {wl} K={mask:#b} target {target}: {m}");
            }
            for start in 0..=len {
                let mut cur = cursor(wl, init, len);
                cur.seek_to(wt(start), &p, init).map_err(|e| Fail::new("C07/seek-error", format!("K={mask:#b} seek {start}: {e:?}")))?;
                cur.seek_to(wt(target), &p, init).map_err(|e| Fail::new("C07/seek-error", format!("K={mask:#b} seek {start}->{target}: {e:?}")))?;
                vensure_eq!(cur.current_tick(), wt(target), "C07/cursor-tick", "seek {start}->{target}");
                if let Err(m) = same_replay_state(cur.materialized_state(), &truth[target as usize]) {
                    vfail!("C07/seek-path-dependence", "worldline {wl} K={mask:#b} seek {start}->{target}: {m}");
                }
                vensure_eq!(cur.current_state_root(), truth[target as usize].state_root(), "C07/cursor-root", "seek {start}->{target}");
                tally.evals += 1;
                // a checkpoint strictly between cursor position and target
                if (start + 1..target).any(|k| mask & (1 << k) != 0) || target < start {
                    tally.nontrivial = true;
                }
            }
        }
    }
    // random cursor walk interleaved with checkpoint insertion
    {
        let mut p = base.clone();
        let mut cur = cursor(wl, init, len);
        for (op, arg) in &c.walk {
            let pos = cur.current_tick().as_u64();
            let t = vkit::pick_idx(*arg, (len + 1) as usize) as u64;
            let expect = match op {
                0 => {
                    cur.seek_to(wt(t), &p, init).map_err(|e| Fail::new("C07/seek-error", format!("walk seek {t}: {e:?}")))?;
                    t
                }
                1 => {
                    cur.mode = PlaybackMode::StepForward;
                    cur.step(&p, init).map_err(|e| Fail::new("C07/step-error", format!("{e:?}")))?;
                    (pos + 1).min(len)
                }
                2 => {
                    cur.mode = PlaybackMode::StepBack;
                    cur.step(&p, init).map_err(|e| Fail::new("C07/step-error", format!("{e:?}")))?;
                    pos.saturating_sub(1)
                }
                3 => {
                    cur.mode = PlaybackMode::Seek { target: wt(t), then: SeekThen::Pause };
                    cur.step(&p, init).map_err(|e| Fail::new("C07/step-error", format!("{e:?}")))?;
                    t
                }
                4 => {
                    cur.mode = PlaybackMode::Play;
                    cur.step(&p, init).map_err(|e| Fail::new("C07/step-error", format!("{e:?}")))?;
                    (pos + 1).min(len)
                }
                _ => {
                    p.add_checkpoint(id, ReplayCheckpoint::from_state(&truth[t as usize])).map_err(|e| Fail::new("C07/checkpoint-of-replayed-state-refused", format!("{e:?}")))?;
                    pos
                }
            };
            vensure_eq!(cur.current_tick().as_u64(), expect, "C07/cursor-tick", "walk op {op} from {pos}");
            if let Err(m) = same_replay_state(cur.materialized_state(), &truth[expect as usize]) {
                vfail!("C07/walk-path-dependence", "worldline {wl} after op {op} (arg tick {t}) from {pos}: {m}");
            }
            tally.evals += 1;
        }
    }
    // forks at every tick: prefix agrees with the parent, copied checkpoints included
    for fork_tick in 0..len {
        let mut p = w.provenance.clone(); // with the script's own checkpoints
        let child = wl_id(7);
        p.fork(id, wt(fork_tick), child).map_err(|e| Fail::new("C07/fork-error", format!("fork at {fork_tick}: {e:?}")))?;
        vensure_eq!(p.len(child).unwrap_or(0), fork_tick + 1, "C07/fork-length", "fork at {fork_tick}");
        for t in 0..=fork_tick + 1 {
            let r = p.replay_worldline_state_at(child, init, wt(t)).map_err(|e| Fail::new("C07/fork-replay-error", format!("fork at {fork_tick} tick {t}: {e:?}")))?;
            if state_fp(&r) != state_fp(&truth[t as usize]) {
                vfail!("C07/fork-prefix-differs", "fork at {fork_tick}: child tick {t} differs from the parent's");
            }
            let mut cur = PlaybackCursor::new(CursorId([8; 32]), child, warp_id(0), CursorRole::Reader, init, wt(fork_tick + 1));
            cur.seek_to(wt(t), &p, init).map_err(|e| Fail::new("C07/fork-seek-error", format!("{e:?}")))?;
            vensure!(state_fp(cur.materialized_state()) == state_fp(&truth[t as usize]), "C07/fork-prefix-differs", "cursor on fork at {fork_tick} tick {t}");
            tally.evals += 1;
        }
        vensure!(p.replay_worldline_state_at(child, init, wt(fork_tick + 2)).is_err(), "C07/fork-has-extra-history", "fork at {fork_tick}");
        // no checkpoint beyond the copied prefix may travel with the fork
        if let Some(cp) = p.checkpoint_before(child, wt(u64::MAX)) {
            vensure!(cp.worldline_tick.as_u64() <= fork_tick + 1, "C07/fork-inherits-checkpoint-beyond-prefix", "fork at {fork_tick} carries a checkpoint at tick {}", cp.worldline_tick.as_u64());
        }
    }
    probe.class(format!("len:{}", len.min(9)));
    Ok(())
}

fn check7(ctx: &Ctx, c: &Case7, probe: &mut Probe) -> Check {
    let (mut w, _tags) = run(&c.hist, true);
    let base = strip_checkpoints(&w)?;
    let mut tally = Tally { evals: 0, nontrivial: false };
    for wl in 0..w.n_wl() as u8 {
        check_worldline(ctx, c, &w, &base, wl, true, probe, &mut tally)?;
    }
    // a fork of the live world that continues on its own: the child's replay must agree with
    // the parent on the prefix and with its own live ledger beyond it, whatever checkpoints
    // the fork inherited
    if let Some((wlp, tp)) = &c.fork {
        let parent = w.wl_of(*wlp);
        let plen = w.len(parent);
        if plen > 0 {
            let f = vkit::pick_idx(*tp, plen as usize) as u64;
            let child = w.fork_worldline(parent, f).map_err(|e| Fail::new("C07/live-fork-error", format!("fork of worldline {parent} at {f}: {e}")))?;
            for (to_child, s) in &c.after {
                let s2 = match (to_child, s) {
                    (true, Step::Submit { route: _, kind, prog, salt, .. }) => Step::Submit { wl: child, route: Route::Default, kind: *kind, prog: prog.clone(), salt: *salt },
                    (_, s) => s.clone(),
                };
                // `wl` picks are reduced modulo the number of worldlines, which now includes the child
                w.apply_step(&c.hist.world, &s2);
            }
            w.apply_step(&c.hist.world, &Step::Pass);
            let base2 = strip_checkpoints(&w)?;
            let grown = w.len(child) > f + 1;
            check_worldline(ctx, c, &w, &base2, child, false, probe, &mut tally)?;
            check_worldline(ctx, c, &w, &base2, parent, false, probe, &mut tally)?;
            probe.class(if grown { "live-fork:child-continued" } else { "live-fork:prefix-only" });
            if grown && w.checkpoints[parent as usize].iter().any(|t| *t > f + 1) {
                probe.class("live-fork:parent-checkpoint-beyond-fork-tick");
                tally.nontrivial = true;
            }
        }
    }
    probe.evals(tally.evals);
    if tally.nontrivial {
        probe.nontrivial();
    }
    let _ = Tier::Quick;
    Ok(())
}

pub fn subs(_ctx: &Ctx) -> Vec<Box<dyn Sub>> {
    vec![crate::svcops::sub(), prop_sub("seek-paths-checkpoint-subsets-forks", 1200, 30_000, case7(), check7)]
}
