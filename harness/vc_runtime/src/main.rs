mod c05;
mod c07;
mod hist;

use vkit::Property;

fn main() {
    vkit::main(vec![
    Property {
        id: "C05",
        level: "fault_enumeration",
        rule: "proptest-generated runtime histories (as C07). Untampered direction: every entry's commit id == H(state root, parents, patch digest, policy) with parents == previous tip, ticks gap-free, every contiguous BTR segment builds and validates, replay succeeds, append of a gap / duplicate tick / unknown parent is refused. Tamper direction: a catalogue of 40 single-field alterations of a retained ProvenanceEntry (each hash of the triplet, tick, worldline id, global tick, parent drop/alter/add, head key, event kind, patch removal, every patch header field, patch warp, patch digest, op drop/dup/alter/swap at 3 positions, slot lists, receipt, outputs, atom writes) applied at EVERY tick for histories <=5 ticks (quick) / <=8 (thorough), 40 sampled (tick, field) pairs beyond; each applied (a) on read through a ProvenanceStore wrapper under PlaybackCursor::seek_to with and without checkpoints, (b) by rebuilding a ProvenanceService from the altered entries (append validation, then replay_worldline_state_at, then a BTR built from it validated against the genuine service); structural edits through the wrapper: entry swap, duplication, truncation, cross-worldline transplant; checkpoint alterations through add_checkpoint (state hash, claimed tick, foreign worldline state). Oracle as the property words it: typed error, or a verified result identical to the original (per-tick commit id / state root / patch digest / parents, final root, full store content). Fields the chain does not bind are tallied as accepted-same-result per field. Non-trivial = alteration at a non-final tick or a structural edit.",
        assumptions: &[
            "a verified result is compared on what the chain binds (per-tick hash triple + parents, final state root) and on full store content; replay metadata fed from unbound fields (global tick stamps, diagnostic digests, outputs, atom writes) is not compared",
            "suffix-bundle export/import is not covered by this check yet",
        ],
        subs: c05::subs,
        max_shards: 16,
    },
    Property {
        id: "C07",
        level: "exploration",
        rule: "proptest: generated runtime histories (1-2 worldlines x 1-2 heads, generated initial multi-instance states, scripts of <=44 submit/retry/pass/pause/resume/checkpoint steps whose intents carry data-driven rewrite programs realised against the current state; live ledger recorded after every committed tick). Per worldline: replay at every tick from a checkpoint-free rebuild must equal the live ledger (full store content of every instance, state root, commit id, patch digest) and the harness's own fold of patches from U0; then for histories with <=4 ticks (quick) / <=6 (thorough) EVERY checkpoint subset K of {0..len} x EVERY (start, target) pair: fresh cursor seek(start) then seek(target), and service-level replay, must produce the same materialised WorldlineState (content, tick_history, last_snapshot, tick counter) as the checkpoint-free replay; longer histories use 6 sampled subsets; a 4-24 step random cursor walk (seek, step forward/back, Seek mode, Play, checkpoint insertion); forks at every tick (with the script's own checkpoints copied) replay to the parent's prefix and have no extra history. Non-trivial = a path with a backward move or a checkpoint strictly between position and target.",
        assumptions: &[
            "full-state equality uses GraphStore::canonical_state_hash per instance plus instance records; ingress event nodes (foreign ids) are covered by it",
            "replay reconstructs metadata deterministically, so replayed states are compared with each other in full and with the live frontier on content and hashes",
        ],
        subs: c07::subs,
        max_shards: 16,
    },
    ])
}
