mod c05;
mod c07;
mod c08;
mod c09;
mod c15;
mod c16;
mod dbg;
mod hist;
mod svcops;

use vkit::Property;

fn main() {
    if std::env::args().nth(1).as_deref() == Some("--debug15") {
        c15::debug(&std::env::args().nth(2).expect("replay file"));
        return;
    }
    if std::env::args().nth(1).as_deref() == Some("--debug") {
        dbg::run();
        return;
    }
    vkit::main(vec![
    Property {
        id: "C05",
        level: "fault_enumeration",
        rule: "proptest-generated runtime histories (as C07). Untampered direction: every entry's commit id == H(state root, parents, patch digest, policy) with parents == previous tip, ticks gap-free, every contiguous BTR segment builds and validates, replay succeeds, append of a gap / duplicate tick / unknown parent is refused. Tamper direction: a catalogue of 40 single-field alterations of a retained ProvenanceEntry (each hash of the triplet, tick, worldline id, global tick, parent drop/alter/add, head key, event kind, patch removal, every patch header field, patch warp, patch digest, op drop/dup/alter/swap at 3 positions, slot lists, receipt, outputs, atom writes) applied at EVERY tick for histories <=5 ticks (quick) / <=8 (thorough), 40 sampled (tick, field) pairs beyond; each applied (a) on read through a ProvenanceStore wrapper under PlaybackCursor::seek_to with and without checkpoints, (b) by rebuilding a ProvenanceService from the altered entries (append validation, then replay_worldline_state_at, then a BTR built from it validated against the genuine service); structural edits through the wrapper: entry swap, duplication, truncation, cross-worldline transplant; checkpoint alterations through add_checkpoint (state hash, claimed tick, foreign worldline state). Oracle as the property words it: typed error, or a verified result identical to the original (per-tick commit id / state root / patch digest / parents, final root, full store content). Fields the chain does not bind are tallied as accepted-same-result per field. Non-trivial = alteration at a non-final tick or a structural edit.",
        assumptions: &[
            "a verified result is compared on what the chain binds (per-tick hash triple + parents, final state root) and on full store content; replay metadata fed from unbound fields (global tick stamps, diagnostic digests, outputs, atom writes) is not compared",
            "suffix-bundle export/import is not covered by this check yet",
        ],
        subs: c05::subs,
        max_shards: 16,
    },
    Property {
        id: "C08",
        level: "exploration",
        rule: "proptest. (1) identity: generated (kind, bytes, typed causal parents): ids equal across 4 routes, parent order and duplication; ids differ after changing kind, one byte, the length, or the parent set. (2) arrival order: 1-3 rounds of 1-6 submissions (default/named/exact routes, 3 kinds, AcceptAll / KindFilter / Budgeted{0..3} inboxes, 1-2 worldlines x 1-3 heads) each followed by a scheduler pass; the base run is checked against a reference inbox (pending set keyed by ingress id per resolved head; a pass admits everything, or the n smallest ids under a budget) for dispositions, committed heads, batch sizes and which intents were materialised; then every permutation of every round (exhaustive when the product of the rounds' permutation counts is <=120, e.g. one round of 5 or 4x3x2; plus 3 sampled orders with retries inserted at generated positions) must give identical dispositions for first arrivals, Duplicate for retries, identical StepRecords, pending counts, history lengths, full state fingerprints and provenance entries. (3) at-most-once: HistGen scripts of <=60 steps with retries while pending and after commit: no (head, ingress id) runs in more than one committed tick, a committed intent is never re-accepted on its head, and per head distinct-accepted == pending + sum of admitted batch sizes after every step. Non-trivial = >=3 submissions over >=2 heads / retries in both windows / a parent-set toggle.",
        assumptions: &[
            "submission_generation is arrival metadata and is not compared",
            "after-restart retries are covered by C10 (not built yet); passes that fail are C09's subject and end the arrival-order comparison for that case",
        ],
        subs: c08::subs,
        max_shards: 16,
    },
    Property {
        id: "C09",
        level: "fault_enumeration",
        rule: "proptest: worlds of 1-3 worldlines x 1-4 heads; 0-2 honest warm-up passes (first / middle / later pass of a run); then a pass in which generated honest intents are pending on a generated subset of heads and ONE failing intent sits on a generated head, so that the failing commit falls at a generated position k of the n runnable heads; six failure kinds injected by program: executor panic, undeclared read, undeclared write (footprint violation payloads), cross-instance write, ops that fail to apply (delete of a missing edge, delete of a non-isolated node: typed engine error). Oracle: the pass fails (re-raised panic for unwinding executors, typed Err otherwise); every top-level field of the `{:#?}` rendering of WorldlineRuntime except the documented fault evidence (scheduler_faults, faulted_heads, runtime_fault, next_scheduler_fault_generation, runnable) and the whole ProvenanceService rendering are byte-identical to before the pass; inbox pending counts and full state fingerprints unchanged; exactly one fault record with the documented scope (typed engine error -> that head only, unwinding executor -> runtime); quarantine: a runtime fault refuses further passes, a head fault removes only that head from the runnable order while all other heads commit in the next pass, eligibility changes do not re-admit; resolve_scheduler_fault re-admits once and keeps the record; honest passes before and after obey: committed heads == runnable non-empty heads in canonical order, +1 worldline tick per committed head, +1 global tick; history stays replayable to the frontier. Non-trivial = failing head at position k>0.",
        assumptions: &[
            "fault scope follows the code's documented mapping (scheduler_fault_scope_for_error)",
            "frontier tick overflow is not injected (no public way to register a frontier at MAX)",
        ],
        subs: c09::subs,
        max_shards: 16,
    },
    Property {
        id: "C16",
        level: "exploration",
        rule: "proptest: generated runtime histories (1-2 worldlines x 1-2 heads, scripts of <=36 submit/retry/pass/pause/checkpoint steps plus host-side emissions into the materialization bus so that recorded truth channels are non-empty; three contract query observers installed: answering, failing, residual). A generated list of 4-28 requests - observation requests over every frame x projection pairing (valid and invalid), Frontier and Tick(t) for t in 0..len+2, channel filters, four query ids, bounded/unbounded budgets, scoped rights, observer instances, mismatching plans, unknown worldlines; optic requests over focus x coordinate (frontier, tick, full provenance coordinate with genuine / foreign commit id and genuine / foreign worldline, strand) x six aperture shapes x byte/tick budgets - is served against the history, each request twice; then 1-16 more steps and a flush pass commit further ticks and a worldline is forked in provenance; every request that named a historical coordinate is asked again verbatim and the whole list is served afresh. Oracles: (1) `{:#?}` of WorldlineRuntime and ProvenanceService, full state fingerprints, inbox pending counts, global tick and the engine snapshot/bus are identical around every read; (2) the two servings are equal including artifact_hash, and different artifacts never share a hash; (3) the resolved coordinate, commit id, state root, commit global tick, recorded outputs (captured from provenance when the tick committed) and query bytes of a reading equal the harness's live ledger at that coordinate and the root / commit id of the state replayed at it from a checkpoint-free copy; historical readings are content-identical after later commits and forks (the asking-time freshness stamp excluded); optic readings equal the plain observation of the same coordinate; (4) every invalid or unavailable request is refused with the documented typed error class (exactly one invalid aspect -> exactly that class), valid requests are served unless their own declared budget is exceeded, a bounded reading never exceeds its budget. Non-trivial = at least one historical request re-asked after the history grew.",
        assumptions: &[
            "observed_after_global_tick is an asking-time freshness stamp by design: it (and the artifact hash covering it) is compared between repeats at the same frontier only",
            "the query observers are harness code: they answer as a pure function of the resolved coordinate handed to them, so the check decides whether the service resolves and passes the right coordinate",
            "KernelPort::observe / observe_cbor (warp-wasm) are exercised by the C13 totality targets, not here",
        ],
        subs: c16::subs,
        max_shards: 16,
    },
    Property {
        id: "C15",
        level: "exploration",
        rule: "proptest: a base worldline (1-2 heads) runs a generated script; one or two strands are forked through WorldlineRuntime::fork_strand at generated ticks (the second possibly from the first strand's child lane: a chain), Shared (90%) or AuthorOnly, each valid fork preceded by four invalid ones (tick out of range, child id taken, duplicate heads, head of another lane); optionally a support pin; then 2-28 generated steps tick base and strand lanes through the ordinary scheduler with intents (plain and ticketed) whose data-driven programs are realised against the lane they are sent to; finally every strand is compared, planned twice and settled (inner first) under a generated plural policy, optionally after pre-binding the plan's plural id to another braid shell on a copy so that the last fallible step of settlement fails. Oracles: copied prefix equals the parent's entries modulo lane id, child state = parent state replayed at the fork tick, basis pins the parent's recorded commit, heads fresh and disjoint, invalid forks leave `{:#?}` of runtime and provenance identical; isolation: per pass a lane without its own commit keeps length and content, and as a metamorphic relation the run with every strand-directed submission dropped has identical per-tick (state root, commit id, patch digest) chains on every base lane, and the run with base submissions dropped has identical chains on every strand lane; compare/plan leave both renderings identical and plan is deterministic; the basis report's parent-movement class equals the harness's own slot-set computation; a clean suffix on an unmoved or disjointly moved parent is fully imported; nothing imports after the first retained decision; failed settlement (injected) leaves both renderings identical; successful settlement appends exactly one entry per decision, leaves the strand lane untouched, gives the parent the strand's value on every out-slot of every imported patch, leaves the parent root unchanged across conflict/plural entries, changes no slot the parent wrote since the anchor, and the parent replays from U0 to its live state. Non-trivial = parent moved with overlap and the suffix has >=2 entries.",
        assumptions: &[
            "retries and restarts are excluded from these scripts (retry picks are by submission index, which differs between the compared runs; a restart drops session-scoped strands)",
            "slot values are read through public store accessors; port slots are not compared",
        ],
        subs: c15::subs,
        max_shards: 16,
    },
    Property {
        id: "C07",
        level: "exploration",
        rule: "proptest: generated runtime histories (1-2 worldlines x 1-2 heads, generated initial multi-instance states, scripts of <=44 submit/retry/pass/pause/resume/checkpoint steps whose intents carry data-driven rewrite programs realised against the current state; live ledger recorded after every committed tick). Per worldline: replay at every tick from a checkpoint-free rebuild must equal the live ledger (full store content of every instance, state root, commit id, patch digest) and the harness's own fold of patches from U0; then for histories with <=4 ticks (quick) / <=6 (thorough) EVERY checkpoint subset K of {0..len} x EVERY (start, target) pair: fresh cursor seek(start) then seek(target), and service-level replay, must produce the same materialised WorldlineState (content, tick_history, last_snapshot, tick counter) as the checkpoint-free replay; longer histories use 6 sampled subsets; a 4-24 step random cursor walk (seek, step forward/back, Seek mode, Play, checkpoint insertion); forks at every tick (with the script's own checkpoints copied) replay to the parent's prefix and have no extra history. Non-trivial = a path with a backward move or a checkpoint strictly between position and target.",
        assumptions: &[
            "full-state equality uses GraphStore::canonical_state_hash per instance plus instance records; ingress event nodes (foreign ids) are covered by it",
            "replay reconstructs metadata deterministically, so replayed states are compared with each other in full and with the live frontier on content and hashes",
        ],
        subs: c07::subs,
        max_shards: 16,
    },
    ])
}
