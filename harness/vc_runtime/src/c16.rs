//! C16 — observation is read-only and bound to its coordinate.
//!
//! A generated runtime history is produced in two phases. After phase 1 every generated
//! request (observation requests of every frame x projection x coordinate shape, and optic
//! requests of every focus x coordinate x aperture x budget shape) is served twice against
//! the same history; then phase 2 commits more ticks (and forks a worldline) and the whole
//! request list is served again.
//!
//! Oracles:
//!  * read-only: `{:#?}` renderings of runtime and provenance, full state fingerprints,
//!    inbox pending counts, global tick and the engine's public state are identical before
//!    and after every read;
//!  * determinism: same request, same history -> identical artifact (incl. artifact hash);
//!  * coordinate binding: the content of a successful reading equals what the harness derives
//!    from its own live ledger (recorded at commit time) and from the state replayed at that
//!    coordinate; a historical reading is unchanged by later commits and forks;
//!  * unavailable / invalid requests yield the typed error (obstruction), never a reading;
//!  * artifact hashes of different artifacts differ.

use crate::hist::*;
use proptest::prelude::*;
use serde::{Deserialize, Serialize};
use std::collections::BTreeMap;
use vkit::{prop_sub, vensure, vensure_eq, vfail, Check, Ctx, Fail, Probe, Sub};
use vmodel::rt::*;
use warp_core::materialization::{ChannelId, EmitKey};
use warp_core::{
    AttachmentDescentPolicy, AttachmentKey, AuthoredObserverPlan, BuiltinObserverPlan, ContractQueryObserver,
    ContractQueryObserverError, ContractQueryObserverResult, CoordinateAt, EchoCoordinate, NodeKey, ObservationArtifact,
    ObservationAt, ObservationCoordinate, ObservationError, ObservationFrame, ObservationPayload, ObservationProjection,
    ObservationReadBudget, ObservationRequest, ObservationRights, ObservationService, ObserveOpticRequest,
    ObserveOpticResult, ObserverInstanceId, ObserverInstanceRef, ObserverPlanId, OpticAperture, OpticApertureShape,
    OpticCapabilityId, OpticFocus, OpticId, OpticObstructionKind, OpticReadBudget, ProjectionVersion, ProvenanceRef,
    ProvenanceStore, ReadingObserverPlan, ReadingResidualPosture, StrandId, WorldlineId,
};

// ---------------------------------------------------------------------------
// case

#[derive(Clone, Debug, Serialize, Deserialize)]
pub enum Step16 {
    Base(Step),
    /// host-side emission into the engine's materialization bus before the next pass
    Emit { channel: u8, key: u8, bytes: Vec<u8> },
}

#[derive(Clone, Debug, Serialize, Deserialize)]
pub enum AtSeed {
    Frontier,
    /// pick over 0..len+2 (the last two are future ticks)
    Tick(u16),
}

#[derive(Clone, Debug, Serialize, Deserialize)]
pub enum ProjSeed {
    Head,
    Snapshot,
    Truth(Option<Vec<u8>>),
    /// query id selector: 0 ok, 1 failing observer, 2 residual observer, 3 not installed
    Query(u8, Vec<u8>),
}

#[derive(Clone, Debug, Serialize, Deserialize)]
pub enum BudgetSeed {
    Unbounded,
    Bounded { bytes: u16, refs: u8 },
    Huge,
}

#[derive(Clone, Debug, Serialize, Deserialize)]
pub struct ObsSeed {
    /// worldline pick; values >= 250 name an unknown worldline
    pub wl: u8,
    pub at: AtSeed,
    /// None = the frame that matches the projection; Some(k) = frame k (possibly mismatching)
    pub frame: Option<u8>,
    pub proj: ProjSeed,
    pub budget: BudgetSeed,
    pub scoped_rights: bool,
    pub instance: bool,
    /// 0 = matching plan, 1 = another builtin plan, 2 = authored plan (installed one for queries)
    pub plan: u8,
}

#[derive(Clone, Debug, Serialize, Deserialize)]
pub enum OpticCoordSeed {
    Frontier,
    Tick(u16),
    /// full provenance coordinate: tick pick, commit hash genuine?, worldline genuine?
    Prov { tick: u16, hash_ok: bool, wl_ok: bool },
    Strand,
}

#[derive(Clone, Debug, Serialize, Deserialize)]
pub struct OpticSeed {
    pub wl: u8,
    /// 0 = worldline focus (same worldline), 1 = worldline focus (other worldline),
    /// 2 = strand focus, 3 = attachment boundary focus
    pub focus: u8,
    pub coord: OpticCoordSeed,
    /// 0 Head, 1 SnapshotMetadata, 2 TruthChannels, 3 QueryBytes, 4 ByteRange, 5 AttachmentBoundary
    pub shape: u8,
    /// None, 0, small (<128), large
    pub max_bytes: Option<u16>,
    pub max_ticks: Option<u8>,
    pub explicit_descent: bool,
    pub max_attachments: Option<u8>,
}

#[derive(Clone, Debug, Serialize, Deserialize)]
pub enum ReqSeed {
    Obs(ObsSeed),
    Optic(OpticSeed),
}

#[derive(Clone, Debug, Serialize, Deserialize)]
pub struct Case16 {
    pub world: WorldSeed,
    pub phase1: Vec<Step16>,
    pub reqs: Vec<ReqSeed>,
    pub phase2: Vec<Step16>,
    /// fork (worldline pick, tick pick) between the phases
    pub fork: Option<(u8, u16)>,
    /// recorded outputs injected per (worldline, tick) (cycled): (channel, bytes)
    pub outs: Vec<Vec<(u8, Vec<u8>)>>,
}

fn step16() -> impl Strategy<Value = Step16> {
    prop_oneof![
        6 => step_seed().prop_map(Step16::Base),
        1 => (0u8..4, 0u8..3, prop::collection::vec(any::<u8>(), 0..6)).prop_map(|(channel, key, bytes)| Step16::Emit { channel, key, bytes }),
    ]
}

fn at_seed() -> impl Strategy<Value = AtSeed> {
    prop_oneof![1 => Just(AtSeed::Frontier), 4 => any::<u16>().prop_map(AtSeed::Tick)]
}

fn obs_seed() -> impl Strategy<Value = ObsSeed> {
    (
        prop_oneof![12 => 0u8..250, 1 => 250u8..=255],
        at_seed(),
        prop_oneof![8 => Just(None), 1 => (0u8..3).prop_map(Some)],
        prop_oneof![
            2 => Just(ProjSeed::Head),
            2 => Just(ProjSeed::Snapshot),
            3 => prop::option::of(prop::collection::vec(0u8..5, 0..3)).prop_map(ProjSeed::Truth),
            3 => (prop_oneof![5 => Just(0u8), 1 => Just(1u8), 2 => Just(2u8), 1 => Just(3u8)], prop::collection::vec(any::<u8>(), 0..5)).prop_map(|(q, v)| ProjSeed::Query(q, v)),
        ],
        prop_oneof![
            6 => Just(BudgetSeed::Unbounded),
            3 => (0u16..200, 0u8..3).prop_map(|(bytes, refs)| BudgetSeed::Bounded { bytes, refs }),
            1 => Just(BudgetSeed::Huge),
        ],
        prop::bool::weighted(0.06),
        prop::bool::weighted(0.06),
        prop_oneof![12 => Just(0u8), 1 => Just(1u8), 2 => Just(2u8)],
    )
        .prop_map(|(wl, at, frame, proj, budget, scoped_rights, instance, plan)| ObsSeed { wl, at, frame, proj, budget, scoped_rights, instance, plan })
}

fn optic_seed() -> impl Strategy<Value = OpticSeed> {
    (
        prop_oneof![12 => 0u8..250, 1 => 250u8..=255],
        prop_oneof![10 => Just(0u8), 1 => Just(1u8), 1 => Just(2u8), 1 => Just(3u8)],
        prop_oneof![
            2 => Just(OpticCoordSeed::Frontier),
            4 => any::<u16>().prop_map(OpticCoordSeed::Tick),
            5 => (any::<u16>(), prop::bool::weighted(0.6), prop::bool::weighted(0.85)).prop_map(|(tick, hash_ok, wl_ok)| OpticCoordSeed::Prov { tick, hash_ok, wl_ok }),
            1 => Just(OpticCoordSeed::Strand),
        ],
        prop_oneof![5 => Just(0u8), 5 => Just(1u8), 1 => Just(2u8), 1 => Just(3u8), 1 => Just(4u8), 1 => Just(5u8)],
        prop_oneof![1 => Just(None), 1 => Just(Some(0u16)), 2 => (1u16..128).prop_map(Some), 8 => (128u16..4096).prop_map(Some)],
        prop_oneof![4 => Just(None), 3 => (0u8..4).prop_map(Some)],
        any::<bool>(),
        prop::option::of(0u8..3),
    )
        .prop_map(|(wl, focus, coord, shape, max_bytes, max_ticks, explicit_descent, max_attachments)| OpticSeed { wl, focus, coord, shape, max_bytes, max_ticks, explicit_descent, max_attachments })
}

fn case16() -> impl Strategy<Value = Case16> {
    (
        world_seed(2, 2),
        prop::collection::vec(step16(), 6..40),
        prop::collection::vec(prop_oneof![3 => obs_seed().prop_map(ReqSeed::Obs), 2 => optic_seed().prop_map(ReqSeed::Optic)], 4..28),
        prop::collection::vec(step16(), 1..16),
        prop::option::of((any::<u8>(), any::<u16>())),
        prop::collection::vec(prop::collection::vec((0u8..5, prop::collection::vec(any::<u8>(), 0..9)), 0..4), 1..6),
    )
        .prop_map(|(world, phase1, reqs, phase2, fork, outs)| Case16 { world, phase1, reqs, phase2, fork, outs })
}

// ---------------------------------------------------------------------------
// the world with a recorded-outputs ledger and installed query observers

fn channel(i: u8) -> ChannelId {
    warp_core::make_type_id(&format!("verif/channel/{i}"))
}

const Q_OK: u32 = 7001;
const Q_FAIL: u32 = 7002;
const Q_RESIDUAL: u32 = 7003;
const Q_MISSING: u32 = 7004;

fn qid(sel: u8) -> u32 {
    match sel % 4 {
        0 => Q_OK,
        1 => Q_FAIL,
        2 => Q_RESIDUAL,
        _ => Q_MISSING,
    }
}

fn authored_plan(q: u32) -> AuthoredObserverPlan {
    let h = |t: &str| *blake3::hash(format!("verif/c16/{t}/{q}").as_bytes()).as_bytes();
    AuthoredObserverPlan {
        plan_id: ObserverPlanId::from_bytes(h("plan")),
        artifact_hash: h("artifact"),
        schema_hash: h("schema"),
        state_schema_hash: h("state"),
        update_law_hash: h("update"),
        emission_law_hash: h("emission"),
    }
}

/// What the harness's query observer answers: a pure function of the resolved coordinate,
/// the vars, and the recorded provenance entry at the resolved coordinate.
fn query_answer(tick: u64, state_root: &[u8; 32], commit_hash: &[u8; 32], vars: &[u8]) -> Vec<u8> {
    let mut out = b"Q16".to_vec();
    out.extend_from_slice(&tick.to_le_bytes());
    out.extend_from_slice(&state_root[..8]);
    out.extend_from_slice(&commit_hash[..8]);
    out.extend_from_slice(vars);
    out
}

fn install_observers(w: &mut World) {
    for q in [Q_OK, Q_RESIDUAL] {
        let obs = ContractQueryObserver::new(q, authored_plan(q), move |ctx| {
            let r = ctx.resolved;
            let bytes = query_answer(r.resolved_worldline_tick.as_u64(), &r.state_root, &r.commit_hash, ctx.vars_bytes);
            Ok(if q == Q_OK { ContractQueryObserverResult::complete(bytes) } else { ContractQueryObserverResult::residual(bytes) })
        });
        w.engine.register_contract_query_observer(obs).expect("install observer");
    }
    let obs = ContractQueryObserver::new(Q_FAIL, authored_plan(Q_FAIL), move |ctx| Err(ContractQueryObserverError::failed(ctx.query_id, "verif: observer refuses")));
    w.engine.register_contract_query_observer(obs).expect("install failing observer");
}

/// Recorded facts per worldline tick, captured when the tick was committed.
#[derive(Clone, Debug, PartialEq, Eq)]
struct Recorded {
    outputs: Vec<(ChannelId, Vec<u8>)>,
}

struct W16 {
    w: World,
    outs: Vec<Vec<(u8, Vec<u8>)>>,
    recorded: Vec<Vec<Recorded>>,
    /// forked child: (child worldline id, parent index, fork tick)
    child: Option<(WorldlineId, u8, u64)>,
}

impl W16 {
    /// Recorded outputs the harness retains for (worldline, tick): unique channels in channel-id order.
    fn outputs_for(&self, wl: u8, t: u64) -> Vec<(ChannelId, Vec<u8>)> {
        let src = &self.outs[((t as usize) + 3 * wl as usize) % self.outs.len()];
        let mut m: BTreeMap<ChannelId, Vec<u8>> = BTreeMap::new();
        for (c, b) in src {
            m.entry(channel(*c)).or_insert_with(|| b.clone());
        }
        m.into_iter().collect()
    }

    fn capture(&mut self) -> Check {
        for wl in 0..self.w.n_wl() as u8 {
            let len = self.w.len(wl);
            while (self.recorded[wl as usize].len() as u64) < len {
                let t = self.recorded[wl as usize].len() as u64;
                let e = self.w.provenance.entry(wl_id(wl), wt(t)).map_err(|e| Fail::new("C16/harness/entry", format!("{e:?}")))?;
                vensure!(e.outputs.is_empty(), "C16/harness/coordinator-records-outputs", "the coordinator recorded outputs; the harness assumed it records none and injects its own");
                let outputs = self.outputs_for(wl, t);
                self.recorded[wl as usize].push(Recorded { outputs });
            }
        }
        Ok(())
    }

    fn apply(&mut self, seed: &WorldSeed, steps: &[Step16], probe: &mut Probe) -> Check {
        for s in steps {
            match s {
                Step16::Base(b) => {
                    let tag = self.w.apply_step(seed, b);
                    if tag.starts_with("pass:ok") {
                        self.capture()?;
                    }
                    if tag == "pass:panic" || tag == "pass:err" {
                        probe.class("script-pass-failed");
                    }
                }
                Step16::Emit { channel: c, key, bytes } => {
                    let k = EmitKey::new(*blake3::hash(&[*key]).as_bytes(), *key as u32);
                    let _ = self.w.engine.materialization_bus().emit(channel(*c), k, bytes.clone());
                }
            }
        }
        self.capture()
    }
}

// ---------------------------------------------------------------------------
// fingerprints

#[derive(Clone, PartialEq, Eq)]
struct Fp {
    runtime: String,
    provenance: String,
    states: Vec<StateFp>,
    pending: Vec<usize>,
    global_tick: u64,
    engine: String,
}

/// Complete fingerprint (expensive: full `{:#?}` renderings); taken around every serving round.
fn fingerprint_full(w: &World) -> Fp {
    let mut f = fingerprint(w);
    f.runtime = hex::encode(vkit::debug_hash(&w.runtime));
    f.provenance = hex::encode(vkit::debug_hash(&w.provenance));
    f
}

/// Per-read fingerprint: full frontier state content, inbox pending counts, global tick,
/// history lengths and tips, fault and checkpoint counts, engine snapshot and bus state.
fn fingerprint(w: &World) -> Fp {
    let mut prov = String::new();
    for wl in 0..w.n_wl() as u8 {
        let id = wl_id(wl);
        prov.push_str(&format!("{}:{:?}:{:?};", w.len(wl), w.provenance.tip_ref(id).ok().flatten().map(|r| r.commit_hash), w.provenance.checkpoint_before(id, wt(u64::MAX)).map(|c| c.worldline_tick)));
    }
    Fp {
        runtime: format!("faults={} order={:?}", w.runtime.scheduler_fault_count(), warp_core::SchedulerCoordinator::peek_order(&w.runtime)),
        provenance: prov,
        states: (0..w.n_wl() as u8).map(|wl| state_fp(w.frontier(wl))).collect(),
        pending: w.runtime.heads().iter().map(|(_, h)| h.inbox().pending_count()).collect(),
        global_tick: w.runtime.global_tick().as_u64(),
        engine: format!("{:?}|bus-empty={}", w.engine.snapshot(), w.engine.materialization_bus().is_empty()),
    }
}

fn fp_diff(a: &Fp, b: &Fp) -> Option<&'static str> {
    if a.runtime != b.runtime {
        return Some("runtime");
    }
    if a.provenance != b.provenance {
        return Some("provenance");
    }
    if a.states != b.states {
        return Some("frontier-states");
    }
    if a.pending != b.pending {
        return Some("inboxes");
    }
    if a.global_tick != b.global_tick {
        return Some("global-tick");
    }
    if a.engine != b.engine {
        return Some("engine");
    }
    None
}

// ---------------------------------------------------------------------------
// observation requests: realisation + model

#[derive(Clone)]
struct RealObs {
    req: ObservationRequest,
    /// (worldline index or None when unknown, is child)
    wl: Option<u8>,
    /// invalid aspects (error class names); empty = must succeed (modulo budget)
    invalid: Vec<&'static str>,
    /// requested tick in entry numbering, None = frontier
    tick: Option<u64>,
}

fn unknown_wl() -> WorldlineId {
    WorldlineId::from_bytes([0xEE; 32])
}

fn proj_kind(p: &ProjSeed) -> u8 {
    match p {
        ProjSeed::Head | ProjSeed::Snapshot => 0,
        ProjSeed::Truth(_) => 1,
        ProjSeed::Query(..) => 2,
    }
}

fn frame_of(k: u8) -> ObservationFrame {
    match k % 3 {
        0 => ObservationFrame::CommitBoundary,
        1 => ObservationFrame::RecordedTruth,
        _ => ObservationFrame::QueryView,
    }
}

fn builtin_plan(frame: u8, proj: &ProjSeed) -> BuiltinObserverPlan {
    match (frame % 3, proj) {
        (_, ProjSeed::Head) => BuiltinObserverPlan::CommitBoundaryHead,
        (_, ProjSeed::Snapshot) => BuiltinObserverPlan::CommitBoundarySnapshot,
        (_, ProjSeed::Truth(_)) => BuiltinObserverPlan::RecordedTruthChannels,
        (_, ProjSeed::Query(..)) => BuiltinObserverPlan::QueryBytes,
    }
}

fn realise_obs(x: &W16, s: &ObsSeed) -> RealObs {
    let w = &x.w;
    let mut invalid = Vec::new();
    let (wl, id) = if s.wl >= 250 {
        invalid.push("InvalidWorldline");
        (None, unknown_wl())
    } else {
        let wl = w.wl_of(s.wl);
        (Some(wl), wl_id(wl))
    };
    let len = wl.map(|wl| w.len(wl)).unwrap_or(0);
    let (at, tick) = match &s.at {
        AtSeed::Frontier => (ObservationAt::Frontier, None),
        AtSeed::Tick(p) => {
            let t = vkit::pick_idx(*p, (len + 2) as usize) as u64;
            (ObservationAt::Tick(wt(t)), Some(t))
        }
    };
    let natural = proj_kind(&s.proj);
    let fk = s.frame.unwrap_or(natural) % 3;
    if fk != natural {
        invalid.push("UnsupportedFrameProjection");
    }
    let projection = match &s.proj {
        ProjSeed::Head => ObservationProjection::Head,
        ProjSeed::Snapshot => ObservationProjection::Snapshot,
        ProjSeed::Truth(f) => ObservationProjection::TruthChannels { channels: f.as_ref().map(|v| v.iter().map(|c| channel(*c)).collect()) },
        ProjSeed::Query(q, vars) => ObservationProjection::Query { query_id: qid(*q), vars_bytes: vars.clone() },
    };
    if fk == natural {
        if let ProjSeed::Query(q, _) = &s.proj {
            match qid(*q) {
                Q_MISSING => invalid.push("UnsupportedQuery"),
                Q_FAIL => invalid.push("ContractQueryObserverFailed"),
                _ => {}
            }
        }
    }
    if wl.is_some() {
        match tick {
            Some(t) if t >= len => invalid.push("InvalidTick"),
            None if fk == 1 && len == 0 => invalid.push("ObservationUnavailable"),
            _ => {}
        }
    }
    let matching = ReadingObserverPlan::Builtin { plan: builtin_plan(fk, &s.proj) };
    let observer_plan = match (s.plan, &s.proj) {
        (0, _) => matching,
        (2, ProjSeed::Query(q, _)) if matches!(qid(*q), Q_OK | Q_RESIDUAL | Q_FAIL) => ReadingObserverPlan::Authored { plan: Box::new(authored_plan(qid(*q))) },
        (2, _) => {
            invalid.push("UnsupportedObserverPlan");
            ReadingObserverPlan::Authored { plan: Box::new(authored_plan(1)) }
        }
        (_, p) => {
            // a builtin plan that does not belong to this projection
            let other = match p {
                ProjSeed::Head => BuiltinObserverPlan::CommitBoundarySnapshot,
                _ => BuiltinObserverPlan::CommitBoundaryHead,
            };
            invalid.push("UnsupportedObserverPlan");
            ReadingObserverPlan::Builtin { plan: other }
        }
    };
    let observer_instance = if s.instance {
        invalid.push("UnsupportedObserverInstance");
        Some(ObserverInstanceRef { instance_id: ObserverInstanceId::from_bytes([3; 32]), plan_id: ObserverPlanId::from_bytes([4; 32]), state_hash: [5; 32] })
    } else {
        None
    };
    let rights = if s.scoped_rights {
        invalid.push("UnsupportedRights");
        ObservationRights::CapabilityScoped { capability: OpticCapabilityId::from_bytes([6; 32]) }
    } else {
        ObservationRights::KernelPublic
    };
    let budget = match &s.budget {
        BudgetSeed::Unbounded => ObservationReadBudget::UnboundedOneShot,
        BudgetSeed::Bounded { bytes, refs } => ObservationReadBudget::Bounded { max_payload_bytes: *bytes as u64, max_witness_refs: *refs as u64 },
        BudgetSeed::Huge => ObservationReadBudget::Bounded { max_payload_bytes: u64::MAX, max_witness_refs: u64::MAX },
    };
    RealObs {
        req: ObservationRequest { coordinate: ObservationCoordinate { worldline_id: id, at }, frame: frame_of(fk), projection, observer_plan, observer_instance, budget, rights },
        wl,
        invalid,
        tick,
    }
}

fn err_class(e: &ObservationError) -> &'static str {
    match e {
        ObservationError::InvalidWorldline(_) => "InvalidWorldline",
        ObservationError::InvalidTick { .. } => "InvalidTick",
        ObservationError::UnsupportedFrameProjection { .. } => "UnsupportedFrameProjection",
        ObservationError::UnsupportedQuery { .. } => "UnsupportedQuery",
        ObservationError::ContractQueryObserverFailed { .. } => "ContractQueryObserverFailed",
        ObservationError::UnsupportedObserverPlan(_) => "UnsupportedObserverPlan",
        ObservationError::UnsupportedObserverInstance(_) => "UnsupportedObserverInstance",
        ObservationError::UnsupportedRights(_) => "UnsupportedRights",
        ObservationError::BudgetExceeded { .. } => "BudgetExceeded",
        ObservationError::ObservationUnavailable { .. } => "ObservationUnavailable",
        ObservationError::CodecFailure(_) => "CodecFailure",
    }
}

fn hx(h: &[u8; 32]) -> String {
    h[..6].iter().map(|b| format!("{b:02x}")).collect()
}

/// The content of a reading that does not depend on the asking moment.
fn stable_content(a: &ObservationArtifact) -> String {
    let mut r = a.resolved.clone();
    r.observed_after_global_tick = None;
    format!("{:?}|{:?}|{:?}|{:?}|{:?}|{:?}|{:?}", r, a.frame, a.projection, a.payload, a.reading.witness_refs, a.reading.observer_plan, a.reading.residual_posture)
}

/// Check a successful observation artifact against the harness's own ledger.
type ReplayCache = BTreeMap<(u8, u64), ([u8; 32], Option<[u8; 32]>)>;

fn check_artifact(x: &W16, ro: &RealObs, a: &ObservationArtifact, strip: Option<&warp_core::ProvenanceService>, cache: &mut ReplayCache, probe: &mut Probe) -> Check {
    let w = &x.w;
    let wl = ro.wl.expect("successful read names a known worldline");
    let ledger = &w.ledger[wl as usize];
    let len = w.len(wl);
    vensure_eq!(ledger.len() as u64, len, "C16/harness/ledger-length", "worldline {wl}");
    let frame = ro.req.frame;
    // expected resolved coordinate
    let (exp_tick, entry_ix): (u64, Option<usize>) = match (frame, ro.tick) {
        (_, Some(t)) => (t, Some(t as usize)),
        (ObservationFrame::RecordedTruth, None) => (len - 1, Some((len - 1) as usize)),
        (_, None) => (len, if len > 0 { Some((len - 1) as usize) } else { None }),
    };
    vensure_eq!(a.resolved.worldline_id, wl_id(wl), "C16/binding/worldline", "");
    vensure_eq!(a.resolved.requested_at, ro.req.coordinate.at, "C16/binding/requested-at", "");
    vensure_eq!(a.resolved.resolved_worldline_tick.as_u64(), exp_tick, "C16/binding/resolved-tick", "request {:?} frame {:?} on worldline {wl} with {len} commits", ro.req.coordinate.at, frame);
    match entry_ix {
        Some(ix) => {
            let lt = &ledger[ix];
            vensure!(
                a.resolved.state_root == lt.state_root && a.resolved.commit_hash == lt.commit_hash,
                "C16/binding/reading-of-another-state",
                "request {:?} frame {:?} (worldline {wl}, {len} commits) resolved to root {} commit {}, the ledger recorded root {} commit {} for that coordinate",
                ro.req.coordinate.at, frame, hx(&a.resolved.state_root), hx(&a.resolved.commit_hash), hx(&lt.state_root), hx(&lt.commit_hash)
            );
            vensure_eq!(a.resolved.commit_global_tick.map(|g| g.as_u64()), Some(lt.global_tick), "C16/binding/commit-global-tick", "request {:?}", ro.req.coordinate.at);
        }
        None => {
            vensure_eq!(a.resolved.state_root, w.frontier(wl).state_root(), "C16/binding/empty-frontier-root", "");
            vensure!(a.resolved.commit_global_tick.is_none(), "C16/binding/commit-global-tick", "empty worldline has a commit stamp");
        }
    }
    if ro.tick.is_none() && frame != ObservationFrame::RecordedTruth {
        vensure_eq!(a.resolved.state_root, w.frontier(wl).state_root(), "C16/binding/frontier-root-is-not-live-root", "worldline {wl}");
    }
    vensure!(a.resolved.observed_after_global_tick.map(|g| g.as_u64()).unwrap_or(0) == w.runtime.global_tick().as_u64(), "C16/binding/freshness-stamp", "observed_after {:?} vs global tick {}", a.resolved.observed_after_global_tick, w.runtime.global_tick().as_u64());
    // the state replayed at that coordinate
    if let (Some(ix), Some(p)) = (entry_ix, strip) {
        let (root, commit) = match cache.get(&(wl, ix as u64)) {
            Some(v) => *v,
            None => {
                let r = p.replay_worldline_state_at(wl_id(wl), &w.initial[wl as usize], wt(ix as u64 + 1)).map_err(|e| Fail::new("C16/harness/replay", format!("{e:?}")))?;
                let v = (r.state_root(), r.last_snapshot().map(|s| s.hash));
                cache.insert((wl, ix as u64), v);
                v
            }
        };
        vensure_eq!(root, a.resolved.state_root, "C16/binding/differs-from-replayed-state", "request {:?}: replay of commits 0..={ix}", ro.req.coordinate.at);
        if let Some(h) = commit {
            vensure_eq!(h, a.resolved.commit_hash, "C16/binding/differs-from-replayed-state", "commit id at {ix}");
        }
    }
    // payload
    vensure_eq!(a.frame, frame, "C16/artifact/frame", "");
    vensure!(a.projection == ro.req.projection, "C16/artifact/projection", "");
    match (&ro.req.projection, &a.payload) {
        (ObservationProjection::Head, ObservationPayload::Head(h)) => {
            vensure!(h.worldline_tick == a.resolved.resolved_worldline_tick && h.state_root == a.resolved.state_root && h.commit_hash == a.resolved.commit_hash && h.commit_global_tick == a.resolved.commit_global_tick, "C16/payload/head-disagrees-with-resolved", "{h:?} vs {:?}", a.resolved);
        }
        (ObservationProjection::Snapshot, ObservationPayload::Snapshot(h)) => {
            vensure!(h.worldline_tick == a.resolved.resolved_worldline_tick && h.state_root == a.resolved.state_root && h.commit_hash == a.resolved.commit_hash && h.commit_global_tick == a.resolved.commit_global_tick, "C16/payload/snapshot-disagrees-with-resolved", "{h:?} vs {:?}", a.resolved);
        }
        (ObservationProjection::TruthChannels { channels }, ObservationPayload::TruthChannels(got)) => {
            let rec = &x.recorded[wl as usize][entry_ix.expect("truth needs a commit")];
            let expect: Vec<(ChannelId, Vec<u8>)> = rec.outputs.iter().filter(|(c, _)| channels.as_ref().map(|f| f.contains(c)).unwrap_or(true)).cloned().collect();
            if !expect.is_empty() {
                probe.class("truth-channels-nonempty");
            }
            vensure!(*got == expect, "C16/payload/truth-channels-differ-from-recorded", "request {:?} filter {:?}: got {} channels, the entry recorded {} matching", ro.req.coordinate.at, channels.as_ref().map(|c| c.len()), got.len(), expect.len());
        }
        (ObservationProjection::Query { vars_bytes, query_id }, ObservationPayload::QueryBytes(b)) => {
            let lt_root = a.resolved.state_root;
            let expect = query_answer(exp_tick, &lt_root, &a.resolved.commit_hash, vars_bytes);
            vensure!(*b == expect, "C16/payload/query-bytes", "query {query_id}");
            let want = if *query_id == Q_RESIDUAL { "Residual" } else { "Complete" };
            vensure!(format!("{:?}", a.reading.residual_posture).starts_with(want) || (*query_id != Q_RESIDUAL && a.reading.residual_posture == ReadingResidualPosture::Complete), "C16/payload/residual-posture", "query {query_id}: {:?}", a.reading.residual_posture);
            vensure!(a.reading.observer_plan == ReadingObserverPlan::Authored { plan: Box::new(authored_plan(*query_id)) }, "C16/artifact/observer-plan", "query {query_id}");
        }
        (p, pl) => vfail!("C16/payload/kind-mismatch", "projection {p:?} answered with {pl:?}"),
    }
    Ok(())
}

// ---------------------------------------------------------------------------
// optic requests

#[derive(Clone)]
struct RealOptic {
    req: ObserveOpticRequest,
    /// must be obstructed (reason) / may be a reading
    must_obstruct: Option<&'static str>,
    /// clearly valid: a reading is expected
    must_read: bool,
    wl: Option<u8>,
    /// entry index named by the coordinate (None = frontier)
    tick: Option<u64>,
}

fn realise_optic(x: &W16, s: &OpticSeed) -> RealOptic {
    let w = &x.w;
    let mut why: Option<&'static str> = None;
    let mut note = |r: &'static str| {
        if why.is_none() {
            why = Some(r);
        }
    };
    let (wl, id) = if s.wl >= 250 {
        note("unknown-worldline");
        (None, unknown_wl())
    } else {
        let wl = w.wl_of(s.wl);
        (Some(wl), wl_id(wl))
    };
    let len = wl.map(|wl| w.len(wl)).unwrap_or(0);
    let other = if id == wl_id(0) { wl_id(1) } else { wl_id(0) };
    let focus = match s.focus {
        0 => OpticFocus::Worldline { worldline_id: id },
        1 => {
            note("focus-names-other-worldline");
            OpticFocus::Worldline { worldline_id: other }
        }
        2 => {
            note("strand-focus");
            OpticFocus::Strand { strand_id: StrandId::from_bytes([7; 32]) }
        }
        _ => {
            note("attachment-boundary-focus");
            OpticFocus::AttachmentBoundary { key: AttachmentKey::node_alpha(NodeKey { warp_id: vmodel::universe::warp_id(0), local_id: vmodel::universe::node_id(0) }) }
        }
    };
    let mut tick = None;
    let coordinate = match &s.coord {
        OpticCoordSeed::Frontier => EchoCoordinate::Worldline { worldline_id: id, at: CoordinateAt::Frontier },
        OpticCoordSeed::Tick(p) => {
            let t = vkit::pick_idx(*p, (len + 2) as usize) as u64;
            tick = Some(t);
            if t >= len {
                note("future-tick");
            }
            EchoCoordinate::Worldline { worldline_id: id, at: CoordinateAt::Tick(wt(t)) }
        }
        OpticCoordSeed::Prov { tick: p, hash_ok, wl_ok } => {
            let t = vkit::pick_idx(*p, (len + 2) as usize) as u64;
            tick = Some(t);
            if t >= len {
                note("future-tick");
            }
            let genuine = wl.and_then(|wl| w.ledger[wl as usize].get(t as usize)).map(|lt| lt.commit_hash);
            let commit_hash = match (genuine, hash_ok) {
                (Some(h), true) => h,
                (Some(mut h), false) => {
                    // the commit id of the neighbouring tick if there is one, else a flipped bit
                    let nb = wl.and_then(|wl| w.ledger[wl as usize].get((t as usize + 1) % (len.max(1) as usize))).map(|lt| lt.commit_hash);
                    match nb {
                        Some(n) if n != h => h = n,
                        _ => h[31] ^= 1,
                    }
                    note("provenance-coordinate-names-another-commit");
                    h
                }
                (None, _) => [0x42; 32],
            };
            if !wl_ok {
                note("provenance-coordinate-on-other-worldline");
            }
            EchoCoordinate::Worldline { worldline_id: id, at: CoordinateAt::Provenance(ProvenanceRef { worldline_id: if *wl_ok { id } else { other }, worldline_tick: wt(t), commit_hash }) }
        }
        OpticCoordSeed::Strand => {
            note("strand-coordinate");
            EchoCoordinate::Strand { strand_id: StrandId::from_bytes([7; 32]), at: CoordinateAt::Frontier, parent_basis: None }
        }
    };
    let shape = match s.shape % 6 {
        0 => OpticApertureShape::Head,
        1 => OpticApertureShape::SnapshotMetadata,
        2 => {
            note("unsupported-aperture");
            OpticApertureShape::TruthChannels { channels: None }
        }
        3 => {
            note("unsupported-aperture");
            OpticApertureShape::QueryBytes { query_id: Q_OK, vars_digest: [1; 32] }
        }
        4 => {
            note("unsupported-aperture");
            OpticApertureShape::ByteRange { start: 0, len: 16 }
        }
        _ => {
            note("unsupported-aperture");
            OpticApertureShape::AttachmentBoundary
        }
    };
    match s.max_bytes {
        None => note("no-byte-budget"),
        Some(0) => note("zero-byte-budget"),
        Some(b) if b < 128 => note("byte-budget-below-metadata-minimum"),
        _ => {}
    }
    let generous = s.max_bytes.map(|b| b >= 1024).unwrap_or(false) && s.max_ticks.is_none();
    let req = ObserveOpticRequest {
        optic_id: OpticId::from_bytes([0x16; 32]),
        focus,
        coordinate,
        aperture: OpticAperture {
            shape,
            budget: OpticReadBudget { max_bytes: s.max_bytes.map(|b| b as u64), max_nodes: None, max_ticks: s.max_ticks.map(|t| t as u64), max_attachments: s.max_attachments.map(|t| t as u64) },
            attachment_descent: if s.explicit_descent { AttachmentDescentPolicy::Explicit } else { AttachmentDescentPolicy::BoundaryOnly },
        },
        projection_version: ProjectionVersion::from_raw(1),
        reducer_version: None,
        capability: OpticCapabilityId::from_bytes([9; 32]),
    };
    RealOptic { req, must_obstruct: why, must_read: why.is_none() && generous, wl, tick }
}

fn check_optic_reading(x: &W16, ro: &RealOptic, r: &warp_core::OpticReading) -> Check {
    let w = &x.w;
    let wl = ro.wl.expect("reading names a known worldline");
    let ledger = &w.ledger[wl as usize];
    let len = w.len(wl);
    let (exp_tick, entry_ix) = match ro.tick {
        Some(t) => (t, Some(t as usize)),
        None => (len, if len > 0 { Some((len - 1) as usize) } else { None }),
    };
    let (tick, root, commit, cgt) = match &r.payload {
        ObservationPayload::Head(h) => (h.worldline_tick, h.state_root, h.commit_hash, h.commit_global_tick),
        ObservationPayload::Snapshot(h) => (h.worldline_tick, h.state_root, h.commit_hash, h.commit_global_tick),
        other => vfail!("C16/optic/payload-kind", "metadata aperture answered with {other:?}"),
    };
    match (&ro.req.aperture.shape, &r.payload) {
        (OpticApertureShape::Head, ObservationPayload::Head(_)) | (OpticApertureShape::SnapshotMetadata, ObservationPayload::Snapshot(_)) => {}
        (s, p) => vfail!("C16/optic/payload-kind", "aperture {s:?} answered with {p:?}"),
    }
    vensure_eq!(tick.as_u64(), exp_tick, "C16/optic/resolved-tick", "coordinate {:?}", ro.req.coordinate);
    match entry_ix {
        Some(ix) => {
            let lt = &ledger[ix];
            vensure!(root == lt.state_root && commit == lt.commit_hash && cgt.map(|g| g.as_u64()) == Some(lt.global_tick), "C16/optic/reading-of-another-state", "coordinate {:?}: payload root {} commit {}, ledger root {} commit {}", ro.req.coordinate, hx(&root), hx(&commit), hx(&lt.state_root), hx(&lt.commit_hash));
        }
        None => vensure_eq!(root, w.frontier(wl).state_root(), "C16/optic/empty-frontier-root", ""),
    }
    // the envelope is the one the plain observation of the same coordinate carries
    let at = match ro.tick {
        Some(t) => ObservationAt::Tick(wt(t)),
        None => ObservationAt::Frontier,
    };
    let proj = if matches!(ro.req.aperture.shape, OpticApertureShape::Head) { ObservationProjection::Head } else { ObservationProjection::Snapshot };
    let mut plain = ObservationRequest::builtin_one_shot(ObservationCoordinate { worldline_id: wl_id(wl), at }, ObservationFrame::CommitBoundary, proj).map_err(|e| Fail::new("C16/harness/builtin", format!("{e:?}")))?;
    plain.budget = ObservationReadBudget::Bounded { max_payload_bytes: ro.req.aperture.budget.max_bytes.unwrap_or(u64::MAX), max_witness_refs: ro.req.aperture.budget.max_ticks.unwrap_or(u64::MAX) };
    let a = ObservationService::observe(&w.runtime, &w.provenance, &w.engine, plain).map_err(|e| Fail::new("C16/optic/reading-where-plain-observation-fails", format!("{e:?}")))?;
    vensure!(a.payload == r.payload && a.reading == r.envelope, "C16/optic/differs-from-plain-observation", "coordinate {:?}", ro.req.coordinate);
    Ok(())
}

// ---------------------------------------------------------------------------
// serving a request list against the current world

#[derive(Clone)]
enum Served {
    ObsOk(Box<ObservationArtifact>),
    ObsErr(&'static str),
    OpticRead(String, String),
    OpticObstructed(OpticObstructionKind),
}

#[derive(Clone)]
enum Realised {
    Obs(RealObs),
    Optic(RealOptic),
}

struct Round {
    /// per request: the realised request, its outcome, and the historical entry it names (if any)
    items: Vec<(Realised, Served, Option<(u8, u64)>)>,
}

/// A checkpoint-free copy of the history whose entries additionally carry the harness's
/// recorded outputs (the coordinator records none: rules cannot emit yet, and recorded
/// outputs are retained metadata outside the commit id).
fn strip(x: &W16) -> Result<warp_core::ProvenanceService, Fail> {
    let w = &x.w;
    let mut p = warp_core::ProvenanceService::new();
    for wl in 0..w.n_wl() as u8 {
        p.register_worldline(wl_id(wl), &w.initial[wl as usize]).map_err(|e| Fail::new("C16/harness/register", format!("{e:?}")))?;
        for t in 0..w.len(wl) {
            let mut e = w.provenance.entry(wl_id(wl), wt(t)).map_err(|e| Fail::new("C16/harness/entry", format!("{e:?}")))?;
            e.outputs = x.outputs_for(wl, t);
            p.append_local_commit(e).map_err(|e| Fail::new("C16/harness/append", format!("{e:?}")))?;
        }
    }
    Ok(p)
}

fn serve(x: &W16, reqs: &[ReqSeed], probe: &mut Probe, hashes: &mut BTreeMap<[u8; 32], String>) -> Result<Round, Fail> {
    let w = &x.w;
    let stripped = strip(x)?;
    let full_before = fingerprint_full(w);
    let stripped_before = vkit::debug_hash(&stripped);
    let mut replayed: ReplayCache = BTreeMap::new();
    let mut items = Vec::new();
    for rs in reqs {
        let before = fingerprint(w);
        match rs {
            ReqSeed::Obs(s) => {
                let ro = realise_obs(x, s);
                // recorded-truth readings are served from the copy that carries recorded outputs
                let pv = if ro.req.frame == ObservationFrame::RecordedTruth { &stripped } else { &w.provenance };
                let r1 = vkit::catch(|| ObservationService::observe(&w.runtime, pv, &w.engine, ro.req.clone())).map_err(|m| Fail::new("C16/observe-panicked", format!("{:?}: {m}", ro.req)))?;
                if let Some(f) = fp_diff(&before, &fingerprint(w)) {
                    vfail_ret(format!("C16/read-mutated/{f}"), format!("observe({:?}) changed {f}", ro.req))?;
                }
                let r2 = ObservationService::observe(&w.runtime, pv, &w.engine, ro.req.clone());
                if r1 != r2 {
                    vfail_ret("C16/nondeterministic-artifact".into(), format!("same request, same history, different result: {:?}", ro.req))?;
                }
                let hist = match (ro.wl, ro.tick) {
                    (Some(wl), Some(t)) if t < w.len(wl) => Some((wl, t)),
                    _ => None,
                };
                let served = match r1 {
                    Ok(a) => {
                        if !ro.invalid.is_empty() {
                            vfail_ret(format!("C16/reading-for-invalid-request/{}", ro.invalid[0]), format!("{:?} should be refused ({:?}) but produced a reading", ro.req, ro.invalid))?;
                        }
                        check_artifact(x, &ro, &a, Some(&stripped), &mut replayed, probe)?;
                        // budget: a bounded reading never exceeds its declared budget
                        let wire = echo_len(&a);
                        if let ObservationReadBudget::Bounded { max_payload_bytes, max_witness_refs } = ro.req.budget {
                            if wire > max_payload_bytes || a.reading.witness_refs.len() as u64 > max_witness_refs {
                                vfail_ret("C16/budget/reading-exceeds-declared-budget".into(), format!("payload {wire} bytes / {} refs under budget {max_payload_bytes}/{max_witness_refs}", a.reading.witness_refs.len()))?;
                            }
                        }
                        // identity: different content, different hash
                        let content = format!("{:?}|{:?}|{:?}|{:?}|{:?}", a.resolved, a.reading, a.frame, a.projection, a.payload);
                        if let Some(prev) = hashes.insert(a.artifact_hash, content.clone()) {
                            if prev != content {
                                vfail_ret("C16/identity/artifact-hash-collision".into(), format!("two different artifacts share hash {}", hx(&a.artifact_hash)))?;
                            }
                        }
                        probe.class(format!("obs-ok:{:?}/{}", ro.req.frame, if ro.tick.is_some() { "tick" } else { "frontier" }));
                        Served::ObsOk(Box::new(a))
                    }
                    Err(e) => {
                        let c = err_class(&e);
                        if ro.invalid.is_empty() {
                            // the only lawful refusal of a valid request is its own declared budget
                            let bounded = matches!(ro.req.budget, ObservationReadBudget::Bounded { .. }) && !matches!(s.budget, BudgetSeed::Huge);
                            if !(bounded && c == "BudgetExceeded") {
                                vfail_ret(format!("C16/valid-request-refused/{c}"), format!("{:?} -> {e:?}", ro.req))?;
                            }
                            // ... and only when the unbounded reading really exceeds it
                            let mut unb = ro.req.clone();
                            unb.budget = ObservationReadBudget::UnboundedOneShot;
                            if let Ok(a) = ObservationService::observe(&w.runtime, pv, &w.engine, unb) {
                                if let ObservationReadBudget::Bounded { max_payload_bytes, max_witness_refs } = ro.req.budget {
                                    if echo_len(&a) <= max_payload_bytes && a.reading.witness_refs.len() as u64 <= max_witness_refs {
                                        vfail_ret("C16/budget/refused-within-budget".into(), format!("{:?}", ro.req))?;
                                    }
                                }
                            }
                        } else if ro.invalid.len() == 1 && ro.invalid[0] != c && c != "BudgetExceeded" {
                            vfail_ret(format!("C16/wrong-obstruction/{}-reported-as-{c}", ro.invalid[0]), format!("{:?} -> {e:?}", ro.req))?;
                        }
                        probe.class(format!("obs-err:{c}"));
                        Served::ObsErr(c)
                    }
                };
                items.push((Realised::Obs(ro), served, hist));
            }
            ReqSeed::Optic(s) => {
                let ro = realise_optic(x, s);
                let r1 = vkit::catch(|| ObservationService::observe_optic(&w.runtime, &w.provenance, &w.engine, ro.req.clone())).map_err(|m| Fail::new("C16/observe-optic-panicked", format!("{:?}: {m}", ro.req)))?;
                if let Some(f) = fp_diff(&before, &fingerprint(w)) {
                    vfail_ret(format!("C16/read-mutated/{f}"), format!("observe_optic({:?}) changed {f}", ro.req))?;
                }
                let r2 = ObservationService::observe_optic(&w.runtime, &w.provenance, &w.engine, ro.req.clone());
                if r1 != r2 {
                    vfail_ret("C16/nondeterministic-optic-reading".into(), format!("{:?}", ro.req))?;
                }
                let hist = match (ro.wl, ro.tick) {
                    (Some(wl), Some(t)) if t < w.len(wl) => Some((wl, t)),
                    _ => None,
                };
                let served = match r1 {
                    ObserveOpticResult::Reading(r) => {
                        if let Some(why) = ro.must_obstruct {
                            vfail_ret(format!("C16/optic/reading-for-unavailable-request/{why}"), format!("{:?}", ro.req))?;
                        }
                        check_optic_reading(x, &ro, &r)?;
                        probe.class(format!("optic-reading:{}", if ro.tick.is_some() { "historical" } else { "frontier" }));
                        Served::OpticRead(format!("{:?}", r.payload), format!("{:?}", r.read_identity))
                    }
                    ObserveOpticResult::Obstructed(o) => {
                        if ro.must_read {
                            vfail_ret(format!("C16/optic/valid-request-obstructed/{:?}", o.kind), format!("{:?} -> {}", ro.req, o.message))?;
                        }
                        vensure!(o.coordinate.as_ref() == Some(&ro.req.coordinate) && o.optic_id == Some(ro.req.optic_id), "C16/optic/obstruction-names-other-request", "{o:?}");
                        probe.class(format!("optic-obstructed:{:?}", o.kind));
                        Served::OpticObstructed(o.kind)
                    }
                };
                items.push((Realised::Optic(ro), served, hist));
            }
        }
        probe.evals(2);
    }
    if stripped_before != vkit::debug_hash(&stripped) {
        return Err(Fail::new("C16/read-mutated/provenance", "serving recorded-truth requests changed the provenance copy"));
    }
    if let Some(f) = fp_diff(&full_before, &fingerprint_full(w)) {
        return Err(Fail::new(format!("C16/read-mutated/{f}"), format!("serving the request list changed {f} (full rendering)")));
    }
    Ok(Round { items })
}

fn vfail_ret(sig: String, msg: String) -> Result<(), Fail> {
    Err(Fail::new(sig, msg))
}

/// Encoded payload size in the ABI's canonical CBOR (what the declared budget bounds).
fn echo_len(a: &ObservationArtifact) -> u64 {
    echo_wasm_abi::encode_cbor(&a.to_abi().payload).map(|b| b.len() as u64).unwrap_or(u64::MAX)
}

// ---------------------------------------------------------------------------

fn check16(_ctx: &Ctx, c: &Case16, probe: &mut Probe) -> Check {
    let mut w = build_world(&c.world);
    install_observers(&mut w);
    let n = w.n_wl();
    let mut x = W16 { w, outs: c.outs.clone(), recorded: vec![Vec::new(); n], child: None };
    x.apply(&c.world, &c.phase1, probe)?;
    let mut hashes = BTreeMap::new();
    let round1 = serve(&x, &c.reqs, probe, &mut hashes)?;
    let lens1: Vec<u64> = (0..n as u8).map(|wl| x.w.len(wl)).collect();
    let gt1 = x.w.runtime.global_tick().as_u64();

    // later commits and a fork
    x.apply(&c.world, &c.phase2, probe)?;
    let flush = [Step16::Base(Step::Pass)];
    x.apply(&c.world, &flush, probe)?;
    if let Some((wlp, tp)) = &c.fork {
        let wl = x.w.wl_of(*wlp);
        let len = x.w.len(wl);
        if len > 0 {
            let t = vkit::pick_idx(*tp, len as usize) as u64;
            let child = wl_id(6);
            x.w.provenance.fork(wl_id(wl), wt(t), child).map_err(|e| Fail::new("C16/harness/fork", format!("{e:?}")))?;
            x.child = Some((child, wl, t));
            probe.class("forked");
        }
    }
    let moved = (0..n as u8).any(|wl| x.w.len(wl) > lens1[wl as usize]);

    // the same questions again
    let mut hashes2 = BTreeMap::new();
    let mut any_hist_reasked = false;
    let stripped = strip(&x)?;
    let mut replayed: ReplayCache = BTreeMap::new();
    let full_before2 = fingerprint_full(&x.w);
    for (real, served1, hist1) in &round1.items {
        if hist1.is_none() {
            continue;
        }
        // a historical coordinate: the very same request is asked again
        let before = fingerprint(&x.w);
        match real {
            Realised::Obs(ro) => {
                let pv = if ro.req.frame == ObservationFrame::RecordedTruth { &stripped } else { &x.w.provenance };
                let r = ObservationService::observe(&x.w.runtime, pv, &x.w.engine, ro.req.clone());
                if let Some(f) = fp_diff(&before, &fingerprint(&x.w)) {
                    vfail!(format!("C16/read-mutated/{f}"), "observe({:?}) changed {f}", ro.req);
                }
                match (served1, r) {
                    (Served::ObsOk(a1), Ok(a2)) => {
                        if stable_content(a1) != stable_content(&a2) {
                            vfail!("C16/historical-reading-changed-by-later-commits", "request {:?}:\n before: {}\n after:  {}", ro.req, stable_content(a1), stable_content(&a2));
                        }
                        if x.w.runtime.global_tick().as_u64() == gt1 {
                            vensure!(**a1 == a2, "C16/nondeterministic-artifact", "no commit cycle happened but the artifact differs");
                        }
                        check_artifact(&x, ro, &a2, Some(&stripped), &mut replayed, probe)?;
                        let content = format!("{:?}|{:?}|{:?}|{:?}|{:?}", a2.resolved, a2.reading, a2.frame, a2.projection, a2.payload);
                        hashes2.insert(a2.artifact_hash, content);
                        any_hist_reasked = true;
                    }
                    (Served::ObsErr(c1), Err(e2)) => {
                        vensure_eq!(*c1, err_class(&e2), "C16/historical-refusal-changed", "request {:?}", ro.req);
                    }
                    (Served::ObsOk(_), Err(e2)) => vfail!("C16/historical-reading-lost", "request {:?} now fails: {e2:?}", ro.req),
                    (Served::ObsErr(c1), Ok(_)) => vfail!("C16/historical-refusal-became-reading", "request {:?} was refused ({c1}) and now reads", ro.req),
                    _ => {}
                }
            }
            Realised::Optic(ro) => {
                let r = ObservationService::observe_optic(&x.w.runtime, &x.w.provenance, &x.w.engine, ro.req.clone());
                if let Some(f) = fp_diff(&before, &fingerprint(&x.w)) {
                    vfail!(format!("C16/read-mutated/{f}"), "observe_optic({:?}) changed {f}", ro.req);
                }
                match (served1, r) {
                    (Served::OpticRead(p1, id1), ObserveOpticResult::Reading(r2)) => {
                        vensure!(*p1 == format!("{:?}", r2.payload), "C16/historical-reading-changed-by-later-commits", "optic {:?}: {p1} vs {:?}", ro.req, r2.payload);
                        vensure!(*id1 == format!("{:?}", r2.read_identity), "C16/historical-read-identity-changed", "optic {:?}", ro.req);
                        check_optic_reading(&x, ro, &r2)?;
                        any_hist_reasked = true;
                    }
                    (Served::OpticObstructed(k1), ObserveOpticResult::Obstructed(o2)) => {
                        vensure_eq!(*k1, o2.kind, "C16/historical-obstruction-changed", "optic {:?}", ro.req);
                    }
                    (Served::OpticRead(..), ObserveOpticResult::Obstructed(o)) => vfail!("C16/historical-reading-lost", "optic {:?} now obstructed: {}", ro.req, o.message),
                    (Served::OpticObstructed(k), ObserveOpticResult::Reading(_)) => vfail!("C16/historical-refusal-became-reading", "optic {:?} was obstructed ({k:?})", ro.req),
                    _ => {}
                }
            }
        }
        probe.evals(1);
    }
    if let Some(f) = fp_diff(&full_before2, &fingerprint_full(&x.w)) {
        vfail!(format!("C16/read-mutated/{f}"), "re-asking the historical requests changed {f} (full rendering)");
    }
    // fresh round against the moved history (frontier coordinates now name the new frontier)
    let _round2 = serve(&x, &c.reqs, probe, &mut hashes2)?;

    // the forked child: its prefix reads equal the parent's
    if let Some((child, parent, ft)) = x.child {
        for t in 0..=ft {
            let e = x.w.provenance.entry(child, wt(t)).map_err(|e| Fail::new("C16/harness/child-entry", format!("{e:?}")))?;
            let lt = &x.w.ledger[parent as usize][t as usize];
            vensure!(e.expected.state_root == lt.state_root && e.expected.commit_hash == lt.commit_hash, "C16/fork/child-prefix-differs", "tick {t}");
        }
        // the child is not registered with the runtime: observing it is refused, typed
        let req = ObservationRequest::builtin_one_shot(ObservationCoordinate { worldline_id: child, at: ObservationAt::Tick(wt(0)) }, ObservationFrame::CommitBoundary, ObservationProjection::Head).map_err(|e| Fail::new("C16/harness/builtin", format!("{e:?}")))?;
        match ObservationService::observe(&x.w.runtime, &x.w.provenance, &x.w.engine, req) {
            Err(ObservationError::InvalidWorldline(_)) => {}
            other => vfail!("C16/unregistered-worldline-served", "{other:?}"),
        }
    }
    if moved && any_hist_reasked {
        probe.nontrivial();
        probe.class("historical-reasked-after-commits");
    }
    probe.class(format!("commits-phase1:{}", lens1.iter().sum::<u64>().min(9)));
    Ok(())
}

pub fn subs(_ctx: &Ctx) -> Vec<Box<dyn Sub>> {
    vec![prop_sub("reads-before-and-after-later-commits", 1_200, 40_000, case16(), check16)]
}
