//! Coverage-guided byte-level target over the codec registry of vc_codec.
//!
//! VERIF_FUZZ_CODEC = registry name of the codec under test (one campaign per codec, so the
//! coverage feedback and the corpus belong to one decoder).
//! VERIF_FUZZ_MODE  = "law"   : oracle = C12 (accepted bytes re-encode to themselves where the
//!                              codec is canonical; decode(encode(v)) == v everywhere)
//!                    "total" : oracle = C13 (any input is accepted or rejected; a panic, abort,
//!                              sanitizer report or runaway allocation is the failure; law
//!                              mismatches are ignored here so each campaign decides one property)
//! VERIF_FUZZ_STATS = file that receives "<executions> <accepted> <distinct accepted>" at exit.
#![no_main]
use libfuzzer_sys::fuzz_target;
use std::collections::HashSet;
use std::sync::atomic::{AtomicU64, Ordering};
use std::sync::{Mutex, OnceLock};
use vc_codec::targets::{targets, Dec, Target};

struct Cfg {
    t: Target,
    law: bool,
}

static EXECS: AtomicU64 = AtomicU64::new(0);
static ACCEPTED: AtomicU64 = AtomicU64::new(0);
static DISTINCT: OnceLock<Mutex<HashSet<[u8; 16]>>> = OnceLock::new();

extern "C" fn dump_stats() {
    if let Ok(p) = std::env::var("VERIF_FUZZ_STATS") {
        let d = DISTINCT.get().map(|m| m.lock().map(|s| s.len()).unwrap_or(0)).unwrap_or(0);
        let _ = std::fs::write(p, format!("{} {} {}\n", EXECS.load(Ordering::Relaxed), ACCEPTED.load(Ordering::Relaxed), d));
    }
}

fn cfg() -> &'static Cfg {
    static C: OnceLock<Cfg> = OnceLock::new();
    C.get_or_init(|| {
        let name = std::env::var("VERIF_FUZZ_CODEC").expect("VERIF_FUZZ_CODEC");
        let law = std::env::var("VERIF_FUZZ_MODE").map(|m| m == "law").unwrap_or(false);
        let t = targets().into_iter().find(|t| t.name == name).unwrap_or_else(|| panic!("unknown codec {name}"));
        unsafe {
            libc::atexit(dump_stats);
        }
        Cfg { t, law }
    })
}

fuzz_target!(init: { cfg(); }, |data: &[u8]| {
    let c = cfg();
    EXECS.fetch_add(1, Ordering::Relaxed);
    match (c.t.run)(data) {
        Dec::Rejected => {}
        Dec::Accepted { reenc, law_a } => {
            ACCEPTED.fetch_add(1, Ordering::Relaxed);
            let mut k = [0u8; 16];
            k.copy_from_slice(&blake3::hash(data).as_bytes()[..16]);
            {
                // bounded: the count saturates rather than letting the set grow with the campaign
                let mut set = DISTINCT.get_or_init(|| Mutex::new(HashSet::new())).lock().unwrap();
                if set.len() < 400_000 {
                    set.insert(k);
                }
            }
            if c.law {
                if let Err(m) = law_a {
                    panic!("VERIF-LAW-A codec={} {}", c.t.name, m);
                }
                if c.t.law_b && reenc != data {
                    panic!("VERIF-LAW-B codec={} accepted {} bytes that re-encode to {} different bytes", c.t.name, data.len(), reenc.len());
                }
            }
        }
    }
});
