//! Data-driven rewrite programs.
//!
//! `RewriteRule` holds plain `fn` pointers, so programs travel as data: a process-global table
//! keyed by (rule slot, warp, scope) is consulted by eight monomorphised rule slots.

use crate::universe::*;
use serde::{Deserialize, Serialize};
use std::collections::{BTreeMap, BTreeSet};
use std::sync::{Arc, RwLock};
use warp_core::{
    AttachmentKey, ConflictPolicy, Footprint, GraphView, NodeId, PatternGraph, RewriteRule, TickDelta, WarpId,
};

pub const N_SLOTS: u8 = 8;
/// Slots 6 and 7 are registered under the engine's two system rule names, which is what
/// makes instance-level ops lawful for them under footprint enforcement.
pub const SYSTEM_SLOTS: [u8; 2] = [6, 7];

#[derive(Clone, Debug, PartialEq, Eq, Serialize, Deserialize)]
pub enum ValSpec {
    Clear,
    Lit(AVal),
    /// Atom whose bytes are a digest of everything this program has read so far
    FromReads { ty: u8, len: u8 },
}

#[derive(Clone, Debug, PartialEq, Eq, Serialize, Deserialize)]
pub enum Instr {
    ReadNode(u8),
    ReadAdj(u8),
    ReadNodeAtt(u8),
    ReadEdgeAtt(u8),
    HasEdge(u8),
    UpsertNode { n: u8, ty: u8 },
    DeleteNode { n: u8 },
    UpsertEdge { e: u8, from: u8, to: u8, ty: u8 },
    DeleteEdge { e: u8, from: u8 },
    SetNodeAtt { n: u8, val: ValSpec },
    SetEdgeAtt { e: u8, val: ValSpec },
    /// system slots only
    OpenPortal { slot_on_edge: bool, owner: u8, child: u8, child_root: u8, ty: u8 },
    /// portal to an instance that is required to exist already (dishonest user rules only)
    OpenPortalExisting { slot_on_edge: bool, owner: u8, child: u8, child_root: u8 },
    /// raw op in another warp (dishonest programs only)
    ForeignUpsertNode { w: u8, n: u8, ty: u8 },
    Panic,
    /// the executor replaces the delta it was handed by a fresh one (dishonest programs only:
    /// whatever ran before it on the same worker is dropped from that delta)
    SwapDelta,
}

/// Declared footprint over abstract keys (all within the program's own warp unless stated).
#[derive(Clone, Debug, Default, PartialEq, Eq, Serialize, Deserialize)]
pub struct AFootprint {
    pub n_read: BTreeSet<u8>,
    pub n_write: BTreeSet<u8>,
    pub e_read: BTreeSet<u8>,
    pub e_write: BTreeSet<u8>,
    pub a_read: BTreeSet<ASlot>,
    pub a_write: BTreeSet<ASlot>,
    pub b_in: BTreeSet<u64>,
    pub b_out: BTreeSet<u64>,
    pub factor_mask: u64,
    /// read claims that name ANOTHER instance: (warp, node) / (warp, edge). Honest programs
    /// never have any; C14 uses them for misdirected declarations.
    #[serde(default)]
    pub foreign_n_read: BTreeSet<(u8, u8)>,
    #[serde(default)]
    pub foreign_e_read: BTreeSet<(u8, u8)>,
}

impl AFootprint {
    pub fn to_real(&self, w: u8) -> Footprint {
        let mut fp = Footprint::default();
        for n in &self.n_read {
            fp.n_read.insert(node_key(w, *n));
        }
        for n in &self.n_write {
            fp.n_write.insert(node_key(w, *n));
        }
        for e in &self.e_read {
            fp.e_read.insert(edge_key(w, *e));
        }
        for e in &self.e_write {
            fp.e_write.insert(edge_key(w, *e));
        }
        for s in &self.a_read {
            fp.a_read.insert(s.key());
        }
        for s in &self.a_write {
            fp.a_write.insert(s.key());
        }
        for p in &self.b_in {
            fp.b_in.insert(warp_id(w), *p);
        }
        for p in &self.b_out {
            fp.b_out.insert(warp_id(w), *p);
        }
        for (fw, n) in &self.foreign_n_read {
            fp.n_read.insert(node_key(*fw, *n));
        }
        for (fw, e) in &self.foreign_e_read {
            fp.e_read.insert(edge_key(*fw, *e));
        }
        fp.factor_mask = self.factor_mask;
        fp
    }

    /// Reference conflict predicate (from docs/spec/scheduler-warp-core.md and the property
    /// statement): a write overlapping another's read or write of the same node, edge or
    /// attachment, or any shared boundary port, always within one instance.
    pub fn conflicts(&self, wa: u8, other: &AFootprint, wb: u8) -> bool {
        fn meet<T: Ord>(a: &BTreeSet<T>, b: &BTreeSet<T>) -> bool {
            a.iter().any(|x| b.contains(x))
        }
        // attachment slots carry their own warp
        if meet(&self.a_write, &other.a_write) || meet(&self.a_write, &other.a_read) || meet(&other.a_write, &self.a_read) {
            return true;
        }
        // read claims on another instance meet that instance's writes
        if self.foreign_n_read.iter().any(|(fw, n)| *fw == wb && other.n_write.contains(n))
            || other.foreign_n_read.iter().any(|(fw, n)| *fw == wa && self.n_write.contains(n))
            || self.foreign_e_read.iter().any(|(fw, e)| *fw == wb && other.e_write.contains(e))
            || other.foreign_e_read.iter().any(|(fw, e)| *fw == wa && self.e_write.contains(e))
        {
            return true;
        }
        if wa != wb {
            return false;
        }
        meet(&self.n_write, &other.n_write)
            || meet(&self.n_write, &other.n_read)
            || meet(&other.n_write, &self.n_read)
            || meet(&self.e_write, &other.e_write)
            || meet(&self.e_write, &other.e_read)
            || meet(&other.e_write, &self.e_read)
            || meet(&self.b_in, &other.b_in)
            || meet(&self.b_in, &other.b_out)
            || meet(&self.b_out, &other.b_in)
            || meet(&self.b_out, &other.b_out)
    }
}

#[derive(Clone, Debug, PartialEq, Eq, Serialize, Deserialize)]
pub enum MatchCond {
    Always,
    Never,
    NodeExists(u8),
    NodeHasType(u8, u8),
    /// all preconditions hold (used in runtime mode, where an intent may run against a later
    /// state than the one it was written for: like a real rule, it matches only if its
    /// structural preconditions still hold)
    Guarded(Vec<Pre>),
}

#[derive(Clone, Debug, PartialEq, Eq, Serialize, Deserialize)]
pub enum Pre {
    NodeExists(u8),
    EdgeExists(u8),
    EdgeIs { e: u8, from: u8 },
    /// node has no incident edge except the listed ones
    NodeIsolatedExcept { n: u8, edges: Vec<u8> },
    NodeSlotNotPortal(u8),
    EdgeSlotNotPortal(u8),
}

/// Structural preconditions under which the merged ops of `instrs` apply without error.
pub fn preconds(instrs: &[Instr]) -> Vec<Pre> {
    let mut out = Vec::new();
    let upserted_nodes: BTreeSet<u8> = instrs.iter().filter_map(|i| if let Instr::UpsertNode { n, .. } = i { Some(*n) } else { None }).collect();
    let upserted_edges: BTreeSet<u8> = instrs.iter().filter_map(|i| if let Instr::UpsertEdge { e, .. } = i { Some(*e) } else { None }).collect();
    let deleted_edges: Vec<u8> = instrs.iter().filter_map(|i| if let Instr::DeleteEdge { e, .. } = i { Some(*e) } else { None }).collect();
    for i in instrs {
        match i {
            Instr::DeleteEdge { e, from } => {
                out.push(Pre::EdgeIs { e: *e, from: *from });
                out.push(Pre::EdgeSlotNotPortal(*e));
            }
            Instr::DeleteNode { n } => {
                out.push(Pre::NodeExists(*n));
                out.push(Pre::NodeIsolatedExcept { n: *n, edges: deleted_edges.clone() });
                out.push(Pre::NodeSlotNotPortal(*n));
            }
            Instr::SetNodeAtt { n, .. } => {
                if !upserted_nodes.contains(n) {
                    out.push(Pre::NodeExists(*n));
                }
                out.push(Pre::NodeSlotNotPortal(*n));
            }
            Instr::SetEdgeAtt { e, .. } => {
                if !upserted_edges.contains(e) {
                    out.push(Pre::EdgeExists(*e));
                }
                out.push(Pre::EdgeSlotNotPortal(*e));
            }
            _ => {}
        }
    }
    out
}

#[derive(Clone, Debug, PartialEq, Eq, Serialize, Deserialize)]
pub struct Prog {
    pub cond: MatchCond,
    pub instrs: Vec<Instr>,
    pub fp: AFootprint,
}

/// A candidate: (rule slot, warp, scope node) + its program.
#[derive(Clone, Debug, PartialEq, Eq, Serialize, Deserialize)]
pub struct Cand {
    pub slot: u8,
    pub w: u8,
    pub scope: u8,
    pub prog: Prog,
}

// ---------------------------------------------------------------------------
// read encoding shared by the real executor and the model

pub fn enc_node(acc: &mut Vec<u8>, n: u8, ty: Option<u8>) {
    acc.extend_from_slice(&[b'N', n, ty.map_or(0xff, |t| t)]);
}
pub fn enc_adj(acc: &mut Vec<u8>, n: u8, edges: &mut Vec<(u8, u8, u8)>) {
    edges.sort();
    acc.extend_from_slice(&[b'A', n, edges.len() as u8]);
    for (e, to, ty) in edges.iter() {
        acc.extend_from_slice(&[*e, *to, *ty]);
    }
}
pub fn enc_att(acc: &mut Vec<u8>, tag: u8, id: u8, v: Option<&AVal>) {
    acc.extend_from_slice(&[tag, id]);
    match v {
        None => acc.push(0),
        Some(v) => v.encode(acc),
    }
}
pub fn enc_has_edge(acc: &mut Vec<u8>, e: u8, has: bool) {
    acc.extend_from_slice(&[b'H', e, has as u8]);
}
pub fn val_from_reads(acc: &[u8], ty: u8, len: u8) -> AVal {
    let h = blake3::hash(acc);
    let mut bytes = Vec::new();
    while bytes.len() < len as usize {
        bytes.extend_from_slice(h.as_bytes());
    }
    bytes.truncate(len as usize);
    AVal::Atom { ty, bytes }
}

// ---------------------------------------------------------------------------
// model-side interpretation (against the abstract pre-state)

/// Ops a program emits when run against `pre` in warp `w`. `None` = the program panics.
pub fn interpret_model(pre: &AState, w: u8, prog: &Prog) -> Option<Vec<AOp>> {
    let empty = AWarp::default();
    let st = pre.warps.get(&w).unwrap_or(&empty);
    let mut acc = Vec::new();
    let mut ops = Vec::new();
    for ins in &prog.instrs {
        match ins {
            Instr::ReadNode(n) => enc_node(&mut acc, *n, st.nodes.get(n).copied()),
            Instr::ReadAdj(n) => {
                let mut es: Vec<(u8, u8, u8)> =
                    st.edges.iter().filter(|(_, r)| r.from == *n).map(|(e, r)| (*e, r.to, r.ty)).collect();
                enc_adj(&mut acc, *n, &mut es);
            }
            Instr::ReadNodeAtt(n) => enc_att(&mut acc, b'a', *n, st.natt.get(n)),
            Instr::ReadEdgeAtt(e) => enc_att(&mut acc, b'b', *e, st.eatt.get(e)),
            Instr::HasEdge(e) => enc_has_edge(&mut acc, *e, st.edges.contains_key(e)),
            Instr::UpsertNode { n, ty } => ops.push(AOp::UpsertNode { w, n: *n, ty: *ty }),
            Instr::DeleteNode { n } => ops.push(AOp::DeleteNode { w, n: *n }),
            Instr::UpsertEdge { e, from, to, ty } => {
                ops.push(AOp::UpsertEdge { w, e: *e, from: *from, to: *to, ty: *ty })
            }
            Instr::DeleteEdge { e, from } => ops.push(AOp::DeleteEdge { w, from: *from, e: *e }),
            Instr::SetNodeAtt { n, val } => ops.push(AOp::SetAtt { slot: ASlot::Node(w, *n), val: resolve(val, &acc) }),
            Instr::SetEdgeAtt { e, val } => ops.push(AOp::SetAtt { slot: ASlot::Edge(w, *e), val: resolve(val, &acc) }),
            Instr::OpenPortal { slot_on_edge, owner, child, child_root, ty } => ops.push(AOp::OpenPortal {
                slot: if *slot_on_edge { ASlot::Edge(w, *owner) } else { ASlot::Node(w, *owner) },
                child: *child,
                child_root: *child_root,
                init_ty: Some(*ty),
            }),
            Instr::OpenPortalExisting { slot_on_edge, owner, child, child_root } => ops.push(AOp::OpenPortal {
                slot: if *slot_on_edge { ASlot::Edge(w, *owner) } else { ASlot::Node(w, *owner) },
                child: *child,
                child_root: *child_root,
                init_ty: None,
            }),
            Instr::ForeignUpsertNode { w: fw, n, ty } => ops.push(AOp::UpsertNode { w: *fw, n: *n, ty: *ty }),
            Instr::Panic => return None,
            Instr::SwapDelta => {}
        }
    }
    Some(ops)
}

fn resolve(v: &ValSpec, acc: &[u8]) -> Option<AVal> {
    match v {
        ValSpec::Clear => None,
        ValSpec::Lit(v) => Some(v.clone()),
        ValSpec::FromReads { ty, len } => Some(val_from_reads(acc, *ty, *len)),
    }
}

pub fn cond_holds(pre: &AState, w: u8, c: &MatchCond) -> bool {
    let Some(st) = pre.warps.get(&w) else { return false };
    match c {
        MatchCond::Always => true,
        MatchCond::Never => false,
        MatchCond::NodeExists(n) => st.nodes.contains_key(n),
        MatchCond::NodeHasType(n, t) => st.nodes.get(n) == Some(t),
        MatchCond::Guarded(pres) => pres.iter().all(|p| match p {
            Pre::NodeExists(n) => st.nodes.contains_key(n),
            Pre::EdgeExists(e) => st.edges.contains_key(e),
            Pre::EdgeIs { e, from } => st.edges.get(e).map(|r| r.from) == Some(*from),
            Pre::NodeIsolatedExcept { n, edges } => st.edges.iter().all(|(e, r)| (r.from != *n && r.to != *n) || edges.contains(e)),
            Pre::NodeSlotNotPortal(n) => !matches!(st.natt.get(n), Some(AVal::Descend(_))),
            Pre::EdgeSlotNotPortal(e) => !matches!(st.eatt.get(e), Some(AVal::Descend(_))),
        }),
    }
}

/// Honest footprint by my own attribution of the documented contract
/// (footprint_guard.rs docs, DECLARATIVE-RULE-AUTHORSHIP): reads -> n_read / a_read / e_read;
/// UpsertEdge/DeleteEdge -> e_write(id) + n_write(from) (+ beta slot for delete);
/// DeleteNode -> n_write + a_write(alpha); SetAttachment / OpenPortal -> a_write(slot).
pub fn honest_footprint(w: u8, instrs: &[Instr]) -> AFootprint {
    let mut fp = AFootprint::default();
    for ins in instrs {
        match ins {
            Instr::ReadNode(n) | Instr::ReadAdj(n) => {
                fp.n_read.insert(*n);
            }
            Instr::ReadNodeAtt(n) => {
                fp.a_read.insert(ASlot::Node(w, *n));
            }
            Instr::ReadEdgeAtt(e) => {
                fp.a_read.insert(ASlot::Edge(w, *e));
            }
            Instr::HasEdge(e) => {
                fp.e_read.insert(*e);
            }
            Instr::UpsertNode { n, .. } => {
                fp.n_write.insert(*n);
            }
            Instr::DeleteNode { n } => {
                fp.n_write.insert(*n);
                fp.a_write.insert(ASlot::Node(w, *n));
            }
            Instr::UpsertEdge { e, from, .. } => {
                fp.e_write.insert(*e);
                fp.n_write.insert(*from);
            }
            Instr::DeleteEdge { e, from } => {
                fp.e_write.insert(*e);
                fp.n_write.insert(*from);
                fp.a_write.insert(ASlot::Edge(w, *e));
            }
            Instr::SetNodeAtt { n, .. } => {
                fp.a_write.insert(ASlot::Node(w, *n));
            }
            Instr::SetEdgeAtt { e, .. } => {
                fp.a_write.insert(ASlot::Edge(w, *e));
            }
            Instr::OpenPortal { slot_on_edge, owner, .. } | Instr::OpenPortalExisting { slot_on_edge, owner, .. } => {
                fp.a_write.insert(if *slot_on_edge { ASlot::Edge(w, *owner) } else { ASlot::Node(w, *owner) });
            }
            Instr::ForeignUpsertNode { .. } | Instr::Panic | Instr::SwapDelta => {}
        }
    }
    fp.factor_mask = u64::MAX;
    fp
}

// ---------------------------------------------------------------------------
// process-global program table + the eight rule slots

type Table = BTreeMap<(u8, WarpId, NodeId), Arc<Prog>>;
static TABLE: RwLock<Option<Table>> = RwLock::new(None);
/// execution counter (C10: recovery runs no application callback)
pub static EXEC_COUNT: std::sync::atomic::AtomicU64 = std::sync::atomic::AtomicU64::new(0);

pub fn table_reset() {
    *TABLE.write().unwrap_or_else(|e| e.into_inner()) = Some(Table::new());
}
pub fn table_insert(c: &Cand) {
    let mut g = TABLE.write().unwrap_or_else(|e| e.into_inner());
    g.get_or_insert_with(Table::new)
        .insert((c.slot, warp_id(c.w), node_id(c.scope)), Arc::new(c.prog.clone()));
}
pub fn table_insert_raw(slot: u8, w: WarpId, scope: NodeId, prog: Prog) {
    let mut g = TABLE.write().unwrap_or_else(|e| e.into_inner());
    g.get_or_insert_with(Table::new).insert((slot, w, scope), Arc::new(prog));
}
fn table_get(slot: u8, w: WarpId, scope: &NodeId) -> Option<Arc<Prog>> {
    let g = TABLE.read().unwrap_or_else(|e| e.into_inner());
    g.as_ref()?.get(&(slot, w, *scope)).cloned()
}

pub fn real_cond(view: GraphView<'_>, c: &MatchCond) -> bool {
    match c {
        MatchCond::Always => true,
        MatchCond::Never => false,
        MatchCond::NodeExists(n) => view.node(&node_id(*n)).is_some(),
        MatchCond::NodeHasType(n, t) => view.node(&node_id(*n)).map(|r| r.ty) == Some(type_id(*t)),
        MatchCond::Guarded(pres) => pres.iter().all(|p| match p {
            Pre::NodeExists(n) => view.node(&node_id(*n)).is_some(),
            Pre::EdgeExists(e) => view.has_edge(&edge_id(*e)),
            Pre::EdgeIs { e, from } => view.edges_from(&node_id(*from)).any(|r| r.id == edge_id(*e)),
            Pre::NodeIsolatedExcept { n, edges } => (0..N_NODES).all(|m| {
                view.edges_from(&node_id(m)).all(|r| {
                    let incident = m == *n || r.to == node_id(*n);
                    !incident || edge_ix(&r.id).map(|e| edges.contains(&e)).unwrap_or(false)
                })
            }),
            Pre::NodeSlotNotPortal(n) => !matches!(view.node_attachment(&node_id(*n)), Some(warp_core::AttachmentValue::Descend(_))),
            Pre::EdgeSlotNotPortal(e) => !matches!(view.edge_attachment(&edge_id(*e)), Some(warp_core::AttachmentValue::Descend(_))),
        }),
    }
}

fn matcher<const S: u8>(view: GraphView<'_>, scope: &NodeId) -> bool {
    match table_get(S, view.warp_id(), scope) {
        Some(p) => real_cond(view, &p.cond),
        None => false,
    }
}

fn footprint<const S: u8>(view: GraphView<'_>, scope: &NodeId) -> Footprint {
    let w = warp_ix(&view.warp_id()).unwrap_or(0);
    match table_get(S, view.warp_id(), scope) {
        Some(p) => p.fp.to_real(w),
        None => Footprint::default(),
    }
}

#[allow(clippy::panic)]
fn executor<const S: u8>(view: GraphView<'_>, scope: &NodeId, delta: &mut TickDelta) {
    EXEC_COUNT.fetch_add(1, std::sync::atomic::Ordering::Relaxed);
    let Some(p) = table_get(S, view.warp_id(), scope) else { return };
    let w = warp_ix(&view.warp_id()).unwrap_or(0);
    run_real(view, w, &p, delta);
}

/// The real-side interpreter: reads through the (possibly guarded) view, emits WarpOps.
pub fn run_real(view: GraphView<'_>, w: u8, p: &Prog, delta: &mut TickDelta) {
    let mut acc = Vec::new();
    for ins in &p.instrs {
        match ins {
            Instr::ReadNode(n) => {
                let ty = view.node(&node_id(*n)).map(|r| type_ix(&r.ty).unwrap_or(0xfe));
                enc_node(&mut acc, *n, ty);
            }
            Instr::ReadAdj(n) => {
                let mut es: Vec<(u8, u8, u8)> = view
                    .edges_from(&node_id(*n))
                    .map(|r| (edge_ix(&r.id).unwrap_or(0xfe), node_ix(&r.to).unwrap_or(0xfe), type_ix(&r.ty).unwrap_or(0xfe)))
                    .collect();
                enc_adj(&mut acc, *n, &mut es);
            }
            Instr::ReadNodeAtt(n) => {
                let v = view.node_attachment(&node_id(*n)).and_then(AVal::from_real);
                enc_att(&mut acc, b'a', *n, v.as_ref());
            }
            Instr::ReadEdgeAtt(e) => {
                let v = view.edge_attachment(&edge_id(*e)).and_then(AVal::from_real);
                enc_att(&mut acc, b'b', *e, v.as_ref());
            }
            Instr::HasEdge(e) => enc_has_edge(&mut acc, *e, view.has_edge(&edge_id(*e))),
            Instr::UpsertNode { n, ty } => delta.push(AOp::UpsertNode { w, n: *n, ty: *ty }.to_real()),
            Instr::DeleteNode { n } => delta.push(AOp::DeleteNode { w, n: *n }.to_real()),
            Instr::UpsertEdge { e, from, to, ty } => {
                delta.push(AOp::UpsertEdge { w, e: *e, from: *from, to: *to, ty: *ty }.to_real())
            }
            Instr::DeleteEdge { e, from } => delta.push(AOp::DeleteEdge { w, from: *from, e: *e }.to_real()),
            Instr::SetNodeAtt { n, val } => {
                delta.push(AOp::SetAtt { slot: ASlot::Node(w, *n), val: resolve(val, &acc) }.to_real())
            }
            Instr::SetEdgeAtt { e, val } => {
                delta.push(AOp::SetAtt { slot: ASlot::Edge(w, *e), val: resolve(val, &acc) }.to_real())
            }
            Instr::OpenPortal { slot_on_edge, owner, child, child_root, ty } => delta.push(
                AOp::OpenPortal {
                    slot: if *slot_on_edge { ASlot::Edge(w, *owner) } else { ASlot::Node(w, *owner) },
                    child: *child,
                    child_root: *child_root,
                    init_ty: Some(*ty),
                }
                .to_real(),
            ),
            Instr::OpenPortalExisting { slot_on_edge, owner, child, child_root } => delta.push(
                AOp::OpenPortal { slot: if *slot_on_edge { ASlot::Edge(w, *owner) } else { ASlot::Node(w, *owner) }, child: *child, child_root: *child_root, init_ty: None }.to_real(),
            ),
            Instr::ForeignUpsertNode { w: fw, n, ty } => delta.push(AOp::UpsertNode { w: *fw, n: *n, ty: *ty }.to_real()),
            Instr::Panic => std::panic::panic_any("dsl: program requested a panic"),
            Instr::SwapDelta => *delta = TickDelta::new(),
        }
    }
}

pub const SLOT_NAMES: [&str; 8] =
    ["dsl/0", "dsl/1", "dsl/2", "dsl/3", "dsl/4", "dsl/5", "sys/dispatch_inbox", "sys/ack_pending"];

pub fn slot_rule_id(slot: u8) -> [u8; 32] {
    // rule ids whose byte order is unrelated to the slot number
    *blake3::hash(&[b'v', b'r', slot]).as_bytes()
}

pub fn slot_rule(slot: u8) -> RewriteRule {
    macro_rules! mk {
        ($s:literal) => {
            RewriteRule {
                id: slot_rule_id($s),
                name: SLOT_NAMES[$s as usize],
                left: PatternGraph { nodes: vec![] },
                matcher: matcher::<$s>,
                executor: executor::<$s>,
                compute_footprint: footprint::<$s>,
                factor_mask: u64::MAX,
                conflict_policy: ConflictPolicy::Abort,
                join_fn: None,
            }
        };
    }
    match slot {
        0 => mk!(0),
        1 => mk!(1),
        2 => mk!(2),
        3 => mk!(3),
        4 => mk!(4),
        5 => mk!(5),
        6 => mk!(6),
        _ => mk!(7),
    }
}

/// Descent chain (root -> ... -> w) of portal keys for warp `w` in `state`.
pub fn descent_chain(state: &AState, w: u8) -> Vec<AttachmentKey> {
    let mut chain = Vec::new();
    let mut cur = w;
    let mut guard = 0;
    while let Some(p) = state.warps.get(&cur).and_then(|x| x.parent.clone()) {
        chain.push(p.key());
        cur = p.warp();
        guard += 1;
        if guard > 8 {
            break;
        }
    }
    chain.reverse();
    chain
}
pub fn descent_chain_slots(state: &AState, w: u8) -> Vec<ASlot> {
    let mut chain = Vec::new();
    let mut cur = w;
    let mut guard = 0;
    while let Some(p) = state.warps.get(&cur).and_then(|x| x.parent.clone()) {
        cur = p.warp();
        chain.push(p);
        guard += 1;
        if guard > 8 {
            break;
        }
    }
    chain.reverse();
    chain
}
