//! Runtime mode: programs travel inside the intent payload and are interpreted by one `cmd/`
//! rule that reads the event node's attachment (like the repo's contract fixtures).
//! `HistGen`: scripts of submit / pass / policy / pause / checkpoint steps interpreted against
//! `WorldlineRuntime + ProvenanceService + Engine`, recording a live ledger.

use crate::dsl::*;
use crate::tick::*;
use crate::universe::*;
use proptest::prelude::*;
use serde::{Deserialize, Serialize};
use std::collections::{BTreeMap, BTreeSet};
use warp_core::{
    make_head_id, make_intent_kind, AttachmentKey, AttachmentValue, ConflictPolicy, Engine, EngineBuilder, Footprint,
    GlobalTick, GraphStore, GraphView, InboxAddress, InboxPolicy, IngressDisposition, IngressEnvelope, IngressTarget,
    IntentKind, NodeId, NodeKey, NodeRecord, PatternGraph, PlaybackMode, ProvenanceService, ProvenanceStore, RewriteRule,
    SchedulerCoordinator, SchedulerKind, StepRecord, TickDelta, WorldlineId, WorldlineRuntime, WorldlineState,
    WorldlineTick, WriterHead, WriterHeadKey,
};

pub const DSL_MAGIC: &[u8] = b"VDSL";
pub const RT_RULE_NAME: &str = "cmd/verif-dsl";

pub fn rt_rule_id() -> [u8; 32] {
    *blake3::hash(b"verif/cmd/verif-dsl").as_bytes()
}

pub fn encode_prog(p: &Prog, salt: u32) -> Vec<u8> {
    let mut b = DSL_MAGIC.to_vec();
    b.extend_from_slice(&salt.to_le_bytes());
    b.extend_from_slice(&serde_json::to_vec(p).expect("prog json"));
    b
}

fn decode_prog(view: GraphView<'_>, scope: &NodeId, guarded: bool) -> Option<Prog> {
    let _ = guarded;
    let att = view.node_attachment(scope)?;
    let AttachmentValue::Atom(a) = att else { return None };
    let b = a.bytes.as_ref();
    if b.len() < 8 || &b[..4] != DSL_MAGIC {
        return None;
    }
    serde_json::from_slice(&b[8..]).ok()
}

fn rt_matcher(view: GraphView<'_>, scope: &NodeId) -> bool {
    match decode_prog(view, scope, false) {
        Some(p) => real_cond(view, &p.cond),
        None => false,
    }
}

fn rt_footprint(view: GraphView<'_>, scope: &NodeId) -> Footprint {
    let w = warp_ix(&view.warp_id()).unwrap_or(0);
    let mut fp = match decode_prog(view, scope, false) {
        Some(p) => p.fp.to_real(w),
        None => Footprint::default(),
    };
    // the executor reads the event node's own attachment to find its program
    fp.a_read.insert(AttachmentKey::node_alpha(NodeKey { warp_id: view.warp_id(), local_id: *scope }));
    fp
}

fn rt_executor(view: GraphView<'_>, scope: &NodeId, delta: &mut TickDelta) {
    EXEC_COUNT.fetch_add(1, std::sync::atomic::Ordering::Relaxed);
    let Some(p) = decode_prog(view, scope, true) else { return };
    let w = warp_ix(&view.warp_id()).unwrap_or(0);
    run_real(view, w, &p, delta);
}

pub fn rt_rule() -> RewriteRule {
    RewriteRule {
        id: rt_rule_id(),
        name: RT_RULE_NAME,
        left: PatternGraph { nodes: vec![] },
        matcher: rt_matcher,
        executor: rt_executor,
        compute_footprint: rt_footprint,
        factor_mask: u64::MAX,
        conflict_policy: ConflictPolicy::Abort,
        join_fn: None,
    }
}

pub fn rt_engine(workers: usize) -> Engine {
    let mut store = GraphStore::default();
    let root = warp_core::make_node_id("verif/engine-root");
    store.insert_node(root, NodeRecord { ty: warp_core::make_type_id("verif/engine-root") });
    let mut e = EngineBuilder::new(store, root).scheduler(SchedulerKind::Radix).workers(workers.max(1)).build();
    e.register_rule(rt_rule()).expect("register rt rule");
    e
}

pub fn wl_id(i: u8) -> WorldlineId {
    let mut h = [0u8; 32];
    h[0] = [0x60, 0x10, 0xc0, 0x30][(i % 4) as usize];
    h[31] = i;
    WorldlineId::from_bytes(h)
}
pub fn wl_ix(id: &WorldlineId) -> Option<u8> {
    (0..8).find(|i| wl_id(*i) == *id)
}
pub fn head_label(i: u8) -> String {
    format!("h{i}")
}
pub fn head_key(wl: u8, h: u8) -> WriterHeadKey {
    WriterHeadKey { worldline_id: wl_id(wl), head_id: make_head_id(&head_label(h)) }
}
pub fn kind(k: u8) -> IntentKind {
    make_intent_kind(&format!("verif/k{}", k % 3))
}

// ---------------------------------------------------------------------------
// full-state fingerprint (content of every universe warp, reachable or not)

#[derive(Clone, Debug, PartialEq, Eq, Serialize, Deserialize)]
pub struct StateFp {
    pub state_root: [u8; 32],
    /// per universe warp: (instance root node bytes, parent key debug, canonical store hash)
    pub warps: Vec<(u8, [u8; 32], String, [u8; 32])>,
}

pub fn state_fp(ws: &WorldlineState) -> StateFp {
    let mut warps = Vec::new();
    for w in 0..N_WARPS + 1 {
        let id = warp_id(w);
        if let (Some(inst), Some(store)) = (ws.warp_state().instance(&id), ws.store(&id)) {
            warps.push((w, inst.root_node.0, format!("{:?}", inst.parent), store.canonical_state_hash()));
        }
    }
    StateFp { state_root: ws.state_root(), warps }
}

/// Universe-only abstract view of a runtime state (event/kind nodes created by ingress
/// materialisation are foreign ids and are ignored here; `state_fp` covers them).
pub fn lenient_dump(ws: &WorldlineState) -> AState {
    let mut out = AState::default();
    for w in 0..N_WARPS + 1 {
        let id = warp_id(w);
        let (Some(inst), Some(store)) = (ws.warp_state().instance(&id), ws.store(&id)) else { continue };
        let mut aw = AWarp { root_node: node_ix(&inst.root_node).unwrap_or(0), parent: inst.parent.as_ref().and_then(ASlot::from_key), ..Default::default() };
        for (nid, rec) in store.iter_nodes() {
            if let (Some(n), Some(t)) = (node_ix(nid), type_ix(&rec.ty)) {
                aw.nodes.insert(n, t);
            }
        }
        for (_, es) in store.iter_edges() {
            for e in es {
                if let (Some(ei), Some(f), Some(t), Some(ty)) = (edge_ix(&e.id), node_ix(&e.from), node_ix(&e.to), type_ix(&e.ty)) {
                    aw.edges.insert(ei, AEdge { from: f, to: t, ty });
                }
            }
        }
        for (nid, v) in store.iter_node_attachments() {
            if let (Some(n), Some(v)) = (node_ix(nid), AVal::from_real(v)) {
                aw.natt.insert(n, v);
            }
        }
        for (eid, v) in store.iter_edge_attachments() {
            if let (Some(e), Some(v)) = (edge_ix(eid), AVal::from_real(v)) {
                aw.eatt.insert(e, v);
            }
        }
        out.warps.insert(w, aw);
    }
    out
}

// ---------------------------------------------------------------------------
// scripts

#[derive(Clone, Debug, Serialize, Deserialize)]
pub enum PolicySeed {
    AcceptAll,
    KindFilter(Vec<u8>),
    Budgeted(u8),
}
impl PolicySeed {
    pub fn to_real(&self) -> InboxPolicy {
        match self {
            PolicySeed::AcceptAll => InboxPolicy::AcceptAll,
            PolicySeed::KindFilter(ks) => InboxPolicy::KindFilter(ks.iter().map(|k| kind(*k)).collect::<BTreeSet<_>>()),
            PolicySeed::Budgeted(n) => InboxPolicy::Budgeted { max_per_tick: *n as u32 },
        }
    }
}

#[derive(Clone, Debug, Serialize, Deserialize)]
pub struct HeadSeed {
    pub policy: PolicySeed,
    /// named public inbox ("in<k>") or none
    pub inbox: Option<u8>,
}

#[derive(Clone, Debug, Serialize, Deserialize)]
pub struct WorldSeed {
    /// per worldline: initial state + heads (head 0 is the default writer)
    pub worldlines: Vec<(StateSeed, Vec<HeadSeed>)>,
    pub workers: u8,
}

#[derive(Clone, Debug, Serialize, Deserialize)]
pub enum Route {
    Default,
    Named(u8),
    Exact(u8),
}

#[derive(Clone, Debug, Serialize, Deserialize)]
pub enum Step {
    /// submit an intent: (worldline pick, route, kind, program seed, salt)
    Submit { wl: u8, route: Route, kind: u8, prog: CandSeed, salt: u32 },
    /// re-submit an earlier submission (retry) by index into the list of earlier submits
    Retry { which: u16 },
    Pass,
    Pause { wl: u8, head: u8 },
    Resume { wl: u8, head: u8 },
    SetPolicy { wl: u8, head: u8, policy: PolicySeed },
    Checkpoint { wl: u8 },
}

pub fn policy_seed() -> impl Strategy<Value = PolicySeed> {
    prop_oneof![
        5 => Just(PolicySeed::AcceptAll),
        1 => prop::collection::vec(0u8..3, 1..3).prop_map(PolicySeed::KindFilter),
        2 => (0u8..4).prop_map(PolicySeed::Budgeted),
    ]
}

pub fn world_seed(max_wl: usize, max_heads: usize) -> impl Strategy<Value = WorldSeed> {
    (
        prop::collection::vec(
            (
                prop_oneof![2 => single_warp_state_seed(), 1 => state_seed()],
                prop::collection::vec((policy_seed(), prop::option::of(0u8..3)).prop_map(|(policy, inbox)| HeadSeed { policy, inbox }), 1..=max_heads),
            ),
            1..=max_wl,
        ),
        prop_oneof![Just(1u8), Just(2), Just(4)],
    )
        .prop_map(|(worldlines, workers)| WorldSeed { worldlines, workers })
}

pub fn step_seed() -> impl Strategy<Value = Step> {
    let route = prop_oneof![3 => Just(Route::Default), 1 => (0u8..3).prop_map(Route::Named), 2 => (0u8..4).prop_map(Route::Exact)];
    prop_oneof![
        8 => (any::<u8>(), route, 0u8..3, cand_seed(5), 0u32..4).prop_map(|(wl, route, kind, prog, salt)| Step::Submit { wl, route, kind, prog, salt }),
        2 => any::<u16>().prop_map(|which| Step::Retry { which }),
        6 => Just(Step::Pass),
        1 => (any::<u8>(), any::<u8>()).prop_map(|(wl, head)| Step::Pause { wl, head }),
        1 => (any::<u8>(), any::<u8>()).prop_map(|(wl, head)| Step::Resume { wl, head }),
        1 => (any::<u8>(), any::<u8>(), policy_seed()).prop_map(|(wl, head, policy)| Step::SetPolicy { wl, head, policy }),
        1 => any::<u8>().prop_map(|wl| Step::Checkpoint { wl }),
    ]
}

// ---------------------------------------------------------------------------
// the world and its live ledger

#[derive(Clone, Debug, PartialEq, Eq)]
pub struct LedgerTick {
    /// full content fingerprint of the live state after this tick; only observable at pass
    /// boundaries (None for a tick followed by another commit on the same worldline in the
    /// same pass)
    pub fp: Option<StateFp>,
    pub state_root: [u8; 32],
    pub commit_hash: [u8; 32],
    pub patch_digest: [u8; 32],
    pub parents: Vec<[u8; 32]>,
    pub global_tick: u64,
    pub head: WriterHeadKey,
    pub admitted: usize,
}

pub struct World {
    pub runtime: WorldlineRuntime,
    pub provenance: ProvenanceService,
    pub engine: Engine,
    pub n_heads: Vec<u8>,
    /// U0 per worldline
    pub initial: Vec<WorldlineState>,
    /// live ledger per worldline (index = tick)
    pub ledger: Vec<Vec<LedgerTick>>,
    /// every submitted envelope in submission order with its resolved head (if accepted)
    pub submitted: Vec<(IngressEnvelope, Option<WriterHeadKey>)>,
    /// per (head, ingress id): number of committed batches that contained it
    pub committed: BTreeMap<(WriterHeadKey, [u8; 32]), u32>,
    pub pass_records: Vec<Vec<StepRecord>>,
    pub checkpoints: Vec<BTreeSet<u64>>,
    /// per head: distinct ingress ids the runtime accepted / total admitted_count over all passes
    pub accepted_ids: BTreeMap<WriterHeadKey, BTreeSet<[u8; 32]>>,
    pub admitted_total: BTreeMap<WriterHeadKey, u64>,
}

pub fn build_world(seed: &WorldSeed) -> World {
    let mut runtime = WorldlineRuntime::new();
    let mut provenance = ProvenanceService::new();
    let mut initial = Vec::new();
    let mut n_heads = Vec::new();
    for (i, (st, heads)) in seed.worldlines.iter().enumerate() {
        let a = realise_state(st);
        let real = build_real(&a, &[]);
        let ws = WorldlineState::new(real, node_key(0, a.warps[&0].root_node)).expect("worldline state");
        let id = wl_id(i as u8);
        runtime.register_worldline(id, ws.clone()).expect("register worldline");
        provenance.register_worldline(id, &ws).expect("register provenance");
        for (h, hs) in heads.iter().enumerate() {
            runtime
                .register_writer_head(WriterHead::with_routing(
                    head_key(i as u8, h as u8),
                    PlaybackMode::Play,
                    hs.policy.to_real(),
                    hs.inbox.map(|k| InboxAddress(format!("in{k}-{h}"))),
                    h == 0,
                ))
                .expect("register head");
        }
        n_heads.push(heads.len() as u8);
        initial.push(ws);
    }
    let n = seed.worldlines.len();
    World {
        runtime,
        provenance,
        engine: rt_engine(seed.workers as usize),
        n_heads,
        initial,
        ledger: vec![Vec::new(); n],
        submitted: Vec::new(),
        committed: BTreeMap::new(),
        pass_records: Vec::new(),
        checkpoints: vec![BTreeSet::new(); n],
        accepted_ids: BTreeMap::new(),
        admitted_total: BTreeMap::new(),
    }
}

#[derive(Debug)]
pub enum PassOutcome {
    Ok(Vec<StepRecord>),
    Err(String),
    Panic(String),
}

impl World {
    pub fn n_wl(&self) -> usize {
        self.initial.len()
    }
    pub fn wl_of(&self, pick: u8) -> u8 {
        pick % self.n_wl() as u8
    }
    pub fn head_of(&self, wl: u8, pick: u8) -> u8 {
        pick % self.n_heads[wl as usize]
    }
    pub fn frontier(&self, wl: u8) -> &WorldlineState {
        self.runtime.worldlines().get(&wl_id(wl)).expect("frontier").state()
    }
    pub fn len(&self, wl: u8) -> u64 {
        self.provenance.len(wl_id(wl)).unwrap_or(0)
    }

    pub fn make_envelope(&self, seed: &WorldSeed, wl: u8, route: &Route, k: u8, prog: &Prog, salt: u32) -> IngressEnvelope {
        let id = wl_id(wl);
        let target = match route {
            Route::Default => IngressTarget::DefaultWriter { worldline_id: id },
            Route::Named(h) => {
                let h = self.head_of(wl, *h);
                match seed.worldlines[wl as usize].1[h as usize].inbox {
                    Some(kx) => IngressTarget::InboxAddress { worldline_id: id, inbox: InboxAddress(format!("in{kx}-{h}")) },
                    None => IngressTarget::ExactHead { key: head_key(wl, h) },
                }
            }
            Route::Exact(h) => IngressTarget::ExactHead { key: head_key(wl, self.head_of(wl, *h)) },
        };
        IngressEnvelope::local_intent(target, kind(k), encode_prog(prog, salt))
    }

    pub fn submit(&mut self, env: IngressEnvelope) -> Result<IngressDisposition, String> {
        let r = self.runtime.ingest(env.clone()).map_err(|e| format!("{e:?}"));
        let head = match &r {
            Ok(IngressDisposition::Accepted { head_key, ingress_id, .. }) => {
                self.accepted_ids.entry(*head_key).or_default().insert(*ingress_id);
                Some(*head_key)
            }
            Ok(IngressDisposition::Duplicate { head_key, .. }) => Some(*head_key),
            _ => None,
        };
        self.submitted.push((env, head));
        r
    }

    /// One scheduler pass; records ledger entries for committed heads.
    pub fn pass(&mut self) -> PassOutcome {
        let r = std::panic::catch_unwind(std::panic::AssertUnwindSafe(|| {
            SchedulerCoordinator::super_tick(&mut self.runtime, &mut self.provenance, &mut self.engine)
        }));
        match r {
            Ok(Ok(records)) => {
                for (ri, rec) in records.iter().enumerate() {
                    let wl = wl_ix(&rec.head_key.worldline_id).expect("known worldline");
                    let ws = self.frontier(wl);
                    let idx = (rec.worldline_tick_after.as_u64() - 1) as usize;
                    let (snap, receipt, patch) = ws.tick_history()[idx].clone();
                    let last_for_wl = !records[ri + 1..].iter().any(|r| r.head_key.worldline_id == rec.head_key.worldline_id);
                    let lt = LedgerTick {
                        fp: if last_for_wl { Some(state_fp(ws)) } else { None },
                        state_root: snap.state_root,
                        commit_hash: snap.hash,
                        patch_digest: patch.digest(),
                        parents: snap.parents.clone(),
                        global_tick: rec.commit_global_tick.as_u64(),
                        head: rec.head_key,
                        admitted: rec.admitted_count,
                    };
                    debug_assert_eq!(self.ledger[wl as usize].len(), idx);
                    self.ledger[wl as usize].push(lt);
                    // which intents ran in this commit: receipt entries are scoped on the event node,
                    // whose id is the ingress id
                    for e in receipt.entries() {
                        *self.committed.entry((rec.head_key, e.scope.local_id.0)).or_default() += 1;
                    }
                    *self.admitted_total.entry(rec.head_key).or_default() += rec.admitted_count as u64;
                }
                self.pass_records.push(records.clone());
                PassOutcome::Ok(records)
            }
            Ok(Err(e)) => PassOutcome::Err(format!("{e:?}")),
            Err(p) => PassOutcome::Panic(vkit::panic_message(&p)),
        }
    }

    pub fn checkpoint(&mut self, wl: u8) -> Result<(), String> {
        let ws = self.frontier(wl).clone();
        let t = ws.current_tick().as_u64();
        self.provenance.checkpoint(wl_id(wl), &ws).map(|_| ()).map_err(|e| format!("{e:?}"))?;
        self.checkpoints[wl as usize].insert(t);
        Ok(())
    }

    /// Realise a program seed against the current (lenient) state of worldline `wl`.
    pub fn realise_prog(&self, wl: u8, seed: &CandSeed) -> Prog {
        let pre = lenient_dump(self.frontier(wl));
        let mut s = seed.clone();
        s.w = 0;
        s.slot = s.slot % 6; // never a system slot in runtime mode
        let mut c = realise_cands(&pre, &[s]);
        // realise_cands may pick another warp for w; force root warp semantics
        let mut p = c.pop().map(|c| c.prog).unwrap_or(Prog { cond: MatchCond::Always, instrs: vec![], fp: AFootprint::default() });
        if !pre.warps.contains_key(&0) {
            p.instrs.clear();
        }
        // an intent may run against a later state than the one it was realised for
        // (another head of the same worldline commits first, or a budgeted inbox defers it):
        // like a real rule it matches only while its structural preconditions hold
        if !matches!(p.cond, MatchCond::Never) {
            p.cond = MatchCond::Guarded(preconds(&p.instrs));
        }
        p
    }

    /// Interpret one step. Returns a short tag of what happened.
    pub fn apply_step(&mut self, seed: &WorldSeed, step: &Step) -> String {
        match step {
            Step::Submit { wl, route, kind: k, prog, salt } => {
                let wl = self.wl_of(*wl);
                let p = self.realise_prog(wl, prog);
                let env = self.make_envelope(seed, wl, route, *k, &p, *salt);
                match self.submit(env) {
                    Ok(IngressDisposition::Accepted { .. }) => "submit:accepted".into(),
                    Ok(IngressDisposition::Duplicate { .. }) => "submit:duplicate".into(),
                    Ok(other) => format!("submit:{other:?}").chars().take(40).collect(),
                    Err(_) => "submit:rejected".into(),
                }
            }
            Step::Retry { which } => {
                if self.submitted.is_empty() {
                    return "retry:none".into();
                }
                let env = self.submitted[vkit::pick_idx(*which, self.submitted.len())].0.clone();
                match self.submit(env) {
                    Ok(IngressDisposition::Accepted { .. }) => "retry:accepted".into(),
                    Ok(IngressDisposition::Duplicate { .. }) => "retry:duplicate".into(),
                    Ok(_) => "retry:other".into(),
                    Err(_) => "retry:rejected".into(),
                }
            }
            Step::Pass => match self.pass() {
                PassOutcome::Ok(r) => format!("pass:ok:{}", r.len().min(5)),
                PassOutcome::Err(_) => "pass:err".into(),
                PassOutcome::Panic(_) => "pass:panic".into(),
            },
            Step::Pause { wl, head } => {
                let wl = self.wl_of(*wl);
                let h = self.head_of(wl, *head);
                let _ = self.runtime.set_head_eligibility(head_key(wl, h), warp_core::HeadEligibility::Dormant);
                "pause".into()
            }
            Step::Resume { wl, head } => {
                let wl = self.wl_of(*wl);
                let h = self.head_of(wl, *head);
                let _ = self.runtime.set_head_eligibility(head_key(wl, h), warp_core::HeadEligibility::Admitted);
                "resume".into()
            }
            Step::SetPolicy { .. } => "set-policy:unsupported".into(),
            Step::Checkpoint { wl } => {
                let wl = self.wl_of(*wl);
                match self.checkpoint(wl) {
                    Ok(()) => "checkpoint".into(),
                    Err(_) => "checkpoint:refused".into(),
                }
            }
        }
    }
}

pub fn gt(raw: u64) -> GlobalTick {
    GlobalTick::from_raw(raw)
}
pub fn wt(raw: u64) -> WorldlineTick {
    WorldlineTick::from_raw(raw)
}
