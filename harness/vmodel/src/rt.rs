//! Runtime mode: programs travel inside the intent payload and are interpreted by one `cmd/`
//! rule that reads the event node's attachment (like the repo's contract fixtures).
//! `HistGen`: scripts of submit / pass / policy / pause / checkpoint steps interpreted against
//! `WorldlineRuntime + ProvenanceService + Engine`, recording a live ledger.

use crate::dsl::*;
use crate::tick::*;
use crate::universe::*;
use proptest::prelude::*;
use serde::{Deserialize, Serialize};
use std::collections::{BTreeMap, BTreeSet};
use warp_core::{
    make_head_id, make_intent_kind, AttachmentKey, AttachmentValue, ConflictPolicy, Engine, EngineBuilder, Footprint,
    GlobalTick, GraphStore, GraphView, InboxAddress, InboxPolicy, IngressDisposition, IngressEnvelope, IngressTarget,
    IntentKind, NodeId, NodeKey, NodeRecord, PatternGraph, PlaybackMode, ProvenanceService, ProvenanceStore, RewriteRule,
    SchedulerCoordinator, SchedulerKind, StepRecord, TickDelta, WorldlineId, WorldlineRuntime, WorldlineState,
    WorldlineTick, WriterHead, WriterHeadKey,
};
use warp_core::{
    IntentSubmissionDisposition, OpticAdmissionTicket, OpticArtifactHandle, ProvenanceEntry, ReceiptCorrelationPersistenceRecord,
    TicketedRuntimeIngressAuthority, TicketedRuntimeIngressDisposition, OPTIC_ADMISSION_TICKET_KIND, OPTIC_ARTIFACT_HANDLE_KIND,
};

pub const DSL_MAGIC: &[u8] = b"VDSL";
pub const RT_RULE_NAME: &str = "cmd/verif-dsl";

pub fn rt_rule_id() -> [u8; 32] {
    *blake3::hash(b"verif/cmd/verif-dsl").as_bytes()
}

pub fn encode_prog(p: &Prog, salt: u32) -> Vec<u8> {
    let mut b = DSL_MAGIC.to_vec();
    b.extend_from_slice(&salt.to_le_bytes());
    b.extend_from_slice(&serde_json::to_vec(p).expect("prog json"));
    b
}

fn decode_prog(view: GraphView<'_>, scope: &NodeId, guarded: bool) -> Option<Prog> {
    let _ = guarded;
    let att = view.node_attachment(scope)?;
    let AttachmentValue::Atom(a) = att else { return None };
    let b = a.bytes.as_ref();
    if b.len() < 8 || &b[..4] != DSL_MAGIC {
        return None;
    }
    serde_json::from_slice(&b[8..]).ok()
}

fn rt_matcher(view: GraphView<'_>, scope: &NodeId) -> bool {
    match decode_prog(view, scope, false) {
        Some(p) => real_cond(view, &p.cond),
        None => false,
    }
}

fn rt_footprint(view: GraphView<'_>, scope: &NodeId) -> Footprint {
    let w = warp_ix(&view.warp_id()).unwrap_or(0);
    let mut fp = match decode_prog(view, scope, false) {
        Some(p) => p.fp.to_real(w),
        None => Footprint::default(),
    };
    // the executor reads the event node's own attachment to find its program
    fp.a_read.insert(AttachmentKey::node_alpha(NodeKey { warp_id: view.warp_id(), local_id: *scope }));
    fp
}

fn rt_executor(view: GraphView<'_>, scope: &NodeId, delta: &mut TickDelta) {
    EXEC_COUNT.fetch_add(1, std::sync::atomic::Ordering::Relaxed);
    let Some(p) = decode_prog(view, scope, true) else { return };
    let w = warp_ix(&view.warp_id()).unwrap_or(0);
    run_real(view, w, &p, delta);
}

pub fn rt_rule() -> RewriteRule {
    RewriteRule {
        id: rt_rule_id(),
        name: RT_RULE_NAME,
        left: PatternGraph { nodes: vec![] },
        matcher: rt_matcher,
        executor: rt_executor,
        compute_footprint: rt_footprint,
        factor_mask: u64::MAX,
        conflict_policy: ConflictPolicy::Abort,
        join_fn: None,
    }
}

pub fn rt_engine(workers: usize) -> Engine {
    let mut store = GraphStore::default();
    let root = warp_core::make_node_id("verif/engine-root");
    store.insert_node(root, NodeRecord { ty: warp_core::make_type_id("verif/engine-root") });
    let mut e = EngineBuilder::new(store, root).scheduler(SchedulerKind::Radix).workers(workers.max(1)).build();
    e.register_rule(rt_rule()).expect("register rt rule");
    e
}

pub fn wl_id(i: u8) -> WorldlineId {
    let mut h = [0u8; 32];
    h[0] = [0x60, 0x10, 0xc0, 0x30][(i % 4) as usize];
    h[31] = i;
    WorldlineId::from_bytes(h)
}
pub fn wl_ix(id: &WorldlineId) -> Option<u8> {
    (0..8).find(|i| wl_id(*i) == *id)
}
pub fn head_label(i: u8) -> String {
    format!("h{i}")
}
pub fn head_key(wl: u8, h: u8) -> WriterHeadKey {
    WriterHeadKey { worldline_id: wl_id(wl), head_id: make_head_id(&head_label(h)) }
}
pub fn kind(k: u8) -> IntentKind {
    make_intent_kind(&format!("verif/k{}", k % 3))
}

// ---------------------------------------------------------------------------
// full-state fingerprint (content of every universe warp, reachable or not)

#[derive(Clone, Debug, PartialEq, Eq, Serialize, Deserialize)]
pub struct StateFp {
    pub state_root: [u8; 32],
    /// per universe warp: (instance root node bytes, parent key debug, canonical store hash)
    pub warps: Vec<(u8, [u8; 32], String, [u8; 32])>,
}

pub fn state_fp(ws: &WorldlineState) -> StateFp {
    let mut warps = Vec::new();
    for w in 0..N_WARPS + 1 {
        let id = warp_id(w);
        if let (Some(inst), Some(store)) = (ws.warp_state().instance(&id), ws.store(&id)) {
            warps.push((w, inst.root_node.0, format!("{:?}", inst.parent), store.canonical_state_hash()));
        }
    }
    StateFp { state_root: ws.state_root(), warps }
}

/// Universe-only abstract view of a runtime state (event/kind nodes created by ingress
/// materialisation are foreign ids and are ignored here; `state_fp` covers them).
pub fn lenient_dump(ws: &WorldlineState) -> AState {
    let mut out = AState::default();
    for w in 0..N_WARPS + 1 {
        let id = warp_id(w);
        let (Some(inst), Some(store)) = (ws.warp_state().instance(&id), ws.store(&id)) else { continue };
        let mut aw = AWarp { root_node: node_ix(&inst.root_node).unwrap_or(0), parent: inst.parent.as_ref().and_then(ASlot::from_key), ..Default::default() };
        for (nid, rec) in store.iter_nodes() {
            if let (Some(n), Some(t)) = (node_ix(nid), type_ix(&rec.ty)) {
                aw.nodes.insert(n, t);
            }
        }
        for (_, es) in store.iter_edges() {
            for e in es {
                if let (Some(ei), Some(f), Some(t), Some(ty)) = (edge_ix(&e.id), node_ix(&e.from), node_ix(&e.to), type_ix(&e.ty)) {
                    aw.edges.insert(ei, AEdge { from: f, to: t, ty });
                }
            }
        }
        for (nid, v) in store.iter_node_attachments() {
            if let (Some(n), Some(v)) = (node_ix(nid), AVal::from_real(v)) {
                aw.natt.insert(n, v);
            }
        }
        for (eid, v) in store.iter_edge_attachments() {
            if let (Some(e), Some(v)) = (edge_ix(eid), AVal::from_real(v)) {
                aw.eatt.insert(e, v);
            }
        }
        out.warps.insert(w, aw);
    }
    out
}

// ---------------------------------------------------------------------------
// scripts

#[derive(Clone, Debug, Serialize, Deserialize)]
pub enum PolicySeed {
    AcceptAll,
    KindFilter(Vec<u8>),
    Budgeted(u8),
}
impl PolicySeed {
    pub fn to_real(&self) -> InboxPolicy {
        match self {
            PolicySeed::AcceptAll => InboxPolicy::AcceptAll,
            PolicySeed::KindFilter(ks) => InboxPolicy::KindFilter(ks.iter().map(|k| kind(*k)).collect::<BTreeSet<_>>()),
            PolicySeed::Budgeted(n) => InboxPolicy::Budgeted { max_per_tick: *n as u32 },
        }
    }
}

#[derive(Clone, Debug, Serialize, Deserialize)]
pub struct HeadSeed {
    pub policy: PolicySeed,
    /// named public inbox ("in<k>") or none
    pub inbox: Option<u8>,
}

#[derive(Clone, Debug, Serialize, Deserialize)]
pub struct WorldSeed {
    /// per worldline: initial state + heads (head 0 is the default writer)
    pub worldlines: Vec<(StateSeed, Vec<HeadSeed>)>,
    pub workers: u8,
}

#[derive(Clone, Debug, Serialize, Deserialize)]
pub enum Route {
    Default,
    Named(u8),
    Exact(u8),
}

#[derive(Clone, Debug, Serialize, Deserialize)]
pub enum Step {
    /// submit an intent: (worldline pick, route, kind, program seed, salt)
    Submit { wl: u8, route: Route, kind: u8, prog: CandSeed, salt: u32 },
    /// re-submit an earlier submission (retry) by index into the list of earlier submits
    Retry { which: u16 },
    Pass,
    Pause { wl: u8, head: u8 },
    Resume { wl: u8, head: u8 },
    SetPolicy { wl: u8, head: u8, policy: PolicySeed },
    Checkpoint { wl: u8 },
    /// witnessed submission (`submit_intent`) followed, if `stage`, by ticketed runtime ingress
    /// (`ingest_ticketed_invocation`) with admission ticket number `ticket`
    SubmitTicketed { wl: u8, route: Route, kind: u8, prog: CandSeed, salt: u32, ticket: u8, stage: bool },
    /// re-submit an earlier submission through plain runtime ingress, whatever path it took first
    RetryPlain { which: u16 },
    /// process restart: a fresh runtime with the same topology is rebuilt from the retained
    /// witnessed submissions, provenance entries and receipt correlations
    Restart,
}

pub fn policy_seed() -> impl Strategy<Value = PolicySeed> {
    prop_oneof![
        5 => Just(PolicySeed::AcceptAll),
        1 => prop::collection::vec(0u8..3, 1..3).prop_map(PolicySeed::KindFilter),
        2 => (0u8..4).prop_map(PolicySeed::Budgeted),
    ]
}

pub fn world_seed(max_wl: usize, max_heads: usize) -> impl Strategy<Value = WorldSeed> {
    (
        prop::collection::vec(
            (
                prop_oneof![2 => single_warp_state_seed(), 1 => state_seed()],
                prop::collection::vec((policy_seed(), prop::option::of(0u8..3)).prop_map(|(policy, inbox)| HeadSeed { policy, inbox }), 1..=max_heads),
            ),
            1..=max_wl,
        ),
        prop_oneof![Just(1u8), Just(2), Just(4)],
    )
        .prop_map(|(worldlines, workers)| WorldSeed { worldlines, workers })
}

pub fn step_seed() -> impl Strategy<Value = Step> {
    let route = prop_oneof![3 => Just(Route::Default), 1 => (0u8..3).prop_map(Route::Named), 2 => (0u8..4).prop_map(Route::Exact)];
    prop_oneof![
        6 => (any::<u8>(), route.clone(), 0u8..3, cand_seed(5), 0u32..4).prop_map(|(wl, route, kind, prog, salt)| Step::Submit { wl, route, kind, prog, salt }),
        3 => (any::<u8>(), route, 0u8..3, cand_seed(5), 0u32..4, 0u8..3, prop::bool::weighted(0.85)).prop_map(|(wl, route, kind, prog, salt, ticket, stage)| Step::SubmitTicketed { wl, route, kind, prog, salt, ticket, stage }),
        1 => any::<u16>().prop_map(|which| Step::RetryPlain { which }),
        2 => any::<u16>().prop_map(|which| Step::Retry { which }),
        6 => Just(Step::Pass),
        1 => (any::<u8>(), any::<u8>()).prop_map(|(wl, head)| Step::Pause { wl, head }),
        1 => (any::<u8>(), any::<u8>()).prop_map(|(wl, head)| Step::Resume { wl, head }),
        1 => (any::<u8>(), any::<u8>(), policy_seed()).prop_map(|(wl, head, policy)| Step::SetPolicy { wl, head, policy }),
        1 => any::<u8>().prop_map(|wl| Step::Checkpoint { wl }),
    ]
}

/// Scripts for worlds in which every intent enters through the witnessed + ticketed path
/// (the only path whose history is retained across a restart), with process restarts.
pub fn step_seed_ticketed() -> impl Strategy<Value = Step> {
    let route = prop_oneof![3 => Just(Route::Default), 1 => (0u8..3).prop_map(Route::Named), 2 => (0u8..4).prop_map(Route::Exact)];
    prop_oneof![
        8 => (any::<u8>(), route, 0u8..3, cand_seed(5), 0u32..4, 0u8..3, prop::bool::weighted(0.9)).prop_map(|(wl, route, kind, prog, salt, ticket, stage)| Step::SubmitTicketed { wl, route, kind, prog, salt, ticket, stage }),
        2 => any::<u16>().prop_map(|which| Step::Retry { which }),
        2 => any::<u16>().prop_map(|which| Step::RetryPlain { which }),
        6 => Just(Step::Pass),
        2 => Just(Step::Restart),
        1 => (any::<u8>(), any::<u8>()).prop_map(|(wl, head)| Step::Pause { wl, head }),
        1 => (any::<u8>(), any::<u8>()).prop_map(|(wl, head)| Step::Resume { wl, head }),
        1 => any::<u8>().prop_map(|wl| Step::Checkpoint { wl }),
    ]
}

/// Admission ticket number `seed` for one submission. Tickets are per submission (the live
/// runtime refuses a second correlation under an already used ticket digest), so the digest
/// is derived from the intent as well.
pub fn admission_ticket(seed: u8, ingress_id: &[u8; 32], head: &WriterHeadKey) -> OpticAdmissionTicket {
    let mut h = blake3::Hasher::new();
    h.update(b"verif-ticket");
    h.update(&[seed]);
    h.update(ingress_id);
    h.update(head.worldline_id.as_bytes());
    h.update(head.head_id.as_bytes());
    let digest = *h.finalize().as_bytes();
    OpticAdmissionTicket {
        kind: OPTIC_ADMISSION_TICKET_KIND.to_owned(),
        artifact_handle: OpticArtifactHandle { kind: OPTIC_ARTIFACT_HANDLE_KIND.to_owned(), id: format!("verif-ticket-{seed}") },
        artifact_hash: format!("artifact-hash-{seed}"),
        operation_id: format!("operation-{seed}"),
        requirements_digest: format!("requirements-{seed}"),
        canonical_variables_digest: vec![seed],
        basis_request_digest: [seed; 32],
        aperture_request_digest: [seed.wrapping_add(1); 32],
        budget_request_digest: [seed.wrapping_add(2); 32],
        law_witness_digest: [seed.wrapping_add(3); 32],
        ticket_digest: digest,
    }
}

// ---------------------------------------------------------------------------
// the world and its live ledger

#[derive(Clone, Debug, PartialEq, Eq)]
pub struct LedgerTick {
    /// full content fingerprint of the live state after this tick; only observable at pass
    /// boundaries (None for a tick followed by another commit on the same worldline in the
    /// same pass)
    pub fp: Option<StateFp>,
    pub state_root: [u8; 32],
    pub commit_hash: [u8; 32],
    pub patch_digest: [u8; 32],
    pub parents: Vec<[u8; 32]>,
    pub global_tick: u64,
    pub head: WriterHeadKey,
    pub admitted: usize,
}

pub struct World {
    pub runtime: WorldlineRuntime,
    pub provenance: ProvenanceService,
    pub engine: Engine,
    pub n_heads: Vec<u8>,
    /// U0 per worldline
    pub initial: Vec<WorldlineState>,
    /// live ledger per worldline (index = tick)
    pub ledger: Vec<Vec<LedgerTick>>,
    /// every submitted envelope in submission order with its resolved head (if accepted)
    pub submitted: Vec<(IngressEnvelope, Option<WriterHeadKey>)>,
    /// per (head, ingress id): number of committed batches that contained it
    pub committed: BTreeMap<(WriterHeadKey, [u8; 32]), u32>,
    pub pass_records: Vec<Vec<StepRecord>>,
    pub checkpoints: Vec<BTreeSet<u64>>,
    /// per head: distinct ingress ids the runtime accepted / total admitted_count over all passes
    pub accepted_ids: BTreeMap<WriterHeadKey, BTreeSet<[u8; 32]>>,
    pub admitted_total: BTreeMap<WriterHeadKey, u64>,
    /// parallel to `submitted`: the admission ticket number of a ticketed submission
    pub submitted_ticket: Vec<Option<u8>>,
    /// number of process restarts so far
    pub restarts: u32,
    /// (head, ingress id) pairs that entered runtime ingress through a ticket at least once
    pub staged: BTreeSet<(WriterHeadKey, [u8; 32])>,
    /// pairs whose commit happened while their ticketed ingress record was live (retained
    /// across restarts through the receipt correlation)
    pub ticket_committed: BTreeSet<(WriterHeadKey, [u8; 32])>,
    /// ingress id -> admission ticket number of the witnessed submission that introduced it
    pub ticket_of: BTreeMap<[u8; 32], u8>,
    /// committed ticks in which an admitted intent matched no rule while another one did
    pub mixed_ticks: u32,
}

pub fn build_world(seed: &WorldSeed) -> World {
    let mut runtime = WorldlineRuntime::new();
    let mut provenance = ProvenanceService::new();
    let mut initial = Vec::new();
    let mut n_heads = Vec::new();
    for (i, (st, heads)) in seed.worldlines.iter().enumerate() {
        let a = realise_state(st);
        let real = build_real(&a, &[]);
        let ws = WorldlineState::new(real, node_key(0, a.warps[&0].root_node)).expect("worldline state");
        let id = wl_id(i as u8);
        runtime.register_worldline(id, ws.clone()).expect("register worldline");
        provenance.register_worldline(id, &ws).expect("register provenance");
        for (h, hs) in heads.iter().enumerate() {
            runtime
                .register_writer_head(WriterHead::with_routing(
                    head_key(i as u8, h as u8),
                    PlaybackMode::Play,
                    hs.policy.to_real(),
                    hs.inbox.map(|k| InboxAddress(format!("in{k}-{h}"))),
                    h == 0,
                ))
                .expect("register head");
        }
        n_heads.push(heads.len() as u8);
        initial.push(ws);
    }
    let n = seed.worldlines.len();
    World {
        runtime,
        provenance,
        engine: rt_engine(seed.workers as usize),
        n_heads,
        initial,
        ledger: vec![Vec::new(); n],
        submitted: Vec::new(),
        committed: BTreeMap::new(),
        pass_records: Vec::new(),
        checkpoints: vec![BTreeSet::new(); n],
        accepted_ids: BTreeMap::new(),
        admitted_total: BTreeMap::new(),
        submitted_ticket: Vec::new(),
        restarts: 0,
        staged: BTreeSet::new(),
        ticket_committed: BTreeSet::new(),
        ticket_of: BTreeMap::new(),
        mixed_ticks: 0,
    }
}

/// A runtime with the seed's topology (worldlines at their initial states, heads, policies)
/// and nothing else: what a restarted process registers before restoring retained history.
fn fresh_runtime(seed: &WorldSeed, initial: &[WorldlineState]) -> WorldlineRuntime {
    let mut runtime = WorldlineRuntime::new();
    for (i, (_, heads)) in seed.worldlines.iter().enumerate() {
        runtime.register_worldline(wl_id(i as u8), initial[i].clone()).expect("register worldline");
        for (h, hs) in heads.iter().enumerate() {
            runtime
                .register_writer_head(WriterHead::with_routing(head_key(i as u8, h as u8), PlaybackMode::Play, hs.policy.to_real(), hs.inbox.map(|k| InboxAddress(format!("in{k}-{h}"))), h == 0))
                .expect("register head");
        }
    }
    runtime
}

#[derive(Debug)]
pub enum PassOutcome {
    Ok(Vec<StepRecord>),
    Err(String),
    Panic(String),
}

impl World {
    pub fn n_wl(&self) -> usize {
        self.initial.len()
    }
    pub fn wl_of(&self, pick: u8) -> u8 {
        pick % self.n_wl() as u8
    }
    pub fn head_of(&self, wl: u8, pick: u8) -> u8 {
        pick % self.n_heads[wl as usize]
    }
    pub fn frontier(&self, wl: u8) -> &WorldlineState {
        self.runtime.worldlines().get(&wl_id(wl)).expect("frontier").state()
    }
    pub fn len(&self, wl: u8) -> u64 {
        self.provenance.len(wl_id(wl)).unwrap_or(0)
    }

    pub fn make_envelope(&self, seed: &WorldSeed, wl: u8, route: &Route, k: u8, prog: &Prog, salt: u32) -> IngressEnvelope {
        let id = wl_id(wl);
        let target = match route {
            Route::Default => IngressTarget::DefaultWriter { worldline_id: id },
            Route::Named(h) => {
                let h = self.head_of(wl, *h);
                match seed.worldlines.get(wl as usize).and_then(|w| w.1.get(h as usize)).and_then(|hs| hs.inbox) {
                    Some(kx) => IngressTarget::InboxAddress { worldline_id: id, inbox: InboxAddress(format!("in{kx}-{h}")) },
                    None => IngressTarget::ExactHead { key: head_key(wl, h) },
                }
            }
            Route::Exact(h) => IngressTarget::ExactHead { key: head_key(wl, self.head_of(wl, *h)) },
        };
        IngressEnvelope::local_intent(target, kind(k), encode_prog(prog, salt))
    }

    pub fn submit(&mut self, env: IngressEnvelope) -> Result<IngressDisposition, String> {
        let r = self.runtime.ingest(env.clone()).map_err(|e| format!("{e:?}"));
        let head = match &r {
            Ok(IngressDisposition::Accepted { head_key, ingress_id, .. }) => {
                self.accepted_ids.entry(*head_key).or_default().insert(*ingress_id);
                Some(*head_key)
            }
            Ok(IngressDisposition::Duplicate { head_key, .. }) => Some(*head_key),
            _ => None,
        };
        self.submitted.push((env, head));
        self.submitted_ticket.push(None);
        r
    }

    /// Witnessed submission, then (if `stage`) ticketed runtime ingress. Returns a tag.
    pub fn submit_ticketed(&mut self, env: IngressEnvelope, ticket: u8, stage: bool) -> String {
        let ticket = *self.ticket_of.entry(env.ingress_id()).or_insert(ticket);
        let sub = self.runtime.submit_intent(env.clone());
        let (submission_id, head, first) = match &sub {
            Ok(IntentSubmissionDisposition::Accepted { submission_id, head_key, .. }) => (*submission_id, *head_key, true),
            Ok(IntentSubmissionDisposition::Duplicate { submission_id, head_key, .. }) => (*submission_id, *head_key, false),
            Err(_) => {
                self.submitted.push((env, None));
                self.submitted_ticket.push(Some(ticket));
                return "ticketed:rejected".into();
            }
        };
        self.submitted.push((env.clone(), Some(head)));
        self.submitted_ticket.push(Some(ticket));
        if !stage {
            return if first { "ticketed:witnessed".into() } else { "ticketed:witnessed-duplicate".into() };
        }
        let auth = TicketedRuntimeIngressAuthority::assume_runtime_owner();
        match self.runtime.ingest_ticketed_invocation(&auth, submission_id, &admission_ticket(ticket, &env.ingress_id(), &head), env.clone()) {
            Ok(TicketedRuntimeIngressDisposition::Staged { ingress, .. }) => {
                if let IngressDisposition::Accepted { head_key, ingress_id, .. } = ingress {
                    self.accepted_ids.entry(head_key).or_default().insert(ingress_id);
                    self.staged.insert((head_key, ingress_id));
                }
                "ticketed:staged".into()
            }
            Ok(TicketedRuntimeIngressDisposition::Duplicate { .. }) => "ticketed:duplicate".into(),
            Err(e) => format!("ticketed:refused:{}", format!("{e:?}").chars().take(28).collect::<String>()),
        }
    }

    /// Process restart (see `Step::Restart`). Inbox contents, eligibility and fault records are
    /// volatile; witnessed submissions, provenance and receipt correlations are retained.
    pub fn restart(&mut self, seed: &WorldSeed) -> Result<(), String> {
        let retained = self.runtime.witnessed_submission_persistence_snapshot().map_err(|e| format!("snapshot: {e:?}"))?;
        let mut entries: Vec<ProvenanceEntry> = Vec::new();
        for wl in 0..self.n_wl() as u8 {
            for t in 0..self.len(wl) {
                entries.push(self.provenance.entry(wl_id(wl), wt(t)).map_err(|e| format!("entry: {e:?}"))?);
            }
        }
        let correlations: Vec<ReceiptCorrelationPersistenceRecord> = self.runtime.receipt_correlations().map(ReceiptCorrelationPersistenceRecord::from).collect();
        let mut fresh = fresh_runtime(seed, &self.initial);
        fresh.restore_witnessed_submission_persistence(retained).map_err(|e| format!("restore submissions: {e:?}"))?;
        fresh.restore_causal_runtime_history(&self.provenance, &entries, &correlations).map_err(|e| format!("restore history: {e:?}"))?;
        self.runtime = fresh;
        self.restarts += 1;
        // per-incarnation bookkeeping (pending inbox contents are volatile)
        self.accepted_ids.clear();
        self.admitted_total.clear();
        // staging records of uncommitted intents are volatile
        self.staged = self.ticket_committed.clone();
        Ok(())
    }

    /// One scheduler pass; records ledger entries for committed heads.
    pub fn pass(&mut self) -> PassOutcome {
        let r = std::panic::catch_unwind(std::panic::AssertUnwindSafe(|| {
            SchedulerCoordinator::super_tick(&mut self.runtime, &mut self.provenance, &mut self.engine)
        }));
        match r {
            Ok(Ok(records)) => {
                for (ri, rec) in records.iter().enumerate() {
                    let wl = wl_ix(&rec.head_key.worldline_id).expect("known worldline");
                    let ws = self.frontier(wl);
                    let idx = (rec.worldline_tick_after.as_u64() - 1) as usize;
                    let (snap, receipt, patch) = ws.tick_history()[idx].clone();
                    let last_for_wl = !records[ri + 1..].iter().any(|r| r.head_key.worldline_id == rec.head_key.worldline_id);
                    let lt = LedgerTick {
                        fp: if last_for_wl { Some(state_fp(ws)) } else { None },
                        state_root: snap.state_root,
                        commit_hash: snap.hash,
                        patch_digest: patch.digest(),
                        parents: snap.parents.clone(),
                        global_tick: rec.commit_global_tick.as_u64(),
                        head: rec.head_key,
                        admitted: rec.admitted_count,
                    };
                    debug_assert_eq!(self.ledger[wl as usize].len(), idx);
                    self.ledger[wl as usize].push(lt);
                    // which intents ran in this commit: receipt entries are scoped on the event node,
                    // whose id is the ingress id
                    for e in receipt.entries() {
                        *self.committed.entry((rec.head_key, e.scope.local_id.0)).or_default() += 1;
                        if self.staged.contains(&(rec.head_key, e.scope.local_id.0)) {
                            self.ticket_committed.insert((rec.head_key, e.scope.local_id.0));
                        }
                    }
                    *self.admitted_total.entry(rec.head_key).or_default() += rec.admitted_count as u64;
                    let scopes: BTreeSet<[u8; 32]> = receipt.entries().iter().map(|e| e.scope.local_id.0).collect();
                    if !scopes.is_empty() && scopes.len() < rec.admitted_count {
                        self.mixed_ticks += 1;
                    }
                }
                self.pass_records.push(records.clone());
                PassOutcome::Ok(records)
            }
            Ok(Err(e)) => PassOutcome::Err(format!("{e:?}")),
            Err(p) => PassOutcome::Panic(vkit::panic_message(&p)),
        }
    }

    /// Fork worldline `parent` at `fork_tick` (entry index) into a new worldline that is
    /// registered with the runtime (one default writer head, accept-all inbox) and continues
    /// independently. Returns the child's index.
    pub fn fork_worldline(&mut self, parent: u8, fork_tick: u64) -> Result<u8, String> {
        let child = self.n_wl() as u8;
        let id = wl_id(child);
        self.provenance.fork(wl_id(parent), wt(fork_tick), id).map_err(|e| format!("fork: {e:?}"))?;
        let init = self.initial[parent as usize].clone();
        let state = self.provenance.replay_worldline_state_at(id, &init, wt(fork_tick + 1)).map_err(|e| format!("replay child: {e:?}"))?;
        self.runtime.register_worldline(id, state).map_err(|e| format!("register child: {e:?}"))?;
        self.runtime
            .register_writer_head(WriterHead::with_routing(head_key(child, 0), PlaybackMode::Play, InboxPolicy::AcceptAll, None, true))
            .map_err(|e| format!("register child head: {e:?}"))?;
        self.initial.push(init);
        self.n_heads.push(1);
        self.ledger.push(self.ledger[parent as usize][..=fork_tick as usize].to_vec());
        self.checkpoints.push(self.checkpoints[parent as usize].iter().copied().filter(|t| *t <= fork_tick + 1).collect());
        Ok(child)
    }

    /// Fork a strand through the runtime (`WorldlineRuntime::fork_strand`): the child worldline
    /// gets one fresh default writer head with an accept-all inbox. Returns (child index, receipt).
    pub fn fork_strand(&mut self, parent: u8, fork_tick: u64, shared: bool, label: &str) -> Result<(u8, warp_core::ForkStrandReceipt), String> {
        let child = self.n_wl() as u8;
        let id = wl_id(child);
        let request = warp_core::ForkStrandRequest {
            strand_id: warp_core::make_strand_id(label),
            source_lane_id: wl_id(parent),
            fork_tick: wt(fork_tick),
            child_worldline_id: id,
            writer_heads: vec![WriterHead::with_routing(head_key(child, 0), PlaybackMode::Play, InboxPolicy::AcceptAll, None, true)],
            retention_posture: retention_posture(shared),
        };
        let receipt = self.runtime.fork_strand(&mut self.provenance, request).map_err(|e| format!("{e:?}"))?;
        self.initial.push(self.initial[parent as usize].clone());
        self.n_heads.push(1);
        self.ledger.push(self.ledger[parent as usize][..=fork_tick as usize].to_vec());
        self.checkpoints.push(self.checkpoints[parent as usize].iter().copied().filter(|t| *t <= fork_tick + 1).collect());
        Ok((child, receipt))
    }

    pub fn checkpoint(&mut self, wl: u8) -> Result<(), String> {
        let ws = self.frontier(wl).clone();
        let t = ws.current_tick().as_u64();
        self.provenance.checkpoint(wl_id(wl), &ws).map(|_| ()).map_err(|e| format!("{e:?}"))?;
        self.checkpoints[wl as usize].insert(t);
        Ok(())
    }

    /// Realise a program seed against the current (lenient) state of worldline `wl`.
    pub fn realise_prog(&self, wl: u8, seed: &CandSeed) -> Prog {
        realise_prog_for(self.frontier(wl), seed)
    }

    /// Interpret one step. Returns a short tag of what happened.
    pub fn apply_step(&mut self, seed: &WorldSeed, step: &Step) -> String {
        match step {
            Step::Submit { wl, route, kind: k, prog, salt } => {
                let wl = self.wl_of(*wl);
                let p = self.realise_prog(wl, prog);
                let env = self.make_envelope(seed, wl, route, *k, &p, *salt);
                match self.submit(env) {
                    Ok(IngressDisposition::Accepted { .. }) => "submit:accepted".into(),
                    Ok(IngressDisposition::Duplicate { .. }) => "submit:duplicate".into(),
                    Ok(other) => format!("submit:{other:?}").chars().take(40).collect(),
                    Err(_) => "submit:rejected".into(),
                }
            }
            Step::Retry { which } => {
                if self.submitted.is_empty() {
                    return "retry:none".into();
                }
                let ix = vkit::pick_idx(*which, self.submitted.len());
                let env = self.submitted[ix].0.clone();
                if let Some(t) = self.submitted_ticket[ix].or(self.ticket_of.get(&env.ingress_id()).copied()) {
                    // a retry of a ticketed submission takes the same path with the same ticket
                    return format!("retry-{}", self.submit_ticketed(env, t, true));
                }
                match self.submit(env) {
                    Ok(IngressDisposition::Accepted { .. }) => "retry:accepted".into(),
                    Ok(IngressDisposition::Duplicate { .. }) => "retry:duplicate".into(),
                    Ok(_) => "retry:other".into(),
                    Err(_) => "retry:rejected".into(),
                }
            }
            Step::Pass => match self.pass() {
                PassOutcome::Ok(r) => format!("pass:ok:{}", r.len().min(5)),
                PassOutcome::Err(_) => "pass:err".into(),
                PassOutcome::Panic(_) => "pass:panic".into(),
            },
            Step::Pause { wl, head } => {
                let wl = self.wl_of(*wl);
                let h = self.head_of(wl, *head);
                let _ = self.runtime.set_head_eligibility(head_key(wl, h), warp_core::HeadEligibility::Dormant);
                "pause".into()
            }
            Step::Resume { wl, head } => {
                let wl = self.wl_of(*wl);
                let h = self.head_of(wl, *head);
                let _ = self.runtime.set_head_eligibility(head_key(wl, h), warp_core::HeadEligibility::Admitted);
                "resume".into()
            }
            Step::SetPolicy { .. } => "set-policy:unsupported".into(),
            Step::SubmitTicketed { wl, route, kind: k, prog, salt, ticket, stage } => {
                let wl = self.wl_of(*wl);
                let p = self.realise_prog(wl, prog);
                let env = self.make_envelope(seed, wl, route, *k, &p, *salt);
                self.submit_ticketed(env, *ticket, *stage)
            }
            Step::RetryPlain { which } => {
                if self.submitted.is_empty() {
                    return "retry:none".into();
                }
                let ix = vkit::pick_idx(*which, self.submitted.len());
                let (env, head) = self.submitted[ix].clone();
                // plain ingress of a witnessed submission is only ever a RETRY of something that
                // already entered through its ticket (no real caller feeds a witnessed intent to
                // plain ingress first; its commit would carry no retained correlation)
                if self.ticket_of.contains_key(&env.ingress_id()) && !head.map(|h| self.staged.contains(&(h, env.ingress_id()))).unwrap_or(false) {
                    return "retry-plain:skipped-never-staged".into();
                }
                match self.submit(env) {
                    Ok(IngressDisposition::Accepted { .. }) => "retry:accepted".into(),
                    Ok(IngressDisposition::Duplicate { .. }) => "retry:duplicate".into(),
                    Ok(_) => "retry:other".into(),
                    Err(_) => "retry:rejected".into(),
                }
            }
            Step::Restart => match self.restart(seed) {
                Ok(()) => "restart".into(),
                Err(e) => format!("restart:failed:{e}"),
            },
            Step::Checkpoint { wl } => {
                let wl = self.wl_of(*wl);
                match self.checkpoint(wl) {
                    Ok(()) => "checkpoint".into(),
                    Err(_) => "checkpoint:refused".into(),
                }
            }
        }
    }
}

pub fn gt(raw: u64) -> GlobalTick {
    GlobalTick::from_raw(raw)
}
pub fn wt(raw: u64) -> WorldlineTick {
    WorldlineTick::from_raw(raw)
}

/// A validated retention posture: `Shared` (with an admission scope, so that settlement
/// planning and execution are reachable) or `AuthorOnly`.
pub fn retention_posture(shared: bool) -> warp_core::RetentionPosture {
    use warp_core::{ActorId, AdmissionScopeId, AuthorityBinding, AuthorityDomainId, AuthorityDomainRef, CausalAuthority, CausalPosture, OriginId, PostureDerivation, RetentionContractId, RetentionPosture, SealStrength};
    let origin_id = OriginId::from_bytes([0x51; 32]);
    let authority = AuthorityDomainRef::new(origin_id, AuthorityDomainId::from_bytes([0x52; 32]));
    let posture = if shared { CausalPosture::Shared } else { CausalPosture::AuthorOnly };
    RetentionPosture::new(
        posture,
        PostureDerivation::ExplicitIntent,
        CausalAuthority::new(origin_id, ActorId::from_bytes([0x53; 32]), authority, AuthorityBinding::LocalUnbound { origin: origin_id }, SealStrength::Advisory).expect("authority"),
        RetentionContractId::from_bytes([0x54; 32]),
        shared.then_some(AdmissionScopeId::from_bytes([0x55; 32])),
    )
    .expect("retention posture")
}

/// Realise a program seed against a (lenient view of a) worldline state: root-instance
/// program, never a system slot, guarded by its own structural preconditions (an intent may
/// run against a later state than the one it was realised for: like a real rule it matches
/// only while its preconditions hold).
pub fn realise_prog_for(ws: &WorldlineState, seed: &CandSeed) -> Prog {
    let pre = lenient_dump(ws);
    let mut s = seed.clone();
    s.w = 0;
    s.slot %= 6;
    let mut c = realise_cands(&pre, &[s]);
    let mut p = c.pop().map(|c| c.prog).unwrap_or(Prog { cond: MatchCond::Always, instrs: vec![], fp: AFootprint::default() });
    if !pre.warps.contains_key(&0) {
        p.instrs.clear();
    }
    if !matches!(p.cond, MatchCond::Never) {
        p.cond = MatchCond::Guarded(preconds(&p.instrs));
    }
    p
}
