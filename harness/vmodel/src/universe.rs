//! The small universe: fixed id pools, abstract states, conversion to/from real `WarpState`.
//!
//! Abstract ids are small integers; real ids are fixed 32-byte values whose first byte
//! controls shard routing (`shard_of` = first 8 bytes LE & 0xff) and whose remaining bytes
//! control ordering.

use bytes::Bytes;
use proptest::prelude::*;
use serde::{Deserialize, Serialize};
use std::collections::{BTreeMap, BTreeSet};
use warp_core::{
    AtomPayload, AttachmentKey, AttachmentOwner, AttachmentValue, EdgeId, EdgeKey, EdgeRecord, NodeId,
    NodeKey, NodeRecord, PortalInit, TickCommitStatus, TypeId, WarpId, WarpInstance, WarpOp,
    WarpState, WarpTickPatchV1,
};

pub const N_WARPS: u8 = 3;
pub const N_NODES: u8 = 12;
pub const N_EDGES: u8 = 10;
pub const N_TYPES: u8 = 4;

/// shard byte per node index: several scopes share one (warp, shard) unit, others do not.
pub const NODE_SHARD: [u8; 12] = [0, 0, 0, 1, 1, 2, 2, 3, 5, 5, 9, 200];

pub fn warp_id(w: u8) -> WarpId {
    // ids are NOT ordered like their indices: 0 -> 0x50.., 1 -> 0x20.., 2 -> 0x90..
    let mut h = [0u8; 32];
    h[0] = [0x50, 0x20, 0x90, 0x70][(w % 4) as usize];
    h[31] = w;
    WarpId(h)
}
pub fn warp_ix(id: &WarpId) -> Option<u8> {
    (0..N_WARPS + 1).find(|w| warp_id(*w) == *id)
}
pub fn node_id(n: u8) -> NodeId {
    let mut h = [0u8; 32];
    h[0] = NODE_SHARD[(n % N_NODES) as usize];
    h[1] = n;
    h[30] = 0x4e; // 'N'
    // ordering among nodes in one shard decided late in the key
    h[31] = n.wrapping_mul(37);
    NodeId(h)
}
pub fn node_ix(id: &NodeId) -> Option<u8> {
    let n = id.0[1];
    (n < N_NODES && node_id(n) == *id).then_some(n)
}
pub fn edge_id(e: u8) -> EdgeId {
    let mut h = [0u8; 32];
    h[0] = 0xe0;
    h[16] = e.wrapping_mul(101);
    h[31] = e;
    EdgeId(h)
}
pub fn edge_ix(id: &EdgeId) -> Option<u8> {
    let e = id.0[31];
    (e < N_EDGES && edge_id(e) == *id).then_some(e)
}
pub fn type_id(t: u8) -> TypeId {
    TypeId([t.wrapping_add(1); 32])
}
pub fn type_ix(id: &TypeId) -> Option<u8> {
    let t = id.0[0].wrapping_sub(1);
    (type_id(t) == *id).then_some(t)
}
pub fn node_key(w: u8, n: u8) -> NodeKey {
    NodeKey { warp_id: warp_id(w), local_id: node_id(n) }
}
pub fn edge_key(w: u8, e: u8) -> EdgeKey {
    EdgeKey { warp_id: warp_id(w), local_id: edge_id(e) }
}

#[derive(Clone, Debug, PartialEq, Eq, PartialOrd, Ord, Serialize, Deserialize)]
pub enum ASlot {
    Node(u8, u8),
    Edge(u8, u8),
}
impl ASlot {
    pub fn warp(&self) -> u8 {
        match self {
            ASlot::Node(w, _) | ASlot::Edge(w, _) => *w,
        }
    }
    pub fn key(&self) -> AttachmentKey {
        match self {
            ASlot::Node(w, n) => AttachmentKey::node_alpha(node_key(*w, *n)),
            ASlot::Edge(w, e) => AttachmentKey::edge_beta(edge_key(*w, *e)),
        }
    }
    pub fn from_key(k: &AttachmentKey) -> Option<ASlot> {
        match k.owner {
            AttachmentOwner::Node(nk) => Some(ASlot::Node(warp_ix(&nk.warp_id)?, node_ix(&nk.local_id)?)),
            AttachmentOwner::Edge(ek) => Some(ASlot::Edge(warp_ix(&ek.warp_id)?, edge_ix(&ek.local_id)?)),
        }
    }
}

#[derive(Clone, Debug, PartialEq, Eq, PartialOrd, Ord, Serialize, Deserialize)]
pub enum AVal {
    Atom { ty: u8, bytes: Vec<u8> },
    Descend(u8),
}
impl AVal {
    pub fn to_real(&self) -> AttachmentValue {
        match self {
            AVal::Atom { ty, bytes } => {
                AttachmentValue::Atom(AtomPayload::new(type_id(*ty), Bytes::from(bytes.clone())))
            }
            AVal::Descend(w) => AttachmentValue::Descend(warp_id(*w)),
        }
    }
    pub fn from_real(v: &AttachmentValue) -> Option<AVal> {
        match v {
            AttachmentValue::Atom(a) => Some(AVal::Atom { ty: type_ix(&a.type_id)?, bytes: a.bytes.to_vec() }),
            AttachmentValue::Descend(w) => Some(AVal::Descend(warp_ix(w)?)),
        }
    }
    pub fn encode(&self, out: &mut Vec<u8>) {
        match self {
            AVal::Atom { ty, bytes } => {
                out.push(1);
                out.push(*ty);
                out.extend_from_slice(&(bytes.len() as u32).to_le_bytes());
                out.extend_from_slice(bytes);
            }
            AVal::Descend(w) => {
                out.push(2);
                out.push(*w);
            }
        }
    }
}

#[derive(Clone, Debug, PartialEq, Eq, PartialOrd, Ord, Serialize, Deserialize)]
pub struct AEdge {
    pub from: u8,
    pub to: u8,
    pub ty: u8,
}

#[derive(Clone, Debug, Default, PartialEq, Eq, Serialize, Deserialize)]
pub struct AWarp {
    pub root_node: u8,
    pub parent: Option<ASlot>,
    pub nodes: BTreeMap<u8, u8>,
    pub edges: BTreeMap<u8, AEdge>,
    pub natt: BTreeMap<u8, AVal>,
    pub eatt: BTreeMap<u8, AVal>,
}

#[derive(Clone, Debug, Default, PartialEq, Eq, Serialize, Deserialize)]
pub struct AState {
    pub warps: BTreeMap<u8, AWarp>,
}

/// Abstract op (mirror of `WarpOp` over abstract ids).
#[derive(Clone, Debug, PartialEq, Eq, PartialOrd, Ord, Serialize, Deserialize)]
pub enum AOp {
    OpenPortal { slot: ASlot, child: u8, child_root: u8, init_ty: Option<u8> },
    UpsertInstance { w: u8, root_node: u8, parent: Option<ASlot> },
    DeleteInstance { w: u8 },
    DeleteEdge { w: u8, from: u8, e: u8 },
    DeleteNode { w: u8, n: u8 },
    UpsertNode { w: u8, n: u8, ty: u8 },
    UpsertEdge { w: u8, e: u8, from: u8, to: u8, ty: u8 },
    SetAtt { slot: ASlot, val: Option<AVal> },
}

impl AOp {
    pub fn phase(&self) -> u8 {
        match self {
            AOp::OpenPortal { .. } => 1,
            AOp::UpsertInstance { .. } => 2,
            AOp::DeleteInstance { .. } => 3,
            AOp::DeleteEdge { .. } => 4,
            AOp::DeleteNode { .. } => 5,
            AOp::UpsertNode { .. } => 6,
            AOp::UpsertEdge { .. } => 7,
            AOp::SetAtt { .. } => 8,
        }
    }
    pub fn to_real(&self) -> WarpOp {
        match self {
            AOp::OpenPortal { slot, child, child_root, init_ty } => WarpOp::OpenPortal {
                key: slot.key(),
                child_warp: warp_id(*child),
                child_root: node_id(*child_root),
                init: match init_ty {
                    Some(t) => PortalInit::Empty { root_record: NodeRecord { ty: type_id(*t) } },
                    None => PortalInit::RequireExisting,
                },
            },
            AOp::UpsertInstance { w, root_node, parent } => WarpOp::UpsertWarpInstance {
                instance: WarpInstance {
                    warp_id: warp_id(*w),
                    root_node: node_id(*root_node),
                    parent: parent.as_ref().map(|p| p.key()),
                },
            },
            AOp::DeleteInstance { w } => WarpOp::DeleteWarpInstance { warp_id: warp_id(*w) },
            AOp::DeleteEdge { w, from, e } => {
                WarpOp::DeleteEdge { warp_id: warp_id(*w), from: node_id(*from), edge_id: edge_id(*e) }
            }
            AOp::DeleteNode { w, n } => WarpOp::DeleteNode { node: node_key(*w, *n) },
            AOp::UpsertNode { w, n, ty } => {
                WarpOp::UpsertNode { node: node_key(*w, *n), record: NodeRecord { ty: type_id(*ty) } }
            }
            AOp::UpsertEdge { w, e, from, to, ty } => WarpOp::UpsertEdge {
                warp_id: warp_id(*w),
                record: EdgeRecord { id: edge_id(*e), from: node_id(*from), to: node_id(*to), ty: type_id(*ty) },
            },
            AOp::SetAtt { slot, val } => {
                WarpOp::SetAttachment { key: slot.key(), value: val.as_ref().map(|v| v.to_real()) }
            }
        }
    }
    pub fn from_real(op: &WarpOp) -> Option<AOp> {
        Some(match op {
            WarpOp::OpenPortal { key, child_warp, child_root, init } => AOp::OpenPortal {
                slot: ASlot::from_key(key)?,
                child: warp_ix(child_warp)?,
                child_root: node_ix(child_root)?,
                init_ty: match init {
                    PortalInit::Empty { root_record } => Some(type_ix(&root_record.ty)?),
                    PortalInit::RequireExisting => None,
                },
            },
            WarpOp::UpsertWarpInstance { instance } => AOp::UpsertInstance {
                w: warp_ix(&instance.warp_id)?,
                root_node: node_ix(&instance.root_node)?,
                parent: match &instance.parent {
                    Some(k) => Some(ASlot::from_key(k)?),
                    None => None,
                },
            },
            WarpOp::DeleteWarpInstance { warp_id } => AOp::DeleteInstance { w: warp_ix(warp_id)? },
            WarpOp::DeleteEdge { warp_id, from, edge_id } => {
                AOp::DeleteEdge { w: warp_ix(warp_id)?, from: node_ix(from)?, e: edge_ix(edge_id)? }
            }
            WarpOp::DeleteNode { node } => AOp::DeleteNode { w: warp_ix(&node.warp_id)?, n: node_ix(&node.local_id)? },
            WarpOp::UpsertNode { node, record } => AOp::UpsertNode {
                w: warp_ix(&node.warp_id)?,
                n: node_ix(&node.local_id)?,
                ty: type_ix(&record.ty)?,
            },
            WarpOp::UpsertEdge { warp_id, record } => AOp::UpsertEdge {
                w: warp_ix(warp_id)?,
                e: edge_ix(&record.id)?,
                from: node_ix(&record.from)?,
                to: node_ix(&record.to)?,
                ty: type_ix(&record.ty)?,
            },
            WarpOp::SetAttachment { key, value } => AOp::SetAtt {
                slot: ASlot::from_key(key)?,
                val: match value {
                    Some(v) => Some(AVal::from_real(v)?),
                    None => None,
                },
            },
        })
    }
}

#[derive(Clone, Debug, PartialEq, Eq, Serialize, Deserialize)]
pub enum ModelErr {
    MissingWarp(u8),
    MissingNode(u8, u8),
    MissingEdge(u8, u8),
    NodeNotIsolated(u8, u8),
    PortalInitRequired,
    PortalInvariant,
}

impl AState {
    pub fn root_only(root_node: u8, ty: u8) -> AState {
        let mut w = AWarp { root_node, ..Default::default() };
        w.nodes.insert(root_node, ty);
        let mut s = AState::default();
        s.warps.insert(0, w);
        s
    }

    pub fn slot_value(&self, slot: &ASlot) -> Option<&AVal> {
        match slot {
            ASlot::Node(w, n) => self.warps.get(w)?.natt.get(n),
            ASlot::Edge(w, e) => self.warps.get(w)?.eatt.get(e),
        }
    }
    pub fn slot_owner_exists(&self, slot: &ASlot) -> Result<(), ModelErr> {
        match slot {
            ASlot::Node(w, n) => {
                let wr = self.warps.get(w).ok_or(ModelErr::MissingWarp(*w))?;
                wr.nodes.contains_key(n).then_some(()).ok_or(ModelErr::MissingNode(*w, *n))
            }
            ASlot::Edge(w, e) => {
                let wr = self.warps.get(w).ok_or(ModelErr::MissingWarp(*w))?;
                wr.edges.contains_key(e).then_some(()).ok_or(ModelErr::MissingEdge(*w, *e))
            }
        }
    }
    fn set_slot(&mut self, slot: &ASlot, val: Option<AVal>) {
        let (map, k) = match slot {
            ASlot::Node(w, n) => (&mut self.warps.get_mut(w).unwrap().natt, *n),
            ASlot::Edge(w, e) => (&mut self.warps.get_mut(w).unwrap().eatt, *e),
        };
        match val {
            Some(v) => {
                map.insert(k, v);
            }
            None => {
                map.remove(&k);
            }
        }
    }

    /// Reference semantics of one op (written from docs/spec/warp-tick-patch.md).
    /// Returns whether the op touches portal topology.
    pub fn apply_op(&mut self, op: &AOp) -> Result<bool, ModelErr> {
        match op {
            AOp::OpenPortal { slot, child, child_root, init_ty } => {
                self.slot_owner_exists(slot)?;
                if let Some(existing) = self.warps.get(child) {
                    if existing.parent.as_ref() != Some(slot) || existing.root_node != *child_root {
                        return Err(ModelErr::PortalInvariant);
                    }
                    let cw = self.warps.get_mut(child).unwrap();
                    match init_ty {
                        Some(t) => match cw.nodes.get(child_root) {
                            None => {
                                cw.nodes.insert(*child_root, *t);
                            }
                            Some(x) if x == t => {}
                            Some(_) => return Err(ModelErr::PortalInvariant),
                        },
                        None => {
                            if !cw.nodes.contains_key(child_root) {
                                return Err(ModelErr::MissingNode(*child, *child_root));
                            }
                        }
                    }
                } else {
                    match init_ty {
                        Some(t) => {
                            let mut w = AWarp { root_node: *child_root, parent: Some(slot.clone()), ..Default::default() };
                            w.nodes.insert(*child_root, *t);
                            self.warps.insert(*child, w);
                        }
                        None => return Err(ModelErr::PortalInitRequired),
                    }
                }
                self.set_slot(slot, Some(AVal::Descend(*child)));
                Ok(true)
            }
            AOp::UpsertInstance { w, root_node, parent } => {
                let e = self.warps.entry(*w).or_default();
                e.root_node = *root_node;
                e.parent = parent.clone();
                Ok(true)
            }
            AOp::DeleteInstance { w } => {
                self.warps.remove(w).map(|_| true).ok_or(ModelErr::MissingWarp(*w))
            }
            AOp::DeleteEdge { w, from, e } => {
                let wr = self.warps.get_mut(w).ok_or(ModelErr::MissingWarp(*w))?;
                match wr.edges.get(e) {
                    Some(rec) if rec.from == *from => {}
                    _ => return Err(ModelErr::MissingEdge(*w, *e)),
                }
                wr.edges.remove(e);
                let was_portal = matches!(wr.eatt.remove(e), Some(AVal::Descend(_)));
                Ok(was_portal)
            }
            AOp::DeleteNode { w, n } => {
                let wr = self.warps.get_mut(w).ok_or(ModelErr::MissingWarp(*w))?;
                if !wr.nodes.contains_key(n) {
                    return Err(ModelErr::MissingNode(*w, *n));
                }
                if wr.edges.values().any(|e| e.from == *n || e.to == *n) {
                    return Err(ModelErr::NodeNotIsolated(*w, *n));
                }
                wr.nodes.remove(n);
                let was_portal = matches!(wr.natt.remove(n), Some(AVal::Descend(_)));
                Ok(was_portal)
            }
            AOp::UpsertNode { w, n, ty } => {
                let wr = self.warps.get_mut(w).ok_or(ModelErr::MissingWarp(*w))?;
                wr.nodes.insert(*n, *ty);
                Ok(false)
            }
            AOp::UpsertEdge { w, e, from, to, ty } => {
                let wr = self.warps.get_mut(w).ok_or(ModelErr::MissingWarp(*w))?;
                wr.edges.insert(*e, AEdge { from: *from, to: *to, ty: *ty });
                Ok(false)
            }
            AOp::SetAtt { slot, val } => {
                self.slot_owner_exists(slot)?;
                let touches = matches!(val, Some(AVal::Descend(_)))
                    || matches!(self.slot_value(slot), Some(AVal::Descend(_)));
                self.set_slot(slot, val.clone());
                Ok(touches)
            }
        }
    }

    pub fn validate_portals(&self) -> Result<(), ModelErr> {
        for (w, inst) in &self.warps {
            if let Some(p) = &inst.parent {
                self.slot_owner_exists(p)?;
                if self.slot_value(p) != Some(&AVal::Descend(*w)) {
                    return Err(ModelErr::PortalInvariant);
                }
            }
        }
        for (w, inst) in &self.warps {
            for (n, v) in &inst.natt {
                if let AVal::Descend(c) = v {
                    if self.warps.get(c).map(|cw| cw.parent.as_ref()) != Some(Some(&ASlot::Node(*w, *n))) {
                        return Err(ModelErr::PortalInvariant);
                    }
                }
            }
            for (e, v) in &inst.eatt {
                if let AVal::Descend(c) = v {
                    if self.warps.get(c).map(|cw| cw.parent.as_ref()) != Some(Some(&ASlot::Edge(*w, *e))) {
                        return Err(ModelErr::PortalInvariant);
                    }
                }
            }
        }
        Ok(())
    }

    /// Apply ops in canonical phase order (stable within a phase by the given order).
    pub fn apply_ops_canonical(&mut self, ops: &[AOp]) -> Result<(), ModelErr> {
        let mut sorted: Vec<&AOp> = ops.iter().collect();
        sorted.sort_by_key(|o| o.phase());
        let mut touches = false;
        for op in sorted {
            touches |= self.apply_op(op)?;
        }
        if touches {
            self.validate_portals()?;
        }
        Ok(())
    }

    /// Well-formedness used by generators: edges between existing nodes, attachments on
    /// existing owners, portals consistent, root nodes exist.
    pub fn well_formed(&self) -> bool {
        for (w, inst) in &self.warps {
            if !inst.nodes.contains_key(&inst.root_node) {
                return false;
            }
            if *w == 0 && inst.parent.is_some() {
                return false;
            }
            if *w != 0 && inst.parent.is_none() {
                return false;
            }
            for e in inst.edges.values() {
                if !inst.nodes.contains_key(&e.from) || !inst.nodes.contains_key(&e.to) {
                    return false;
                }
            }
            if inst.natt.keys().any(|n| !inst.nodes.contains_key(n)) {
                return false;
            }
            if inst.eatt.keys().any(|e| !inst.edges.contains_key(e)) {
                return false;
            }
        }
        self.warps.contains_key(&0) && self.validate_portals().is_ok()
    }

    /// The ops that build this state from nothing, in a canonical (valid) order.
    pub fn build_ops(&self) -> Vec<AOp> {
        let mut ops = Vec::new();
        // instances first (parents before children is not required by UpsertWarpInstance)
        for (w, inst) in &self.warps {
            ops.push(AOp::UpsertInstance { w: *w, root_node: inst.root_node, parent: inst.parent.clone() });
        }
        for (w, inst) in &self.warps {
            for (n, ty) in &inst.nodes {
                ops.push(AOp::UpsertNode { w: *w, n: *n, ty: *ty });
            }
        }
        for (w, inst) in &self.warps {
            for (e, r) in &inst.edges {
                ops.push(AOp::UpsertEdge { w: *w, e: *e, from: r.from, to: r.to, ty: r.ty });
            }
        }
        for (w, inst) in &self.warps {
            for (n, v) in &inst.natt {
                ops.push(AOp::SetAtt { slot: ASlot::Node(*w, *n), val: Some(v.clone()) });
            }
            for (e, v) in &inst.eatt {
                ops.push(AOp::SetAtt { slot: ASlot::Edge(*w, *e), val: Some(v.clone()) });
            }
        }
        ops
    }

    /// Build the real state through the public op interface. `order` permutes ops *within*
    /// each dependency layer (instances, nodes, edges, attachments) so that different storage
    /// layouts (edge bucket order) of the same abstract state are produced.
    pub fn to_real(&self, order: &[u16]) -> WarpState {
        let mut ops = self.build_ops();
        // permute within phases: stable sort by (phase, pseudo-random key from `order`)
        let keyed: Vec<(u8, u16, AOp)> = ops
            .drain(..)
            .enumerate()
            .map(|(i, op)| {
                let layer = match &op {
                    AOp::UpsertInstance { .. } => 0,
                    AOp::UpsertNode { .. } => 1,
                    AOp::UpsertEdge { .. } => 2,
                    _ => 3,
                };
                let k = if order.is_empty() { i as u16 } else { order[i % order.len()].wrapping_add((i / order.len()) as u16) };
                (layer, k, op)
            })
            .collect();
        let mut keyed = keyed;
        keyed.sort_by(|a, b| (a.0, a.1).cmp(&(b.0, b.1)));
        let mut state = WarpState::new();
        // Layers are applied in dependency order. Ops inside one patch are re-sorted
        // canonically, so to vary storage layout (edge bucket order) edges are applied one per
        // patch when an explicit order is given; everything else goes in bulk. Portal
        // validation errors on intermediate states are ignored (ops are applied before the
        // validation runs); `build_real` verifies the final dump.
        let mut bulk: Vec<WarpOp> = Vec::new();
        let mut cur_layer = 0u8;
        let flush = |state: &mut WarpState, bulk: &mut Vec<WarpOp>| {
            if !bulk.is_empty() {
                let patch = WarpTickPatchV1::new(0, [0; 32], TickCommitStatus::Committed, vec![], vec![], std::mem::take(bulk));
                let _ = patch.apply_to_state(state);
            }
        };
        for (layer, _, op) in keyed {
            if layer != cur_layer {
                flush(&mut state, &mut bulk);
                cur_layer = layer;
            }
            if layer == 2 && !order.is_empty() {
                let patch = WarpTickPatchV1::new(0, [0; 32], TickCommitStatus::Committed, vec![], vec![], vec![op.to_real()]);
                let _ = patch.apply_to_state(&mut state);
            } else {
                bulk.push(op.to_real());
            }
        }
        flush(&mut state, &mut bulk);
        state
    }

    /// Dump of a real state through public accessors only.
    pub fn from_real(state: &WarpState) -> Result<AState, String> {
        let mut out = AState::default();
        for w in 0..N_WARPS + 1 {
            let wid = warp_id(w);
            let (inst, store) = match (state.instance(&wid), state.store(&wid)) {
                (None, None) => continue,
                (Some(i), Some(s)) => (i, s),
                (a, b) => return Err(format!("instance/store desync for warp {w}: instance={} store={}", a.is_some(), b.is_some())),
            };
            if store.warp_id() != wid {
                return Err(format!("store warp id mismatch for warp {w}"));
            }
            let mut aw = AWarp {
                root_node: node_ix(&inst.root_node).ok_or("foreign root node")?,
                parent: match &inst.parent {
                    Some(k) => Some(ASlot::from_key(k).ok_or("foreign parent key")?),
                    None => None,
                },
                ..Default::default()
            };
            for (id, rec) in store.iter_nodes() {
                aw.nodes.insert(node_ix(id).ok_or("foreign node id")?, type_ix(&rec.ty).ok_or("foreign node type")?);
            }
            let mut seen = BTreeSet::new();
            for (bucket, edges) in store.iter_edges() {
                for e in edges {
                    if e.from != *bucket {
                        return Err(format!("edge {:?} stored in bucket {:?} but from={:?}", e.id, bucket, e.from));
                    }
                    let ix = edge_ix(&e.id).ok_or("foreign edge id")?;
                    if !seen.insert(ix) {
                        return Err(format!("edge {ix} appears twice in buckets"));
                    }
                    if !store.has_edge(&e.id) {
                        return Err(format!("edge {ix} in bucket but has_edge=false"));
                    }
                    aw.edges.insert(
                        ix,
                        AEdge {
                            from: node_ix(&e.from).ok_or("foreign from")?,
                            to: node_ix(&e.to).ok_or("foreign to")?,
                            ty: type_ix(&e.ty).ok_or("foreign edge type")?,
                        },
                    );
                }
            }
            for e in 0..N_EDGES {
                if store.has_edge(&edge_id(e)) != aw.edges.contains_key(&e) {
                    return Err(format!("has_edge({e}) disagrees with buckets"));
                }
            }
            for (id, v) in store.iter_node_attachments() {
                aw.natt.insert(node_ix(id).ok_or("foreign natt owner")?, AVal::from_real(v).ok_or("foreign natt value")?);
            }
            for (id, v) in store.iter_edge_attachments() {
                aw.eatt.insert(edge_ix(id).ok_or("foreign eatt owner")?, AVal::from_real(v).ok_or("foreign eatt value")?);
            }
            // adjacency view agrees with buckets
            for n in 0..N_NODES {
                let mut via: Vec<u8> = store.edges_from(&node_id(n)).filter_map(|e| edge_ix(&e.id)).collect();
                via.sort();
                let mut expect: Vec<u8> = aw.edges.iter().filter(|(_, r)| r.from == n).map(|(e, _)| *e).collect();
                expect.sort();
                if via != expect {
                    return Err(format!("edges_from({n}) = {via:?} but buckets say {expect:?}"));
                }
            }
            out.warps.insert(w, aw);
        }
        Ok(out)
    }
}

/// Build a real state by direct op application with portal-safe ordering; panics if the
/// abstract state is not constructible (generator bug).
pub fn build_real(a: &AState, order: &[u16]) -> WarpState {
    let s = a.to_real(order);
    let back = AState::from_real(&s).expect("dump of freshly built state");
    assert_eq!(&back, a, "universe: built state does not dump to its abstract source");
    s
}

// ---------------------------------------------------------------------------
// generators

pub fn atom_bytes() -> impl Strategy<Value = Vec<u8>> {
    prop_oneof![
        Just(vec![]),
        prop::collection::vec(any::<u8>(), 1),
        prop::collection::vec(any::<u8>(), 7),
        prop::collection::vec(any::<u8>(), 8),
        prop::collection::vec(any::<u8>(), 9),
        prop::collection::vec(any::<u8>(), 64),
        prop::collection::vec(any::<u8>(), 0..24),
    ]
}

pub fn atom_val() -> impl Strategy<Value = AVal> {
    (0..N_TYPES, atom_bytes()).prop_map(|(ty, bytes)| AVal::Atom { ty, bytes })
}

#[derive(Clone, Debug, Serialize, Deserialize)]
pub struct WarpSeed {
    pub root_node: u8,
    pub nodes: Vec<(u8, u8)>,
    pub edges: Vec<(u8, u8, u8, u8)>,
    pub natt: Vec<(u8, AVal)>,
    pub eatt: Vec<(u8, AVal)>,
}

fn warp_seed(max_nodes: usize, max_edges: usize) -> impl Strategy<Value = WarpSeed> {
    (
        0..N_NODES,
        prop::collection::vec((0..N_NODES, 0..N_TYPES), 0..max_nodes),
        prop::collection::vec((0..N_EDGES, any::<u8>(), any::<u8>(), 0..N_TYPES), 0..max_edges),
        prop::collection::vec((any::<u8>(), atom_val()), 0..5),
        prop::collection::vec((any::<u8>(), atom_val()), 0..4),
    )
        .prop_map(|(root_node, nodes, edges, natt, eatt)| WarpSeed { root_node, nodes, edges, natt, eatt })
}

fn realise_warp(seed: &WarpSeed, parent: Option<ASlot>) -> AWarp {
    let mut w = AWarp { root_node: seed.root_node, parent, ..Default::default() };
    w.nodes.insert(seed.root_node, 0);
    for (n, t) in &seed.nodes {
        w.nodes.insert(*n, *t);
    }
    let nodes: Vec<u8> = w.nodes.keys().copied().collect();
    for (e, f, t, ty) in &seed.edges {
        let from = nodes[(*f as usize) % nodes.len()];
        let to = nodes[(*t as usize) % nodes.len()];
        w.edges.insert(*e, AEdge { from, to, ty: *ty });
    }
    for (n, v) in &seed.natt {
        let n = nodes[(*n as usize) % nodes.len()];
        w.natt.insert(n, v.clone());
    }
    let edges: Vec<u8> = w.edges.keys().copied().collect();
    if !edges.is_empty() {
        for (e, v) in &seed.eatt {
            let e = edges[(*e as usize) % edges.len()];
            w.eatt.insert(e, v.clone());
        }
    }
    w
}

#[derive(Clone, Debug, Serialize, Deserialize)]
pub struct StateSeed {
    pub root: WarpSeed,
    /// child warps: (seed, portal-on-edge?, owner pick)
    pub children: Vec<(WarpSeed, bool, u8, u8)>,
}

pub fn state_seed() -> impl Strategy<Value = StateSeed> {
    (
        warp_seed(10, 9),
        prop::collection::vec((warp_seed(6, 5), any::<bool>(), any::<u8>(), any::<u8>()), 0..3),
    )
        .prop_map(|(root, children)| StateSeed { root, children })
}

pub fn single_warp_state_seed() -> impl Strategy<Value = StateSeed> {
    warp_seed(10, 9).prop_map(|root| StateSeed { root, children: vec![] })
}

/// Realise a well-formed multi-instance state from a seed (construction, not rejection).
pub fn realise_state(seed: &StateSeed) -> AState {
    let mut s = AState::default();
    s.warps.insert(0, realise_warp(&seed.root, None));
    for (i, (ws, on_edge, pick_parent_warp, pick_owner)) in seed.children.iter().enumerate() {
        let child = (i + 1) as u8;
        if child >= N_WARPS {
            break;
        }
        // parent warp among existing warps
        let parents: Vec<u8> = s.warps.keys().copied().collect();
        let pw = parents[(*pick_parent_warp as usize) % parents.len()];
        let slot = {
            let p = &s.warps[&pw];
            let free_nodes: Vec<u8> = p.nodes.keys().copied().filter(|n| !matches!(p.natt.get(n), Some(AVal::Descend(_)))).collect();
            let free_edges: Vec<u8> = p.edges.keys().copied().filter(|e| !matches!(p.eatt.get(e), Some(AVal::Descend(_)))).collect();
            if *on_edge && !free_edges.is_empty() {
                ASlot::Edge(pw, free_edges[(*pick_owner as usize) % free_edges.len()])
            } else if !free_nodes.is_empty() {
                ASlot::Node(pw, free_nodes[(*pick_owner as usize) % free_nodes.len()])
            } else {
                continue;
            }
        };
        match &slot {
            ASlot::Node(w, n) => {
                s.warps.get_mut(w).unwrap().natt.insert(*n, AVal::Descend(child));
            }
            ASlot::Edge(w, e) => {
                s.warps.get_mut(w).unwrap().eatt.insert(*e, AVal::Descend(child));
            }
        }
        s.warps.insert(child, realise_warp(ws, Some(slot)));
    }
    debug_assert!(s.well_formed());
    s
}
