pub mod dsl;
pub mod tick;
pub mod universe;
pub mod rt;
pub mod host;
