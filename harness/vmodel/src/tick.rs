//! Reference tick model `M`, the engine driver, and state-aware program generators.

use crate::dsl::*;
use crate::universe::*;
use proptest::prelude::*;
use serde::{Deserialize, Serialize};
use std::collections::{BTreeMap, BTreeSet};
use warp_core::{
    EngineBuilder, FootprintViolation, FootprintViolationWithPanic, NodeId, NodeKey, SchedulerKind, Snapshot,
    TickReceiptDisposition, WarpState, WarpTickPatchV1,
};

/// Scope ids: < N_NODES map onto the node pool, larger ones are "wide" scopes used to build
/// ticks with more than 1024 candidates (a scope need not exist as a node).
pub fn scope_id(s: u16) -> NodeId {
    if s < N_NODES as u16 {
        node_id(s as u8)
    } else {
        let mut h = [0u8; 32];
        h[0] = (s % 7) as u8;
        h[1] = 0xff;
        h[2] = (s >> 8) as u8;
        h[3] = s as u8;
        NodeId(h)
    }
}

#[derive(Clone, Debug, PartialEq, Eq, Serialize, Deserialize)]
pub struct WCand {
    pub slot: u8,
    pub w: u8,
    pub scope: u16,
    pub prog: Prog,
}

pub fn spec_scope_hash(slot: u8, w: u8, scope: u16) -> [u8; 32] {
    // docs/spec/scheduler-warp-core.md: scope_hash := blake3(rule_id || warp_id || scope_node_id)
    let mut h = blake3::Hasher::new();
    h.update(&slot_rule_id(slot));
    h.update(&warp_id(w).0);
    h.update(&scope_id(scope).0);
    *h.finalize().as_bytes()
}

#[derive(Clone, Debug, PartialEq, Eq)]
pub struct ModelTick {
    /// candidate indices (into the deduped matching set) in canonical order
    pub order: Vec<usize>,
    pub accepted: Vec<bool>,
    pub blockers: Vec<Vec<u32>>,
    /// Err = the merged ops do not apply (generator should make this impossible for honest sets)
    pub post: Result<AState, ModelErr>,
    pub any_panic: bool,
    /// indices (into the set) of accepted candidates, in canonical order
    pub accepted_cands: Vec<usize>,
}

/// The candidate *set*: dedupe by (slot,w,scope) keeping the LAST enqueued (last-wins), drop
/// non-matching candidates.
pub fn candidate_set<'a>(pre: &AState, cands: &'a [WCand], seq: &[usize]) -> Vec<&'a WCand> {
    let mut last: BTreeMap<(u8, u8, u16), &WCand> = BTreeMap::new();
    for i in seq {
        let c = &cands[*i];
        if pre.warps.contains_key(&c.w) && cond_holds(pre, c.w, &c.prog.cond) {
            last.insert((c.slot, c.w, c.scope), c);
        }
    }
    last.into_values().collect()
}

pub fn effective_fp(pre: &AState, c: &WCand, chains: bool) -> AFootprint {
    let mut fp = c.prog.fp.clone();
    if chains {
        for s in descent_chain_slots(pre, c.w) {
            fp.a_read.insert(s);
        }
    }
    fp
}

pub fn model_tick(pre: &AState, set: &[&WCand], chains: bool) -> ModelTick {
    let mut order: Vec<usize> = (0..set.len()).collect();
    order.sort_by_key(|i| {
        let c = set[*i];
        (spec_scope_hash(c.slot, c.w, c.scope), slot_rule_id(c.slot))
    });
    let fps: Vec<AFootprint> = set.iter().map(|c| effective_fp(pre, c, chains)).collect();
    let mut accepted = Vec::new();
    let mut blockers: Vec<Vec<u32>> = Vec::new();
    let mut acc_entries: Vec<(u32, usize)> = Vec::new(); // (entry idx, cand idx)
    for (entry, ci) in order.iter().enumerate() {
        let c = set[*ci];
        let b: Vec<u32> = acc_entries
            .iter()
            .filter(|(_, cj)| fps[*ci].conflicts(c.w, &fps[*cj], set[*cj].w))
            .map(|(e, _)| *e)
            .collect();
        if b.is_empty() {
            accepted.push(true);
            acc_entries.push((entry as u32, *ci));
        } else {
            accepted.push(false);
        }
        blockers.push(b);
    }
    let mut ops = Vec::new();
    let mut any_panic = false;
    for (_, ci) in &acc_entries {
        let c = set[*ci];
        match interpret_model(pre, c.w, &c.prog) {
            Some(o) => ops.extend(o),
            None => any_panic = true,
        }
    }
    let mut post = pre.clone();
    let post = post.apply_ops_canonical(&ops).map(|_| post);
    ModelTick { order, accepted, blockers, post, any_panic, accepted_cands: acc_entries.iter().map(|(_, c)| *c).collect() }
}

// ---------------------------------------------------------------------------
// engine driver

#[derive(Clone, Debug, Serialize, Deserialize)]
pub struct TickCfg {
    pub legacy: bool,
    pub workers: u8,
    pub reg_order: Vec<u8>,
    pub chains: bool,
    pub build_order: Vec<u16>,
}

impl Default for TickCfg {
    fn default() -> Self {
        TickCfg { legacy: false, workers: 1, reg_order: (0..N_SLOTS).collect(), chains: false, build_order: vec![] }
    }
}

#[derive(Clone, Debug, PartialEq, Eq)]
pub struct EngineRun {
    pub snapshot: Snapshot,
    /// (rule id, scope hash, scope, applied)
    pub entries: Vec<([u8; 32], [u8; 32], NodeKey, bool)>,
    pub blocked_by: Vec<Vec<u32>>,
    pub receipt_digest: [u8; 32],
    pub patch: WarpTickPatchV1,
    pub post: AState,
}

#[derive(Debug)]
pub enum RunErr {
    Engine(String),
    Violation(FootprintViolation),
    ViolationWithPanic(FootprintViolation, String),
    Panic(String),
    Harness(String),
}

pub fn classify_panic(p: Box<dyn std::any::Any + Send>) -> RunErr {
    let p = match p.downcast::<FootprintViolation>() {
        Ok(v) => return RunErr::Violation(*v),
        Err(p) => p,
    };
    let p = match p.downcast::<FootprintViolationWithPanic>() {
        Ok(v) => {
            let msg = vkit::panic_message(&v.exec_panic);
            return RunErr::ViolationWithPanic(v.violation, msg);
        }
        Err(p) => p,
    };
    RunErr::Panic(vkit::panic_message(&p))
}

pub struct Live {
    pub engine: warp_core::Engine,
    pub pre_real: WarpState,
}

/// Registration order is a permutation of slots (compact rule ids follow it).
pub fn reg_permutation(order: &[u8]) -> Vec<u8> {
    let mut seen = BTreeSet::new();
    let mut out: Vec<u8> = order.iter().map(|s| s % N_SLOTS).filter(|s| seen.insert(*s)).collect();
    for s in 0..N_SLOTS {
        if seen.insert(s) {
            out.push(s);
        }
    }
    out
}

pub fn make_engine(pre: &AState, cfg: &TickCfg) -> Result<Live, RunErr> {
    let pre_real = build_real(pre, &cfg.build_order);
    let root = node_key(0, pre.warps[&0].root_node);
    let mut engine = EngineBuilder::from_state(pre_real.clone(), root)
        .scheduler(if cfg.legacy { SchedulerKind::Legacy } else { SchedulerKind::Radix })
        .workers(cfg.workers.max(1) as usize)
        .build()
        .map_err(|e| RunErr::Harness(format!("engine build: {e:?}")))?;
    for s in reg_permutation(&cfg.reg_order) {
        engine.register_rule(slot_rule(s)).map_err(|e| RunErr::Harness(format!("register: {e:?}")))?;
    }
    Ok(Live { engine, pre_real })
}

pub fn install_programs(cands: &[WCand]) {
    table_reset();
    for c in cands {
        // table key uses the real scope id
        table_insert_wide(c);
    }
}

fn table_insert_wide(c: &WCand) {
    crate::dsl::table_insert_raw(c.slot, warp_id(c.w), scope_id(c.scope), c.prog.clone());
}

/// Enqueue `seq` (indices into `cands`, duplicates allowed) and commit one tick.
/// The program table must already hold `cands` (install_programs).
pub fn run_engine_tick(
    live: &mut Live,
    pre: &AState,
    cands: &[WCand],
    seq: &[usize],
    cfg: &TickCfg,
    script: Option<Vec<Vec<usize>>>,
) -> Result<EngineRun, RunErr> {
    let tx = live.engine.begin();
    for i in seq {
        let c = &cands[*i];
        let chain = if cfg.chains { descent_chain(pre, c.w) } else { vec![] };
        match live.engine.apply_in_warp(tx, warp_id(c.w), SLOT_NAMES[c.slot as usize], &scope_id(c.scope), &chain) {
            Ok(_) => {}
            Err(warp_core::EngineError::UnknownWarp(_)) => {}
            Err(e) => return Err(RunErr::Harness(format!("apply_in_warp: {e:?}"))),
        }
    }
    warp_core::echo_verif::set_worker_script(script);
    let res = std::panic::catch_unwind(std::panic::AssertUnwindSafe(|| live.engine.commit_with_receipt(tx)));
    warp_core::echo_verif::set_worker_script(None);
    let (snapshot, receipt, patch) = match res {
        Ok(Ok(x)) => x,
        Ok(Err(e)) => return Err(RunErr::Engine(format!("{e:?}"))),
        Err(p) => return Err(classify_panic(p)),
    };
    let entries = receipt
        .entries()
        .iter()
        .map(|e| (e.rule_id, e.scope_hash, e.scope, matches!(e.disposition, TickReceiptDisposition::Applied)))
        .collect::<Vec<_>>();
    let blocked_by = (0..entries.len()).map(|i| receipt.blocked_by(i).to_vec()).collect();
    let post = AState::from_real(live.engine.state()).map_err(RunErr::Harness)?;
    Ok(EngineRun { snapshot, entries, blocked_by, receipt_digest: receipt.digest(), patch, post })
}

// ---------------------------------------------------------------------------
// state-aware honest program generation (construction, not rejection)

#[derive(Clone, Debug, Serialize, Deserialize)]
pub enum ISeed {
    ReadNode(u8),
    ReadAdj(u8),
    ReadNodeAtt(u8),
    ReadEdgeAtt(u8),
    HasEdge(u8),
    UpsertNode(u8, u8),
    DeleteNode(u8),
    UpsertEdge(u8, u8, u8, u8),
    DeleteEdge(u8),
    RecreateEdge(u8, u8, u8),
    SetNodeAtt(u8, VSeed),
    SetEdgeAtt(u8, VSeed),
    OpenPortal(bool, u8, u8, u8),
}

#[derive(Clone, Debug, Serialize, Deserialize)]
pub enum VSeed {
    Clear,
    Lit(u8, Vec<u8>),
    FromReads(u8, u8),
}

#[derive(Clone, Debug, Serialize, Deserialize)]
pub struct CandSeed {
    pub slot: u8,
    pub w: u8,
    pub scope: u8,
    pub cond: u8,
    pub instrs: Vec<ISeed>,
    /// boundary ports declared in the footprint: (is_input, port key from a pool of 4)
    #[serde(default)]
    pub ports: Vec<(bool, u8)>,
}

fn vseed() -> impl Strategy<Value = VSeed> {
    prop_oneof![
        1 => Just(VSeed::Clear),
        3 => (0..N_TYPES, atom_bytes()).prop_map(|(t, b)| VSeed::Lit(t, b)),
        3 => (0..N_TYPES, prop_oneof![Just(0u8), Just(1), Just(8), Just(9), Just(40)]).prop_map(|(t, l)| VSeed::FromReads(t, l)),
    ]
}

pub fn iseed() -> impl Strategy<Value = ISeed> {
    prop_oneof![
        3 => any::<u8>().prop_map(ISeed::ReadNode),
        2 => any::<u8>().prop_map(ISeed::ReadAdj),
        3 => any::<u8>().prop_map(ISeed::ReadNodeAtt),
        2 => any::<u8>().prop_map(ISeed::ReadEdgeAtt),
        2 => any::<u8>().prop_map(ISeed::HasEdge),
        3 => (any::<u8>(), 0..N_TYPES).prop_map(|(n, t)| ISeed::UpsertNode(n, t)),
        2 => any::<u8>().prop_map(ISeed::DeleteNode),
        4 => (any::<u8>(), any::<u8>(), any::<u8>(), 0..N_TYPES).prop_map(|(e, f, t, ty)| ISeed::UpsertEdge(e, f, t, ty)),
        2 => any::<u8>().prop_map(ISeed::DeleteEdge),
        1 => (any::<u8>(), any::<u8>(), 0..N_TYPES).prop_map(|(e, t, ty)| ISeed::RecreateEdge(e, t, ty)),
        4 => (any::<u8>(), vseed()).prop_map(|(n, v)| ISeed::SetNodeAtt(n, v)),
        3 => (any::<u8>(), vseed()).prop_map(|(e, v)| ISeed::SetEdgeAtt(e, v)),
        1 => (any::<bool>(), any::<u8>(), any::<u8>(), 0..N_TYPES).prop_map(|(oe, o, r, t)| ISeed::OpenPortal(oe, o, r, t)),
    ]
}

pub fn cand_seed(max_instrs: usize) -> impl Strategy<Value = CandSeed> {
    (
        0..N_SLOTS,
        any::<u8>(),
        0..N_NODES,
        0u8..10,
        prop::collection::vec(iseed(), 0..max_instrs),
        prop_oneof![4 => Just(vec![]), 1 => prop::collection::vec((any::<bool>(), 0u8..4), 1..3)],
    )
        .prop_map(|(slot, w, scope, cond, instrs, ports)| CandSeed { slot, w, scope, cond, instrs, ports })
}

fn pick<T: Copy>(v: &[T], i: u8) -> Option<T> {
    if v.is_empty() {
        None
    } else {
        Some(v[(i as usize) % v.len()])
    }
}

/// Turn seeds into a sane candidate list for `pre` (see DESIGN §2.2 soundness restrictions).
pub fn realise_cands(pre: &AState, seeds: &[CandSeed]) -> Vec<WCand> {
    let warps: Vec<u8> = pre.warps.keys().copied().collect();
    let mut out: Vec<WCand> = Vec::new();
    let mut seen = BTreeSet::new();
    let mut opened: BTreeSet<u8> = BTreeSet::new();
    for s in seeds {
        let w = pick(&warps, s.w).unwrap_or(0);
        if !seen.insert((s.slot, w, s.scope)) {
            continue;
        }
        let st = &pre.warps[&w];
        let is_system = SYSTEM_SLOTS.contains(&s.slot);
        let mut instrs: Vec<Instr> = Vec::new();
        // bookkeeping of this program's own skeleton effects
        let mut node_w: BTreeSet<u8> = BTreeSet::new(); // nodes with an upsert/delete op
        let mut edge_up: BTreeSet<u8> = BTreeSet::new();
        let mut edge_del: BTreeSet<u8> = BTreeSet::new();
        let mut slot_w: BTreeSet<ASlot> = BTreeSet::new();
        let mut nodes_after: BTreeSet<u8> = st.nodes.keys().copied().collect();
        let mut edges_after: BTreeSet<u8> = st.edges.keys().copied().collect();
        let portal_node = |n: &u8| matches!(st.natt.get(n), Some(AVal::Descend(_)));
        let portal_edge = |e: &u8| matches!(st.eatt.get(e), Some(AVal::Descend(_)));
        for is in &s.instrs {
            match is {
                ISeed::ReadNode(n) => instrs.push(Instr::ReadNode(n % N_NODES)),
                ISeed::ReadAdj(n) => instrs.push(Instr::ReadAdj(n % N_NODES)),
                ISeed::ReadNodeAtt(n) => instrs.push(Instr::ReadNodeAtt(n % N_NODES)),
                ISeed::ReadEdgeAtt(e) => instrs.push(Instr::ReadEdgeAtt(e % N_EDGES)),
                ISeed::HasEdge(e) => instrs.push(Instr::HasEdge(e % N_EDGES)),
                ISeed::UpsertNode(n, ty) => {
                    let n = n % N_NODES;
                    if node_w.insert(n) {
                        instrs.push(Instr::UpsertNode { n, ty: *ty });
                        nodes_after.insert(n);
                    }
                }
                ISeed::DeleteNode(n) => {
                    let existing: Vec<u8> = st.nodes.keys().copied().collect();
                    let Some(n) = pick(&existing, *n) else { continue };
                    if n == st.root_node || portal_node(&n) || node_w.contains(&n) || slot_w.contains(&ASlot::Node(w, n)) {
                        continue;
                    }
                    let incident: Vec<(u8, u8)> =
                        st.edges.iter().filter(|(_, r)| r.from == n || r.to == n).map(|(e, r)| (*e, r.from)).collect();
                    if incident.iter().any(|(e, _)| edge_up.contains(e) || edge_del.contains(e) || portal_edge(e) || slot_w.contains(&ASlot::Edge(w, *e))) {
                        continue;
                    }
                    // no own upserted edge may touch n
                    if instrs.iter().any(|i| matches!(i, Instr::UpsertEdge { from, to, .. } if *from == n || *to == n)) {
                        continue;
                    }
                    for (e, from) in incident {
                        instrs.push(Instr::DeleteEdge { e, from });
                        edge_del.insert(e);
                        edges_after.remove(&e);
                    }
                    instrs.push(Instr::DeleteNode { n });
                    node_w.insert(n);
                    nodes_after.remove(&n);
                }
                ISeed::UpsertEdge(e, f, t, ty) => {
                    let e = e % N_EDGES;
                    if edge_up.contains(&e) || edge_del.contains(&e) {
                        continue;
                    }
                    let avail: Vec<u8> = nodes_after.iter().copied().collect();
                    let (Some(from), Some(to)) = (pick(&avail, *f), pick(&avail, *t)) else { continue };
                    instrs.push(Instr::UpsertEdge { e, from, to, ty: *ty });
                    edge_up.insert(e);
                    edges_after.insert(e);
                }
                ISeed::DeleteEdge(e) => {
                    let existing: Vec<u8> = st.edges.keys().copied().collect();
                    let Some(e) = pick(&existing, *e) else { continue };
                    if edge_up.contains(&e) || edge_del.contains(&e) || portal_edge(&e) || slot_w.contains(&ASlot::Edge(w, e)) {
                        continue;
                    }
                    instrs.push(Instr::DeleteEdge { e, from: st.edges[&e].from });
                    edge_del.insert(e);
                    edges_after.remove(&e);
                }
                ISeed::RecreateEdge(e, t, ty) => {
                    // delete an existing edge and re-create the same id in the same rewrite
                    let existing: Vec<u8> = st.edges.keys().copied().collect();
                    let Some(e) = pick(&existing, *e) else { continue };
                    if edge_up.contains(&e) || edge_del.contains(&e) || portal_edge(&e) || slot_w.contains(&ASlot::Edge(w, e)) {
                        continue;
                    }
                    let avail: Vec<u8> = nodes_after.iter().copied().collect();
                    let Some(to) = pick(&avail, *t) else { continue };
                    let from = st.edges[&e].from;
                    if !nodes_after.contains(&from) {
                        continue;
                    }
                    instrs.push(Instr::DeleteEdge { e, from });
                    instrs.push(Instr::UpsertEdge { e, from, to, ty: *ty });
                    edge_del.insert(e);
                    edge_up.insert(e);
                }
                ISeed::SetNodeAtt(n, v) => {
                    let avail: Vec<u8> = nodes_after.iter().copied().collect();
                    let Some(n) = pick(&avail, *n) else { continue };
                    if portal_node(&n) || !slot_w.insert(ASlot::Node(w, n)) {
                        continue;
                    }
                    instrs.push(Instr::SetNodeAtt { n, val: vspec(v) });
                }
                ISeed::SetEdgeAtt(e, v) => {
                    let avail: Vec<u8> = edges_after.iter().copied().collect();
                    let Some(e) = pick(&avail, *e) else { continue };
                    if portal_edge(&e) || !slot_w.insert(ASlot::Edge(w, e)) {
                        continue;
                    }
                    instrs.push(Instr::SetEdgeAtt { e, val: vspec(v) });
                }
                ISeed::OpenPortal(on_edge, owner, child_root, ty) => {
                    if !is_system {
                        continue;
                    }
                    let Some(child) = (1..N_WARPS).find(|c| !pre.warps.contains_key(c) && !opened.contains(c)) else { continue };
                    let slot = if *on_edge {
                        let avail: Vec<u8> = st.edges.keys().copied().filter(|e| !edge_del.contains(e) && !edge_up.contains(e)).collect();
                        pick(&avail, *owner).map(|e| ASlot::Edge(w, e))
                    } else {
                        let avail: Vec<u8> = st.nodes.keys().copied().filter(|n| !node_w.contains(n)).collect();
                        pick(&avail, *owner).map(|n| ASlot::Node(w, n))
                    };
                    let Some(slot) = slot else { continue };
                    if pre.slot_value(&slot).is_some() && matches!(pre.slot_value(&slot), Some(AVal::Descend(_))) {
                        continue;
                    }
                    if !slot_w.insert(slot.clone()) {
                        continue;
                    }
                    opened.insert(child);
                    let (slot_on_edge, owner) = match slot {
                        ASlot::Edge(_, e) => (true, e),
                        ASlot::Node(_, n) => (false, n),
                    };
                    instrs.push(Instr::OpenPortal { slot_on_edge, owner, child, child_root: child_root % N_NODES, ty: *ty });
                }
            }
        }
        let cond = match s.cond {
            0 => MatchCond::Never,
            1 => MatchCond::NodeExists(s.scope),
            2 => MatchCond::NodeHasType(s.scope, 0),
            _ => MatchCond::Always,
        };
        let mut fp = honest_footprint(w, &instrs);
        for (is_in, p) in &s.ports {
            if *is_in {
                fp.b_in.insert(1000 + *p as u64);
            } else {
                fp.b_out.insert(1000 + *p as u64);
            }
        }
        out.push(WCand { slot: s.slot, w, scope: s.scope as u16, prog: Prog { cond, instrs, fp } });
    }
    out
}

fn vspec(v: &VSeed) -> ValSpec {
    match v {
        VSeed::Clear => ValSpec::Clear,
        VSeed::Lit(t, b) => ValSpec::Lit(AVal::Atom { ty: *t, bytes: b.clone() }),
        VSeed::FromReads(t, l) => ValSpec::FromReads { ty: *t, len: *l },
    }
}

/// Wide candidates for batches across the 1024 threshold: tiny programs on distinct scopes.
pub fn wide_cands(pre: &AState, n: usize, salt: u8) -> Vec<WCand> {
    let st = &pre.warps[&0];
    let nodes: Vec<u8> = st.nodes.keys().copied().collect();
    (0..n)
        .map(|i| {
            let scope = (N_NODES as u16) + i as u16;
            let slot = ((i as u8).wrapping_add(salt)) % 6;
            let instrs = match i % 5 {
                0 => vec![Instr::ReadNode(nodes[i % nodes.len()])],
                1 => vec![Instr::ReadNodeAtt(nodes[(i / 5) % nodes.len()])],
                2 => vec![Instr::HasEdge((i % N_EDGES as usize) as u8)],
                3 => vec![
                    Instr::ReadNodeAtt(nodes[i % nodes.len()]),
                    Instr::SetNodeAtt { n: nodes[(i / 7) % nodes.len()], val: ValSpec::FromReads { ty: (i % 4) as u8, len: 8 } },
                ],
                _ => vec![],
            };
            let instrs: Vec<Instr> = instrs
                .into_iter()
                .filter(|ins| match ins {
                    Instr::SetNodeAtt { n, .. } => !matches!(st.natt.get(n), Some(AVal::Descend(_))),
                    _ => true,
                })
                .collect();
            let fp = honest_footprint(0, &instrs);
            WCand { slot, w: 0, scope, prog: Prog { cond: MatchCond::Always, instrs, fp } }
        })
        .collect()
}

/// Enqueue sequence from seeds: a permutation of 0..n with duplications.
pub fn enqueue_seq(n: usize, swaps: &[u16], dups: &[u16]) -> Vec<usize> {
    let mut v: Vec<usize> = (0..n).collect();
    for d in dups {
        if n > 0 {
            v.push(vkit::pick_idx(*d, n));
        }
    }
    let m = v.len();
    for i in (1..m).rev() {
        let j = vkit::pick_idx(swaps.get(i % swaps.len().max(1)).copied().unwrap_or(0).wrapping_add(i as u16 * 7919), i + 1);
        v.swap(i, j);
    }
    v
}
