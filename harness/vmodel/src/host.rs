//! Trusted-runtime-host mode: an installed contract package whose single mutation handler is
//! the data-driven DSL rule (the program travels in the EINT vars of the intent), hosts with
//! a filesystem runtime WAL, and scripts of submit / stage / tick operations.
//! Modelled on crates/warp-core/tests/trusted_runtime_host_loop_tests.rs.

use crate::dsl::*;
use crate::rt::{head_key, wl_id, PolicySeed};
use crate::tick::*;
use crate::universe::*;
use echo_registry_api::{ArgDef, ContractArtifactVerificationPolicy, ObjectDef, OpDef, OpKind, RegistryInfo, RegistryProvider};
use proptest::prelude::*;
use serde::{Deserialize, Serialize};
use std::path::Path;
use warp_core::{
    make_intent_kind, make_type_id, ConflictPolicy, ContractMutationHandler, ContractPackageIdentity, Engine, EngineBuilder, Footprint,
    GraphStore, GraphView, InboxPolicy, IngressEnvelope, IngressTarget, InstalledContractPackage, NodeId, NodeRecord, OpticAdmissionTicket,
    OpticArtifactHandle, PatternGraph, PlaybackMode, RewriteRule, SchedulerKind, TickDelta, TrustedRuntimeHost, TrustedRuntimeWalConfig,
    WorldlineRuntime, WorldlineState, WriterHead, OPTIC_ADMISSION_TICKET_KIND, OPTIC_ARTIFACT_HANDLE_KIND,
};

pub const SCHEMA_SHA256_HEX: &str = "0123456789abcdef0123456789abcdef0123456789abcdef0123456789abcdef";
pub const DSL_OP_ID: u32 = 6001;
const RULE_NAME: &str = "cmd/contract/0123456789abcdef0123456789abcdef0123456789abcdef0123456789abcdef/6001/dsl";
const RULE_ID_LABEL: &str = "rule:cmd/contract/0123456789abcdef0123456789abcdef0123456789abcdef0123456789abcdef/6001/dsl";

static ARGS: &[ArgDef] = &[ArgDef { name: "input", ty: "DslProgram", required: true, list: false }];
static OPS: &[OpDef] = &[OpDef { kind: OpKind::Mutation, name: "dsl", op_id: DSL_OP_ID, args: ARGS, result_ty: "DslResult", directives_json: "{}", footprint_certificate: None }];

struct DslRegistry;
impl RegistryProvider for DslRegistry {
    fn info(&self) -> RegistryInfo {
        RegistryInfo { echo_abi_version: 1, codec_id: "cbor-canon-v1", registry_version: 1, schema_sha256_hex: SCHEMA_SHA256_HEX, wesley_generator_version: "echo-wesley-gen/0.1.0", helper_api_version: 1 }
    }
    fn op_by_id(&self, op_id: u32) -> Option<&'static OpDef> {
        OPS.iter().find(|op| op.op_id == op_id)
    }
    fn all_ops(&self) -> &'static [OpDef] {
        OPS
    }
    fn all_enums(&self) -> &'static [echo_registry_api::EnumDef] {
        &[]
    }
    fn all_objects(&self) -> &'static [ObjectDef] {
        &[]
    }
}

fn decode(view: GraphView<'_>, scope: &NodeId) -> Option<Prog> {
    let vars = warp_core::eint_vars_for_op(view, scope, DSL_OP_ID)?;
    if vars.len() < 4 {
        return None;
    }
    serde_json::from_slice(&vars[4..]).ok()
}
fn host_matcher(view: GraphView<'_>, scope: &NodeId) -> bool {
    decode(view, scope).map(|p| real_cond(view, &p.cond)).unwrap_or(false)
}
fn host_footprint(view: GraphView<'_>, scope: &NodeId) -> Footprint {
    let mut fp = warp_core::runtime_ingress_eint_read_footprint(view, scope);
    if let Some(p) = decode(view, scope) {
        let w = warp_ix(&view.warp_id()).unwrap_or(0);
        let extra = p.fp.to_real(w);
        for k in extra.n_read.iter() {
            fp.n_read.insert(*k);
        }
        for k in extra.n_write.iter() {
            fp.n_write.insert(*k);
        }
        for k in extra.e_read.iter() {
            fp.e_read.insert(*k);
        }
        for k in extra.e_write.iter() {
            fp.e_write.insert(*k);
        }
        for k in extra.a_read.iter() {
            fp.a_read.insert(*k);
        }
        for k in extra.a_write.iter() {
            fp.a_write.insert(*k);
        }
    }
    fp.factor_mask = u64::MAX;
    fp
}
fn host_executor(view: GraphView<'_>, scope: &NodeId, delta: &mut TickDelta) {
    EXEC_COUNT.fetch_add(1, std::sync::atomic::Ordering::Relaxed);
    let Some(p) = decode(view, scope) else { return };
    let w = warp_ix(&view.warp_id()).unwrap_or(0);
    run_real(view, w, &p, delta);
}

pub fn dsl_contract_rule() -> RewriteRule {
    RewriteRule { id: make_type_id(RULE_ID_LABEL).0, name: RULE_NAME, left: PatternGraph { nodes: vec![] }, matcher: host_matcher, executor: host_executor, compute_footprint: host_footprint, factor_mask: u64::MAX, conflict_policy: ConflictPolicy::Abort, join_fn: None }
}

pub fn dsl_package() -> InstalledContractPackage<'static> {
    static REGISTRY: DslRegistry = DslRegistry;
    InstalledContractPackage {
        identity: ContractPackageIdentity { package_name: "verif-dsl", package_version: "0.1.0", artifact_hash_hex: "bbbbbbbbbbbbbbbbbbbbbbbbbbbbbbbbbbbbbbbbbbbbbbbbbbbbbbbbbbbbbbbb" },
        registry: &REGISTRY,
        verification_policy: ContractArtifactVerificationPolicy { echo_abi_version: 1, codec_id: "cbor-canon-v1", registry_version: 1, schema_sha256_hex: SCHEMA_SHA256_HEX, wesley_generator_version: "echo-wesley-gen/0.1.0", helper_api_version: 1, footprint_certificates: &[], require_mutation_footprint_certificates: false },
        mutation_handlers: vec![ContractMutationHandler { op_id: DSL_OP_ID, rule: dsl_contract_rule() }],
        inverse_handlers: vec![],
        query_observers: vec![],
    }
}

fn host_engine() -> Engine {
    let mut store = GraphStore::default();
    let root = warp_core::make_node_id("verif/host-engine-root");
    store.insert_node(root, NodeRecord { ty: make_type_id("verif/host-engine-root") });
    EngineBuilder::new(store, root).scheduler(SchedulerKind::Radix).workers(1).build()
}

/// Topology seed of a host: per worldline an initial state and one accept-all default head.
#[derive(Clone, Debug, Serialize, Deserialize)]
pub struct HostSeed {
    pub worldlines: Vec<StateSeed>,
}

pub fn host_seed(max_wl: usize) -> impl Strategy<Value = HostSeed> {
    prop::collection::vec(prop_oneof![3 => single_warp_state_seed(), 1 => state_seed()], 1..=max_wl).prop_map(|worldlines| HostSeed { worldlines })
}

pub fn initial_states(seed: &HostSeed) -> Vec<WorldlineState> {
    seed.worldlines
        .iter()
        .map(|st| {
            let a = realise_state(st);
            let real = build_real(&a, &[]);
            WorldlineState::new(real, node_key(0, a.warps[&0].root_node)).expect("worldline state")
        })
        .collect()
}

/// The deterministic topology every process incarnation registers before enabling the WAL.
pub fn host_runtime(seed: &HostSeed) -> WorldlineRuntime {
    let mut runtime = WorldlineRuntime::new();
    for (i, ws) in initial_states(seed).into_iter().enumerate() {
        runtime.register_worldline(wl_id(i as u8), ws).expect("register worldline");
        runtime.register_writer_head(WriterHead::with_routing(head_key(i as u8, 0), PlaybackMode::Play, InboxPolicy::AcceptAll, None, true)).expect("register head");
    }
    let _ = PolicySeed::AcceptAll;
    runtime
}

/// A fresh host over the seed's topology with a filesystem runtime WAL rooted at `root`
/// (recovering whatever the root holds) and the DSL package installed.
pub fn open_host(seed: &HostSeed, root: &Path) -> Result<TrustedRuntimeHost, String> {
    let mut host = TrustedRuntimeHost::new(host_runtime(seed), host_engine()).map_err(|e| format!("host: {e:?}"))?;
    host.enable_runtime_wal(TrustedRuntimeWalConfig::filesystem(root)).map_err(|e| format!("enable_runtime_wal: {e:?}"))?;
    host.register_contract_package(dsl_package()).map_err(|e| format!("register package: {e:?}"))?;
    Ok(host)
}

pub fn dsl_envelope(wl: u8, prog: &Prog, salt: u32) -> IngressEnvelope {
    let mut vars = salt.to_le_bytes().to_vec();
    vars.extend_from_slice(&serde_json::to_vec(prog).expect("prog json"));
    IngressEnvelope::local_intent(IngressTarget::DefaultWriter { worldline_id: wl_id(wl) }, make_intent_kind("echo.intent/eint-v1"), echo_wasm_abi::pack_intent_v1(DSL_OP_ID, &vars).expect("EINT should pack"))
}

pub fn host_ticket(seed: u8, ingress_id: &[u8; 32]) -> OpticAdmissionTicket {
    let mut h = blake3::Hasher::new();
    h.update(b"verif-host-ticket");
    h.update(&[seed]);
    h.update(ingress_id);
    OpticAdmissionTicket {
        kind: OPTIC_ADMISSION_TICKET_KIND.to_owned(),
        artifact_handle: OpticArtifactHandle { kind: OPTIC_ARTIFACT_HANDLE_KIND.to_owned(), id: format!("verif-host-ticket-{seed}") },
        artifact_hash: format!("artifact-hash-{seed}"),
        operation_id: format!("operation-{seed}"),
        requirements_digest: format!("requirements-{seed}"),
        canonical_variables_digest: vec![seed],
        basis_request_digest: [seed; 32],
        aperture_request_digest: [seed.wrapping_add(1); 32],
        budget_request_digest: [seed.wrapping_add(2); 32],
        law_witness_digest: [seed.wrapping_add(3); 32],
        ticket_digest: *h.finalize().as_bytes(),
    }
}

/// One step of a host workload.
#[derive(Clone, Debug, Serialize, Deserialize)]
pub enum HostOp {
    /// durable-ack submission of a new intent (program realised against the lane's state)
    Submit { wl: u8, prog: CandSeed, salt: u32 },
    /// re-submit an earlier envelope (retry)
    Resubmit { which: u16 },
    /// stage an earlier submission into runtime ingress (volatile until its tick commits)
    Stage { which: u16 },
    /// one scheduler pass
    Tick,
}

pub fn host_op() -> impl Strategy<Value = HostOp> {
    prop_oneof![
        5 => (any::<u8>(), cand_seed(5), 0u32..3).prop_map(|(wl, prog, salt)| HostOp::Submit { wl, prog, salt }),
        1 => any::<u16>().prop_map(|which| HostOp::Resubmit { which }),
        4 => any::<u16>().prop_map(|which| HostOp::Stage { which }),
        4 => Just(HostOp::Tick),
    ]
}
