//! C19 — deterministic math is bit-stable and canonical.
//!
//! The same binary is built in three profiles (dev: opt 0 + debug assertions; release: opt 3;
//! relsize: the repo's own release profile, opt "s" + lto + 1 cgu). `--digest` mode streams a
//! BLAKE3 digest of output bit patterns over an integer-indexed input stream; the parent
//! compares digests chunk by chunk and bisects a mismatch to the minimal input index.

use serde::{Deserialize, Serialize};
use serde_json::{json, Value};
use std::process::Command;
use std::time::Instant;
use vkit::{Check, Ctx, Fail, Property, Recorder, Sub, Tier, Violation};
use warp_math::scalar::{DFix64, F32Scalar};
use warp_math::{fixed_q32_32, Mat4, Prng, Quat, Scalar, Vec3};

// ---------------------------------------------------------------------------
// input streams (pure integer functions of (seed, index): identical in every profile)

fn mix(seed: u64, i: u64, j: u64) -> u64 {
    let mut z = seed ^ i.wrapping_mul(0x9e37_79b9_7f4a_7c15) ^ j.wrapping_mul(0xd1b5_4a32_d192_ed03);
    z = (z ^ (z >> 30)).wrapping_mul(0xbf58_476d_1ce4_e5b9);
    z = (z ^ (z >> 27)).wrapping_mul(0x94d0_49bb_1331_11eb);
    z ^ (z >> 31)
}

/// number of leading `specials()` entries used for n-ary special grids
const CORE: usize = 30;

fn specials() -> Vec<u32> {
    let mut v: Vec<u32> = vec![
        0x0000_0000, 0x8000_0000, 0x0000_0001, 0x8000_0001, 0x007f_ffff, 0x807f_ffff, 0x0080_0000, 0x8080_0000,
        0x3f80_0000, 0xbf80_0000, 0x3f00_0000, 0x4000_0000, 0x7f7f_ffff, 0xff7f_ffff, 0x7f80_0000, 0xff80_0000,
        0x7fc0_0000, 0xffc0_0000, 0x7fc0_0001, 0x7f80_0001, 0xffff_ffff, 0x3400_0000, 0x4b00_0000, 0x4b80_0000,
        0x5f00_0000, 0xdf00_0000, 0x4f00_0000, 0xcf00_0000, 0x4f80_0000, 0x3a83_126f,
    ];
    // +-k*pi/2 and +-1..4 ulp around them, for k = 0..=64 (range-reduction boundaries)
    for k in 0..=64u32 {
        let x = (k as f32) * std::f32::consts::FRAC_PI_2;
        let b = x.to_bits();
        for d in -4i32..=4 {
            let bb = b.wrapping_add(d as u32);
            v.push(bb);
            v.push(bb ^ 0x8000_0000);
        }
    }
    // LUT segment boundaries in the first quarter (2048 segments assumed max): j*(pi/2)/N
    for n in [64u32, 128, 256, 512, 1024, 2048] {
        for j in (0..=n).step_by((n / 64) as usize) {
            let x = (j as f32) * std::f32::consts::FRAC_PI_2 / (n as f32);
            let b = x.to_bits();
            for d in -2i32..=2 {
                v.push(b.wrapping_add(d as u32));
            }
        }
    }
    v
}

/// stratified unary sample: 2^24 indices covering every sign/exponent with 2^15 mantissas
fn strat_bits(i: u64, seed: u64) -> u32 {
    let sign = ((i >> 23) & 1) as u32;
    let exp = ((i >> 15) & 0xff) as u32;
    let m_hi = (i & 0x7fff) as u32;
    let m_lo = (mix(seed, i, 7) & 0xff) as u32;
    (sign << 31) | (exp << 23) | (m_hi << 8) | m_lo
}

fn word(seed: u64, i: u64, j: u64, sp: &[u32]) -> u32 {
    let r = mix(seed, i, j);
    match r & 7 {
        0 => sp[((r >> 8) as usize) % sp.len()],
        1 => {
            // moderate magnitude floats (|x| < 2^10) — the interesting arithmetic range
            let m = (r >> 16) as u32 & 0x007f_ffff;
            let e = 117 + ((r >> 40) as u32 % 20);
            let s = (r >> 63) as u32;
            (s << 31) | (e << 23) | m
        }
        _ => (r >> 32) as u32,
    }
}

// ---------------------------------------------------------------------------
// operations

struct Op {
    name: &'static str,
    words: usize,
    /// inputs must be finite (documented domain); others are skipped identically in all builds
    finite_only: bool,
    /// outputs are F32Scalar values: closure invariants apply
    scalar_out: bool,
    f: fn(&[u32], &mut Vec<u32>),
}

fn f(b: u32) -> f32 {
    f32::from_bits(b)
}
fn s(b: u32) -> F32Scalar {
    F32Scalar::new(f32::from_bits(b))
}
fn push64(out: &mut Vec<u32>, v: i64) {
    out.push(v as u32);
    out.push((v >> 32) as u32);
}
fn v3(w: &[u32]) -> Vec3 {
    Vec3::new(f(w[0]), f(w[1]), f(w[2]))
}
fn pv3(out: &mut Vec<u32>, v: Vec3) {
    out.extend(v.to_array().iter().map(|x| x.to_bits()));
}

fn ops() -> Vec<Op> {
    vec![
        Op { name: "scalar_new", words: 1, finite_only: false, scalar_out: true, f: |w, o| o.push(s(w[0]).to_f32().to_bits()) },
        Op { name: "scalar_neg", words: 1, finite_only: false, scalar_out: true, f: |w, o| o.push((-s(w[0])).to_f32().to_bits()) },
        Op { name: "scalar_sin", words: 1, finite_only: true, scalar_out: true, f: |w, o| o.push(s(w[0]).sin().to_f32().to_bits()) },
        Op { name: "scalar_cos", words: 1, finite_only: true, scalar_out: true, f: |w, o| o.push(s(w[0]).cos().to_f32().to_bits()) },
        Op {
            name: "scalar_sin_cos",
            words: 1,
            finite_only: true,
            scalar_out: true,
            f: |w, o| {
                let (a, b) = s(w[0]).sin_cos();
                o.push(a.to_f32().to_bits());
                o.push(b.to_f32().to_bits());
            },
        },
        Op { name: "deg_to_rad", words: 1, finite_only: false, scalar_out: false, f: |w, o| o.push(warp_math::deg_to_rad(f(w[0])).to_bits()) },
        Op { name: "rad_to_deg", words: 1, finite_only: false, scalar_out: false, f: |w, o| o.push(warp_math::rad_to_deg(f(w[0])).to_bits()) },
        Op {
            name: "fixed_q32_32",
            words: 1,
            finite_only: false,
            scalar_out: false,
            f: |w, o| {
                let r = fixed_q32_32::from_f32(f(w[0]));
                push64(o, r);
                o.push(fixed_q32_32::to_f32(r).to_bits());
            },
        },
        Op {
            name: "abi_fx_and_canon",
            words: 1,
            finite_only: false,
            scalar_out: false,
            f: |w, o| {
                push64(o, echo_wasm_abi::codec::fx_from_f32(f(w[0])));
                o.push(echo_wasm_abi::codec::canonicalize_f32(f(w[0])).to_bits());
            },
        },
        Op {
            name: "prng",
            words: 1,
            finite_only: false,
            scalar_out: false,
            f: |w, o| {
                let mut p = Prng::from_seed_u64((w[0] as u64).wrapping_mul(0x9e37_79b9_7f4a_7c15));
                for _ in 0..4 {
                    o.push(p.next_f32().to_bits());
                }
                o.push(p.next_int(-10, 10) as u32);
                let mut q = Prng::from_seed(w[0] as u64, 0);
                o.push(q.next_f32().to_bits());
            },
        },
        Op { name: "scalar_add", words: 2, finite_only: false, scalar_out: true, f: |w, o| o.push((s(w[0]) + s(w[1])).to_f32().to_bits()) },
        Op { name: "scalar_sub", words: 2, finite_only: false, scalar_out: true, f: |w, o| o.push((s(w[0]) - s(w[1])).to_f32().to_bits()) },
        Op { name: "scalar_mul", words: 2, finite_only: false, scalar_out: true, f: |w, o| o.push((s(w[0]) * s(w[1])).to_f32().to_bits()) },
        Op { name: "scalar_div", words: 2, finite_only: false, scalar_out: true, f: |w, o| o.push((s(w[0]) / s(w[1])).to_f32().to_bits()) },
        Op {
            name: "dfix64",
            words: 2,
            finite_only: true,
            scalar_out: false,
            f: |w, o| {
                let (a, b) = (DFix64::from_f32(f(w[0])), DFix64::from_f32(f(w[1])));
                for r in [a + b, a - b, a * b, a / b, -a, a.sin(), a.cos()] {
                    push64(o, r.raw());
                    o.push(r.to_f32().to_bits());
                }
            },
        },
        Op {
            // the fixed-point lane over its whole raw domain (not only images of f32 values),
            // shaped towards the saturation boundary, rounding ties and extreme quotients, and
            // checked against an exact integer reference (round to nearest, ties to even,
            // saturating) written from the documented contract
            name: "dfix64_raw",
            words: 5,
            finite_only: false,
            scalar_out: false,
            f: |w, o| {
                let (a, b) = shape_raw_pair(w);
                let (x, y) = (DFix64::from_raw(a), DFix64::from_raw(b));
                let got = [(x + y).raw(), (x - y).raw(), (x * y).raw(), (x / y).raw(), (-x).raw()];
                let want = [ref_sat(a as i128 + b as i128), ref_sat(a as i128 - b as i128), ref_mul(a, b), ref_div(a, b), ref_sat(-(a as i128))];
                for (k, (g, wv)) in got.iter().zip(want.iter()).enumerate() {
                    assert!(g == wv, "REFERENCE-MISMATCH dfix64 op {} (0 add,1 sub,2 mul,3 div,4 neg) a={a:#x} b={b:#x}: got {g:#x}, exact integer reference {wv:#x}", k);
                    push64(o, *g);
                }
            },
        },
        Op {
            name: "vec3_ops",
            words: 6,
            finite_only: true,
            scalar_out: false,
            f: |w, o| {
                let (a, b) = (v3(&w[0..3]), v3(&w[3..6]));
                o.push(a.dot(&b).to_bits());
                pv3(o, a.cross(&b));
                pv3(o, a.add(&b));
                pv3(o, a.sub(&b));
                pv3(o, a.scale(f(w[5])));
                o.push(a.length().to_bits());
                o.push(a.length_squared().to_bits());
                pv3(o, a.normalize());
            },
        },
        Op {
            name: "quat_ops",
            words: 8,
            finite_only: true,
            scalar_out: false,
            f: |w, o| {
                let a = Quat::new(f(w[0]), f(w[1]), f(w[2]), f(w[3]));
                let b = Quat::new(f(w[4]), f(w[5]), f(w[6]), f(w[7]));
                o.extend(a.multiply(&b).to_array().iter().map(|x| x.to_bits()));
                o.extend(a.normalize().to_array().iter().map(|x| x.to_bits()));
                o.extend(Quat::from_axis_angle(v3(&w[0..3]), f(w[3])).to_array().iter().map(|x| x.to_bits()));
                o.extend(a.normalize().to_mat4().to_array().iter().map(|x| x.to_bits()));
            },
        },
        Op {
            name: "mat4_ops",
            words: 9,
            finite_only: true,
            scalar_out: false,
            f: |w, o| {
                let r = Mat4::rotation_from_euler(f(w[0]), f(w[1]), f(w[2]));
                let t = Mat4::translation(f(w[3]), f(w[4]), f(w[5]));
                let m = r.multiply(&t);
                o.extend(m.to_array().iter().map(|x| x.to_bits()));
                pv3(o, m.transform_point(&v3(&w[6..9])));
                pv3(o, m.transform_direction(&v3(&w[6..9])));
                o.extend(Mat4::rotation_axis_angle(v3(&w[6..9]), f(w[0])).to_array().iter().map(|x| x.to_bits()));
                o.extend(Mat4::rotation_x(f(w[0])).multiply(&Mat4::rotation_y(f(w[1]))).multiply(&Mat4::rotation_z(f(w[2]))).to_array().iter().map(|x| x.to_bits()));
            },
        },
    ]
}


// ---------------------------------------------------------------------------
// Q32.32 reference model (exact integers) and raw-operand shaping

fn ref_sat(v: i128) -> i64 {
    if v > i64::MAX as i128 {
        i64::MAX
    } else if v < i64::MIN as i128 {
        i64::MIN
    } else {
        v as i64
    }
}

/// nearest integer to num/den (den > 0), ties to even
fn ref_round_div(num: i128, den: i128) -> i128 {
    let fl = num.div_euclid(den);
    let rem = num.rem_euclid(den);
    match (2 * rem).cmp(&den) {
        std::cmp::Ordering::Less => fl,
        std::cmp::Ordering::Greater => fl + 1,
        std::cmp::Ordering::Equal => {
            if fl % 2 == 0 {
                fl
            } else {
                fl + 1
            }
        }
    }
}

fn ref_mul(a: i64, b: i64) -> i64 {
    ref_sat(ref_round_div(a as i128 * b as i128, 1i128 << 32))
}

fn ref_div(a: i64, b: i64) -> i64 {
    if b == 0 {
        // documented policy: 0/0 = 0, x/0 saturates with the sign of x
        return if a == 0 { 0 } else if a < 0 { i64::MIN } else { i64::MAX };
    }
    let (mut num, mut den) = ((a as i128) << 32, b as i128);
    if den < 0 {
        num = -num;
        den = -den;
    }
    ref_sat(ref_round_div(num, den))
}

/// Two raw Q32.32 operands from five input words; the fifth selects a shape.
fn shape_raw_pair(w: &[u32]) -> (i64, i64) {
    let a0 = ((w[0] as u64) << 32 | w[1] as u64) as i64;
    let b0 = ((w[2] as u64) << 32 | w[3] as u64) as i64;
    let m = w[4];
    let sgn = |v: i128, neg: bool| if neg { -v } else { v };
    const SP: [i64; 12] = [0, 1, -1, i64::MAX, i64::MIN, i64::MIN + 1, 1 << 32, (1 << 32) + 1, (1 << 32) - 1, -(1 << 32), 1 << 31, 0x7fff_ffff_8000_0000];
    match m % 8 {
        0 => (a0, b0),
        1 => (a0 >> 24, b0),
        2 | 3 => {
            // products next to the saturation boundary 2^95 (and half an ulp below it)
            let mag_a = ((a0.unsigned_abs() >> (m >> 8) % 31) | (1 << 32)) as i128;
            let edge = if m % 8 == 2 { (1i128 << 95) - 1 } else { (1i128 << 95) - (1i128 << 31) };
            let delta = (b0 as i128 & 0x3_ffff_ffff) - (1i128 << 33);
            let mag_b = ((edge + delta * ((m >> 16) as i128 & 1)) / mag_a + ((m >> 17) as i128 & 3) - 1).max(1);
            (ref_sat(sgn(mag_a, m & 0x10 != 0)), ref_sat(sgn(mag_b, m & 0x20 != 0)))
        }
        4 => {
            // exact rounding ties: low 32 bits of the product are 0x8000_0000
            let x = ((a0 as i128) & 0xffff_ffff) | 1;
            let y = (((b0 as i128) & 0x7fff_ffff) << 1) | 1;
            (ref_sat(sgn(x << 16, m & 0x10 != 0)), ref_sat(sgn(y << 15, m & 0x20 != 0)))
        }
        5 => {
            // extreme quotients: tiny divisors, huge dividends
            let d = (b0 & 0xffff) as i128 + ((m >> 8) as i128 & 1);
            (a0 | (1 << 62), ref_sat(sgn(d, m & 0x20 != 0)))
        }
        6 => (SP[(m >> 8) as usize % SP.len()], SP[(m >> 16) as usize % SP.len()]),
        _ => (DFix64::from_f32(f32::from_bits(w[0])).raw(), b0 >> ((m >> 8) % 40)),
    }
}

fn inputs_for(op: &Op, mode: &str, i: u64, seed: u64, sp: &[u32], buf: &mut Vec<u32>) {
    buf.clear();
    match (mode, op.words) {
        ("full", 1) => buf.push(i as u32),
        ("strat", 1) => buf.push(strat_bits(i, seed)),
        ("special", 1) => buf.push(sp[(i as usize) % sp.len()]),
        ("special", n) => {
            // core specials x core specials (x ...): mixed radix over the first CORE entries
            let mut c = i as usize;
            for _ in 0..n {
                buf.push(sp[c % CORE]);
                c /= CORE;
            }
        }
        (_, n) => {
            for j in 0..n {
                buf.push(word(seed, i, j as u64, sp));
            }
        }
    }
}

/// Documented domain: Vec3/Quat/Mat4 components are finite world-space values (Vec3::new:
/// "callers must ensure values are finite", Quat::new asserts finiteness); we additionally keep
/// |x| < 2^40 for those so that no intermediate product overflows to infinity (an overflowed
/// intermediate is non-finite, i.e. outside that domain, and inf - inf yields NaNs whose sign is
/// not specified by IEEE 754).
fn skip(op: &Op, w: &[u32]) -> bool {
    if !op.finite_only {
        return false;
    }
    let bound = if op.words > 2 { 1.0995116e12f32 } else { f32::INFINITY };
    w.iter().any(|b| {
        let x = f32::from_bits(*b);
        !x.is_finite() || x.abs() >= bound
    })
}

/// canonical-scalar closure: never -0.0, never subnormal, never a non-canonical NaN
fn closure_ok(bits: u32) -> bool {
    let x = f32::from_bits(bits);
    if x.is_nan() {
        return bits == 0x7fc0_0000;
    }
    if bits == 0x8000_0000 {
        return false;
    }
    !x.is_subnormal()
}

// ---------------------------------------------------------------------------
// child: digest a range

fn digest_main(args: &[String]) -> ! {
    let opname = &args[0];
    let mode = args[1].as_str();
    let start: u64 = args[2].parse().unwrap();
    let count: u64 = args[3].parse().unwrap();
    let seed: u64 = args[4].parse().unwrap();
    std::panic::set_hook(Box::new(|_| {}));
    let all = ops();
    let op = all.iter().find(|o| o.name == opname).expect("op");
    let sp = specials();
    let mut h = blake3::Hasher::new();
    let mut buf = Vec::new();
    let mut out = Vec::new();
    let mut skipped = 0u64;
    for i in start..start + count {
        inputs_for(op, mode, i, seed, &sp, &mut buf);
        if skip(op, &buf) {
            skipped += 1;
            h.update(&[0xde, 0xad]);
            continue;
        }
        out.clear();
        let r = std::panic::catch_unwind(std::panic::AssertUnwindSafe(|| (op.f)(&buf, &mut out)));
        if let Err(p) = r {
            println!("PANIC {i} {:?} {}", buf, vkit::panic_message(&p).replace('\n', " "));
            std::process::exit(0);
        }
        for w in &out {
            h.update(&w.to_le_bytes());
        }
    }
    println!("OK {} {skipped}", h.finalize().to_hex());
    std::process::exit(0);
}

// ---------------------------------------------------------------------------
// parent

const PROFILE_DIRS: [(&str, &str); 3] = [("dev", "debug"), ("release", "release"), ("relsize", "relsize")];

/// (profile name, binary path); the target directory is /verif/target unless VERIF_TARGET names
/// another one (seeded-change trials build into their own).
fn profiles() -> Vec<(&'static str, String)> {
    let base = std::env::var("VERIF_TARGET").unwrap_or_else(|_| "/verif/target".to_string());
    PROFILE_DIRS.iter().map(|(n, d)| (*n, format!("{base}/{d}/vc_math"))).collect()
}

#[derive(Debug, Clone, PartialEq)]
enum ChildOut {
    Ok(String, u64),
    Panic(u64, String),
    Broken(String),
}

fn run_digest(bin: &str, op: &str, mode: &str, start: u64, count: u64, seed: u64) -> ChildOut {
    let out = Command::new(bin).args(["--digest", op, mode, &start.to_string(), &count.to_string(), &seed.to_string()]).output();
    match out {
        Err(e) => ChildOut::Broken(format!("cannot run {bin}: {e}")),
        Ok(o) => {
            let s = String::from_utf8_lossy(&o.stdout).to_string();
            let line = s.lines().last().unwrap_or("");
            if let Some(rest) = line.strip_prefix("OK ") {
                let mut it = rest.split(' ');
                ChildOut::Ok(it.next().unwrap_or("").to_string(), it.next().and_then(|x| x.parse().ok()).unwrap_or(0))
            } else if let Some(rest) = line.strip_prefix("PANIC ") {
                let mut it = rest.splitn(2, ' ');
                let i = it.next().and_then(|x| x.parse().ok()).unwrap_or(0);
                ChildOut::Panic(i, it.next().unwrap_or("").to_string())
            } else {
                ChildOut::Broken(format!("{bin} died: status {:?}, stderr {}", o.status, String::from_utf8_lossy(&o.stderr).chars().take(300).collect::<String>()))
            }
        }
    }
}

#[derive(Clone, Debug, Serialize, Deserialize)]
struct Repro {
    op: String,
    mode: String,
    index: u64,
    seed: u64,
}

fn describe(op: &Op, mode: &str, index: u64, seed: u64) -> Value {
    let sp = specials();
    let mut buf = Vec::new();
    inputs_for(op, mode, index, seed, &sp, &mut buf);
    json!({"op": op.name, "mode": mode, "index": index, "input_bits": buf.iter().map(|b| format!("{b:#010x}")).collect::<Vec<_>>(), "input_f32": buf.iter().map(|b| format!("{:e}", f32::from_bits(*b))).collect::<Vec<_>>()})
}

/// Compare the three profiles on [start, start+count); on mismatch bisect to the first index.
fn compare_range(op: &Op, mode: &str, start: u64, count: u64, seed: u64) -> Result<u64, (Fail, Repro)> {
    let outs: Vec<ChildOut> = profiles().iter().map(|(_, bin)| run_digest(bin, op.name, mode, start, count, seed)).collect();
    for (k, o) in outs.iter().enumerate() {
        match o {
            ChildOut::Broken(m) => return Err((Fail::new("C19/harness/child-broken", m.clone()), Repro { op: op.name.into(), mode: mode.into(), index: start, seed })),
            ChildOut::Panic(i, msg) => {
                return Err((
                    Fail::new(format!("C19/{}/panic-on-finite-input/{}", op.name, PROFILE_DIRS[k].0), format!("profile {} panicked at {}: {msg}", PROFILE_DIRS[k].0, describe(op, mode, *i, seed))),
                    Repro { op: op.name.into(), mode: mode.into(), index: *i, seed },
                ))
            }
            ChildOut::Ok(..) => {}
        }
    }
    if outs[0] == outs[1] && outs[1] == outs[2] {
        if let ChildOut::Ok(_, skipped) = &outs[0] {
            return Ok(*skipped);
        }
    }
    if count == 1 {
        return Err((
            Fail::new(format!("C19/{}/profiles-disagree", op.name), format!("bit patterns differ across build profiles at {}: {:?}", describe(op, mode, start, seed), outs)),
            Repro { op: op.name.into(), mode: mode.into(), index: start, seed },
        ));
    }
    let half = count / 2;
    compare_range(op, mode, start, half, seed)?;
    compare_range(op, mode, start + half, count - half, seed)?;
    // both halves agree individually but the whole differs: digest framing issue
    Err((Fail::new("C19/harness/bisect-inconsistent", format!("{} {mode} [{start},+{count})", op.name)), Repro { op: op.name.into(), mode: mode.into(), index: start, seed }))
}

struct DiffSub;

fn plan(ctx: &Ctx) -> Vec<(usize, &'static str, u64, u64)> {
    // (op index, mode, start, count) chunks
    let all = ops();
    let sp_len = specials().len() as u64;
    let mut v = Vec::new();
    for (oi, op) in all.iter().enumerate() {
        if op.words == 1 {
            v.push((oi, "special", 0, sp_len));
            match ctx.tier {
                Tier::Quick => {
                    for c in 0..16u64 {
                        v.push((oi, "strat", c << 20, 1 << 20));
                    }
                }
                Tier::Thorough => {
                    for c in 0..256u64 {
                        v.push((oi, "full", c << 24, 1 << 24));
                    }
                }
            }
        } else {
            let _ = sp_len;
            let sp_pairs = if op.words == 2 { (CORE * CORE) as u64 } else { (CORE * CORE * CORE) as u64 };
            v.push((oi, "special", 0, sp_pairs));
            let (chunks, size) = match ctx.tier {
                Tier::Quick => (8u64, 1u64 << 16),
                Tier::Thorough => (64, 1 << 18),
            };
            let scale = if op.words > 2 { 4 } else { 1 };
            for c in 0..chunks {
                v.push((oi, "random", c * size / scale, size / scale));
            }
        }
    }
    v
}

impl Sub for DiffSub {
    fn name(&self) -> String {
        "build-profile-differential".into()
    }
    fn run(&self, ctx: &Ctx, rec: &mut Recorder) {
        let t0 = Instant::now();
        let all = ops();
        let st = rec.subs.entry(self.name()).or_default();
        let mut fails: Vec<(Fail, Repro)> = Vec::new();
        for (k, (oi, mode, start, count)) in plan(ctx).into_iter().enumerate() {
            if k as u32 % ctx.nshards != ctx.shard {
                continue;
            }
            let op = &all[oi];
            match compare_range(op, mode, start, count, ctx.seed) {
                Ok(skipped) => {
                    st.evaluations += count * 3;
                    st.cases += 1;
                    *st.classes.entry(format!("{}:{}", op.name, mode)).or_default() += count;
                    if skipped > 0 {
                        *st.classes.entry(format!("{}:skipped-outside-documented-domain(informational)", op.name)).or_default() += skipped;
                    }
                    // every index is a distinct case; non-trivial by rule = not skipped
                    for i in [start, start + count / 2, start + count - 1] {
                        st.nontrivial.insert(vkit::h64(format!("{}{}{}", op.name, mode, i).as_bytes()));
                    }
                    if st.samples.len() < 3 {
                        st.samples.push(describe(op, mode, start + count / 3, ctx.seed));
                    }
                }
                Err((f, r)) => {
                    if ctx.is_known(&f.sig) {
                        *st.known.entry(f.sig).or_default() += 1;
                    } else if !fails.iter().any(|(g, _)| g.sig == f.sig) {
                        fails.push((f, r));
                    }
                }
            }
        }
        st.exhaustive = ctx.tier == Tier::Thorough;
        st.wall_s = t0.elapsed().as_secs_f64();
        for (f, r) in fails {
            rec.violations.push(Violation { sub: self.name(), sig: f.sig, msg: f.msg, case: serde_json::to_value(r).unwrap() });
        }
    }
    fn replay(&self, _ctx: &Ctx, case: &Value) -> Check {
        let r: Repro = serde_json::from_value(case.clone()).map_err(|e| Fail::new("replay/decode", e.to_string()))?;
        let all = ops();
        let op = all.iter().find(|o| o.name == r.op).ok_or_else(|| Fail::new("replay/decode", "unknown op"))?;
        compare_range(op, &r.mode, r.index, 1, r.seed).map(|_| ()).map_err(|(f, _)| f)
    }
}

/// Closure, symmetry and range invariants in a single (release) build.
struct ClosureSub;

#[derive(Clone, Debug, Serialize, Deserialize)]
struct Bits {
    op: String,
    bits: Vec<u32>,
}

fn closure_check(op: &Op, w: &[u32], out: &[u32]) -> Check {
    if op.scalar_out {
        for o in out {
            if !closure_ok(*o) {
                return Err(Fail::new(
                    format!("C19/{}/non-canonical-scalar-result", op.name),
                    format!("{} on {:?} returned bits {o:#010x} ({:e}): -0.0, subnormal or non-canonical NaN", op.name, w.iter().map(|b| format!("{b:#010x}")).collect::<Vec<_>>(), f32::from_bits(*o)),
                ));
            }
        }
    }
    if op.name == "scalar_sin_cos" {
        let x = F32Scalar::new(f32::from_bits(w[0]));
        let (sn, cs) = x.sin_cos();
        let (sm, cm) = (-x).sin_cos();
        let neg_sn = (-sn).to_f32().to_bits();
        if sm.to_f32().to_bits() != neg_sn {
            return Err(Fail::new("C19/sin-not-odd", format!("sin(-x) bits {:#010x} != -sin(x) bits {:#010x} at x bits {:#010x}", sm.to_f32().to_bits(), neg_sn, w[0])));
        }
        if cm.to_f32().to_bits() != cs.to_f32().to_bits() {
            return Err(Fail::new("C19/cos-not-even", format!("cos(-x) != cos(x) at x bits {:#010x}", w[0])));
        }
        for v in [sn.to_f32(), cs.to_f32()] {
            if !(-1.0..=1.0).contains(&v) {
                return Err(Fail::new("C19/trig-out-of-range", format!("sin/cos = {v:e} outside [-1,1] at x bits {:#010x}", w[0])));
            }
        }
        if sn.to_f32().to_bits() != x.sin().to_f32().to_bits() || cs.to_f32().to_bits() != x.cos().to_f32().to_bits() {
            return Err(Fail::new("C19/sin_cos-disagrees-with-sin-and-cos", format!("x bits {:#010x}", w[0])));
        }
    }
    Ok(())
}

impl Sub for ClosureSub {
    fn name(&self) -> String {
        "closure-symmetry-range".into()
    }
    fn run(&self, ctx: &Ctx, rec: &mut Recorder) {
        let t0 = Instant::now();
        let all = ops();
        let sp = specials();
        let st = rec.subs.entry(self.name()).or_default();
        let mut fails: Vec<(Fail, Bits)> = Vec::new();
        let mut buf = Vec::new();
        let mut out = Vec::new();
        for op in all.iter().filter(|o| o.scalar_out) {
            let (mode, total): (&str, u64) = if op.words == 1 { if ctx.tier == Tier::Thorough { ("full", 1 << 32) } else { ("strat", 1 << 24) } } else { ("random", ctx.tier.pick(1 << 22, 1 << 26)) };
            let per = total / ctx.nshards as u64;
            let start = per * ctx.shard as u64;
            let mut n_boundary = 0u64;
            let mut run = |mode: &str, i: u64, st: &mut vkit::SubStats, fails: &mut Vec<(Fail, Bits)>| {
                inputs_for(op, mode, i, ctx.seed, &sp, &mut buf);
                if skip(op, &buf) {
                    return;
                }
                out.clear();
                (op.f)(&buf, &mut out);
                st.evaluations += 1;
                if let Err(fl) = closure_check(op, &buf, &out) {
                    if !fails.iter().any(|(g, _)| g.sig == fl.sig) {
                        fails.push((fl, Bits { op: op.name.into(), bits: buf.clone() }));
                    }
                }
            };
            for i in start..start + per {
                run(mode, i, st, &mut fails);
            }
            let sp_total = if op.words == 1 { sp.len() as u64 } else { (CORE * CORE) as u64 };
            for i in (ctx.shard as u64..sp_total).step_by(ctx.nshards as usize) {
                run("special", i, st, &mut fails);
                n_boundary += 1;
                st.nontrivial.insert((op.name.len() as u64) << 56 ^ (op.name.as_bytes()[7.min(op.name.len() - 1)] as u64) << 48 ^ i);
            }
            *st.classes.entry(format!("{}:{}", op.name, mode)).or_default() += per;
            *st.classes.entry(format!("{}:special", op.name)).or_default() += n_boundary;
        }
        st.cases = st.evaluations;
        st.samples.push(json!({"op": "scalar_sin_cos", "input_bits": "0x40490fdb", "note": "pi; outputs checked for closure, oddness, evenness, range"}));
        st.exhaustive = ctx.tier == Tier::Thorough;
        st.wall_s = t0.elapsed().as_secs_f64();
        for (f, b) in fails {
            rec.violations.push(Violation { sub: self.name(), sig: f.sig, msg: f.msg, case: serde_json::to_value(b).unwrap() });
        }
    }
    fn replay(&self, _ctx: &Ctx, case: &Value) -> Check {
        let b: Bits = serde_json::from_value(case.clone()).map_err(|e| Fail::new("replay/decode", e.to_string()))?;
        let all = ops();
        let op = all.iter().find(|o| o.name == b.op).ok_or_else(|| Fail::new("replay/decode", "unknown op"))?;
        let mut out = Vec::new();
        (op.f)(&b.bits, &mut out);
        closure_check(op, &b.bits, &out)
    }
}

fn subs(_ctx: &Ctx) -> Vec<Box<dyn Sub>> {
    vec![Box::new(ClosureSub), Box::new(DiffSub)]
}

fn main() {
    let args: Vec<String> = std::env::args().collect();
    if args.len() >= 7 && args[1] == "--digest" {
        digest_main(&args[2..]);
    }
    if args.len() >= 6 && args[1] == "--dump" {
        let all = ops();
        let op = all.iter().find(|o| o.name == args[2]).expect("op");
        let sp = specials();
        let mut buf = Vec::new();
        inputs_for(op, &args[3], args[4].parse().unwrap(), args[5].parse().unwrap(), &sp, &mut buf);
        let mut out = Vec::new();
        (op.f)(&buf, &mut out);
        println!("{:?} -> {}", buf.iter().map(|b| format!("{b:#010x}")).collect::<Vec<_>>(), out.iter().map(|b| format!("{b:08x}")).collect::<Vec<_>>().join(" "));
        return;
    }
    vkit::main(vec![Property {
        id: "C19",
        level: "exploration",
        rule: "Inputs are integer-indexed streams (pure functions of VERIF_SEED and the index, identical in every build). Unary ops (F32Scalar::new, neg, sin, cos, sin_cos, deg/rad, fixed_q32_32 from/to f32, ABI fx_from_f32 + canonicalize_f32, PRNG seeded from the input): quick = a stratified 2^24 sample covering every sign x exponent with 2^15 mantissas each plus ~2 000 specials (+-0, subnormals, infinities, NaN payloads, +-4 ulp around k*pi/2 for k<=64, LUT segment boundaries); thorough = all 2^32 bit patterns. Binary/n-ary ops (F32Scalar add/sub/mul/div, DFix64 lane, Vec3, Quat, Mat4): specials x specials exhaustively plus 2^19 (quick) / 2^24 (thorough) seeded tuples with 1/8 specials and 1/8 moderate-magnitude floats. (1) profile differential: the harness binary is built three times (dev opt0+debug assertions, release opt3, the repo's release profile opt s+lto+1cgu); BLAKE3 digests of output bit patterns per chunk must be equal, a mismatch is bisected to the minimal input index; a panic on a finite in-domain input in any profile is a violation. (2) single-build invariants on every F32Scalar result: never -0.0, subnormal or non-canonical NaN; sin(-x) bits == -sin(x) bits; cos(-x) bits == cos(x) bits; both within [-1,1]; sin_cos == (sin, cos). Non-finite inputs to functions that debug_assert finiteness are skipped identically in all builds and tallied as informational. Non-trivial = special/boundary inputs (counted distinctly) and chunk probes.",
        assumptions: &[
            "optimisation-level differential on this x86-64 machine only; cross-ISA stability is out of reach in the sandbox",
            "totality is claimed for finite inputs of the documented domain (trig and Quat::new debug_assert finiteness)",
        ],
        subs,
        max_shards: 16,
    }])
}
