//! vkit — shared machinery for the /verif property checks.
//!
//! * every random choice goes through proptest strategies driven by a `TestRng`
//!   seeded from H(VERIF_SEED, property, sub-check, shard);
//! * parallelism is by process sharding (`--shard i/n`), the parent merges;
//! * a failure is shrunk by proptest, serialised to /verif/replays/<ID>/<hash>.json,
//!   and reported as `VIOLATION property=<ID> replay=<path>` (exit 1);
//! * exit 2 = inconclusive (harness problem, watchdog), never a violation.

use proptest::strategy::{Strategy, ValueTree};
use proptest::test_runner::{Config, RngAlgorithm, TestCaseError, TestError, TestRng, TestRunner};
use serde::de::DeserializeOwned;
use serde::{Deserialize, Serialize};
use serde_json::{json, Value};
use std::cell::RefCell;
use std::collections::{BTreeMap, BTreeSet};
use std::fmt::Debug;
use std::path::{Path, PathBuf};
use std::time::Instant;

pub use proptest;
pub use serde;
pub use serde_json;

pub const VERIF_ROOT: &str = "/verif";

#[derive(Clone, Copy, Debug, PartialEq, Eq)]
pub enum Tier {
    Quick,
    Thorough,
}
impl Tier {
    pub fn as_str(self) -> &'static str {
        match self {
            Tier::Quick => "quick",
            Tier::Thorough => "thorough",
        }
    }
    pub fn pick<T>(self, quick: T, thorough: T) -> T {
        match self {
            Tier::Quick => quick,
            Tier::Thorough => thorough,
        }
    }
}

#[derive(Clone, Debug)]
pub struct Ctx {
    pub id: String,
    pub tier: Tier,
    pub seed: u64,
    pub shard: u32,
    pub nshards: u32,
    /// strict = replay mode: known findings are NOT tolerated silently (still reported as known).
    pub replaying: bool,
    pub known: BTreeMap<String, KnownFinding>,
}

impl Ctx {
    /// Per-process scratch directory under /verif/target (never /tmp).
    pub fn scratch(&self, tag: &str) -> PathBuf {
        let p = PathBuf::from(VERIF_ROOT)
            .join("target")
            .join("scratch")
            .join(format!("{}-{}-{}-{}", self.id, tag, self.shard, std::process::id()));
        let _ = std::fs::remove_dir_all(&p);
        std::fs::create_dir_all(&p).expect("scratch dir");
        p
    }
    /// Scratch directory for fsync-heavy work: on tmpfs (/dev/shm) when available (a WAL
    /// workload syncs after every record; on a disk-backed filesystem that dominates the run
    /// time), else like `scratch`. Removed by the caller.
    pub fn fast_scratch(&self, tag: &str) -> PathBuf {
        let base = PathBuf::from("/dev/shm");
        if base.is_dir() {
            let p = base.join("verif-scratch").join(format!("{}-{}-{}-{}", self.id, tag, self.shard, std::process::id()));
            let _ = std::fs::remove_dir_all(&p);
            if std::fs::create_dir_all(&p).is_ok() {
                return p;
            }
        }
        self.scratch(tag)
    }
    pub fn is_known(&self, sig: &str) -> bool {
        self.known
            .get(sig)
            .map(|k| k.status == "known")
            .unwrap_or(false)
    }
    pub fn sub_seed(&self, sub: &str) -> [u8; 32] {
        let mut h = blake3::Hasher::new();
        h.update(b"verif-seed-v1");
        h.update(&self.seed.to_le_bytes());
        h.update(self.id.as_bytes());
        h.update(&[0]);
        h.update(sub.as_bytes());
        h.update(&[0]);
        h.update(&self.shard.to_le_bytes());
        h.update(&self.nshards.to_le_bytes());
        *h.finalize().as_bytes()
    }
}

#[derive(Clone, Debug, Serialize, Deserialize)]
pub struct KnownFinding {
    pub property: String,
    pub signature: String,
    pub status: String,
    #[serde(default)]
    pub description: String,
    #[serde(default)]
    pub commit: Option<String>,
}

pub fn load_known(id: &str) -> BTreeMap<String, KnownFinding> {
    let p = Path::new(VERIF_ROOT).join("known_findings.json");
    let mut out = BTreeMap::new();
    if let Ok(s) = std::fs::read_to_string(&p) {
        if let Ok(v) = serde_json::from_str::<Value>(&s) {
            if let Some(arr) = v.get("findings").and_then(|a| a.as_array()) {
                for e in arr {
                    if let Ok(k) = serde_json::from_value::<KnownFinding>(e.clone()) {
                        if k.property == id {
                            out.insert(k.signature.clone(), k);
                        }
                    }
                }
            }
        }
    }
    out
}

#[derive(Clone, Debug)]
pub struct Fail {
    pub sig: String,
    pub msg: String,
}
impl Fail {
    pub fn new(sig: impl Into<String>, msg: impl Into<String>) -> Self {
        Fail {
            sig: sig.into(),
            msg: msg.into(),
        }
    }
}
pub type Check = Result<(), Fail>;

#[macro_export]
macro_rules! vfail {
    ($sig:expr, $($arg:tt)*) => {
        return Err($crate::Fail::new($sig, format!($($arg)*)))
    };
}
#[macro_export]
macro_rules! vensure {
    ($cond:expr, $sig:expr, $($arg:tt)*) => {
        if !($cond) {
            return Err($crate::Fail::new($sig, format!($($arg)*)));
        }
    };
}
#[macro_export]
macro_rules! vensure_eq {
    ($a:expr, $b:expr, $sig:expr, $($arg:tt)*) => {
        if $a != $b {
            return Err($crate::Fail::new($sig, format!("{}: left={:?} right={:?}", format!($($arg)*), $a, $b)));
        }
    };
}

/// Per-case observations made by the property function.
#[derive(Default, Debug)]
pub struct Probe {
    pub nontrivial: bool,
    pub classes: Vec<String>,
    /// extra evaluations performed inside this case (e.g. permutations tried); default 1
    pub inner_evals: u64,
    pub known: Vec<String>,
    /// optional replacement for the case JSON as sample (smaller / more readable)
    pub sample_note: Option<Value>,
    /// additional distinct non-trivial sub-cases (hashes) explored inside this case
    pub extra_nontrivial: Vec<u64>,
}
impl Probe {
    pub fn nontrivial(&mut self) {
        self.nontrivial = true;
    }
    pub fn class(&mut self, c: impl Into<String>) {
        self.classes.push(c.into());
    }
    pub fn evals(&mut self, n: u64) {
        self.inner_evals += n;
    }
    pub fn known(&mut self, sig: impl Into<String>) {
        self.known.push(sig.into());
    }
    pub fn note(&mut self, v: Value) {
        self.sample_note = Some(v);
    }
    pub fn sub_nontrivial(&mut self, bytes: &[u8]) {
        self.extra_nontrivial.push(h64(bytes));
    }
}

/// BLAKE3 of the compact `{:?}` rendering of a value, streamed (no intermediate string):
/// a complete fingerprint of everything the derived Debug implementation shows.
pub fn debug_hash<T: Debug + ?Sized>(x: &T) -> [u8; 32] {
    struct W(blake3::Hasher);
    impl std::fmt::Write for W {
        fn write_str(&mut self, s: &str) -> std::fmt::Result {
            self.0.update(s.as_bytes());
            Ok(())
        }
    }
    let mut w = W(blake3::Hasher::new());
    let _ = std::fmt::write(&mut w, format_args!("{x:?}"));
    *w.0.finalize().as_bytes()
}

pub fn h64(bytes: &[u8]) -> u64 {
    let h = blake3::hash(bytes);
    u64::from_le_bytes(h.as_bytes()[..8].try_into().unwrap())
}

#[derive(Clone, Debug, Default, Serialize, Deserialize)]
pub struct SubStats {
    pub evaluations: u64,
    pub cases: u64,
    pub nontrivial: BTreeSet<u64>,
    pub classes: BTreeMap<String, u64>,
    pub samples: Vec<Value>,
    pub known: BTreeMap<String, u64>,
    pub exhaustive: bool,
    pub wall_s: f64,
}

#[derive(Clone, Debug, Serialize, Deserialize)]
pub struct Violation {
    pub sub: String,
    pub sig: String,
    pub msg: String,
    pub case: Value,
}

#[derive(Clone, Debug, Default, Serialize, Deserialize)]
pub struct Recorder {
    pub subs: BTreeMap<String, SubStats>,
    pub violations: Vec<Violation>,
    pub notes: Vec<String>,
    /// harness trouble that prevents a verdict (exit 2, never a violation)
    #[serde(default)]
    pub inconclusive: Vec<String>,
}

const SAMPLE_CAP: usize = 3;
const SAMPLE_MAX_CHARS: usize = 2400;

fn clip_sample(v: Value) -> Value {
    let s = v.to_string();
    if s.len() <= SAMPLE_MAX_CHARS {
        v
    } else {
        let mut cut = SAMPLE_MAX_CHARS;
        while !s.is_char_boundary(cut) {
            cut -= 1;
        }
        json!({ "truncated_json": &s[..cut], "full_len": s.len() })
    }
}

impl Recorder {
    pub fn sub(&mut self, name: &str) -> &mut SubStats {
        self.subs.entry(name.to_string()).or_default()
    }
    fn absorb(&mut self, sub: &str, case_json: impl FnOnce() -> Value, probe: Probe) {
        let st = self.sub(sub);
        st.cases += 1;
        st.evaluations += probe.inner_evals.max(1);
        for c in &probe.classes {
            *st.classes.entry(c.clone()).or_default() += 1;
        }
        for k in &probe.known {
            *st.known.entry(k.clone()).or_default() += 1;
        }
        for h in &probe.extra_nontrivial {
            st.nontrivial.insert(*h);
        }
        if probe.nontrivial {
            let cj = case_json();
            let s = cj.to_string();
            let fresh = st.nontrivial.insert(h64(s.as_bytes()));
            if fresh && st.samples.len() < SAMPLE_CAP {
                st.samples
                    .push(clip_sample(probe.sample_note.clone().unwrap_or(cj)));
            }
        } else if (!probe.extra_nontrivial.is_empty() && st.samples.len() < SAMPLE_CAP)
            || (st.samples.is_empty() && st.cases == 1)
        {
            // cases that contribute non-trivial sub-cases (or, failing that, the very first
            // case) are sampled too, so that evidence always shows what a case looks like
            st.samples
                .push(clip_sample(probe.sample_note.clone().unwrap_or_else(case_json)));
        }
    }
    pub fn merge(&mut self, other: Recorder) {
        for (k, v) in other.subs {
            let st = self.subs.entry(k).or_default();
            st.evaluations += v.evaluations;
            st.cases += v.cases;
            st.nontrivial.extend(v.nontrivial);
            for (c, n) in v.classes {
                *st.classes.entry(c).or_default() += n;
            }
            for (c, n) in v.known {
                *st.known.entry(c).or_default() += n;
            }
            for s in v.samples {
                if st.samples.len() < SAMPLE_CAP {
                    st.samples.push(s);
                }
            }
            st.exhaustive = st.exhaustive || v.exhaustive;
            st.wall_s = st.wall_s.max(v.wall_s);
        }
        self.violations.extend(other.violations);
        self.notes.extend(other.notes);
        self.inconclusive.extend(other.inconclusive);
    }
}

pub trait Sub {
    fn name(&self) -> String;
    fn run(&self, ctx: &Ctx, rec: &mut Recorder);
    fn replay(&self, ctx: &Ctx, case: &Value) -> Check;
}

/// Run `f`, converting a panic into a `Fail` with signature `<prefix>/panic`.
pub fn catch<T>(f: impl FnOnce() -> T) -> Result<T, String> {
    match std::panic::catch_unwind(std::panic::AssertUnwindSafe(f)) {
        Ok(v) => Ok(v),
        Err(p) => Err(panic_message(&p)),
    }
}

pub fn panic_message(p: &Box<dyn std::any::Any + Send>) -> String {
    if let Some(s) = p.downcast_ref::<&str>() {
        (*s).to_string()
    } else if let Some(s) = p.downcast_ref::<String>() {
        s.clone()
    } else {
        "<non-string panic payload>".to_string()
    }
}

// -------------------------------------------------------------------------
// proptest-driven sub-check

pub struct PropSub<V, S, F> {
    pub name: String,
    pub quick: u32,
    pub thorough: u32,
    pub strat: S,
    pub f: F,
    pub _v: std::marker::PhantomData<V>,
}

pub fn prop_sub<V, S, F>(name: &str, quick: u32, thorough: u32, strat: S, f: F) -> Box<dyn Sub>
where
    V: Debug + Serialize + DeserializeOwned + 'static,
    S: Strategy<Value = V> + 'static,
    F: Fn(&Ctx, &V, &mut Probe) -> Check + 'static,
{
    Box::new(PropSub {
        name: name.to_string(),
        quick,
        thorough,
        strat,
        f,
        _v: std::marker::PhantomData,
    })
}

fn run_case<V, F>(ctx: &Ctx, f: &F, v: &V, probe: &mut Probe) -> Check
where
    F: Fn(&Ctx, &V, &mut Probe) -> Check,
{
    let r = match std::panic::catch_unwind(std::panic::AssertUnwindSafe(|| f(ctx, v, probe))) {
        Ok(r) => r,
        Err(p) => Err(Fail::new(
            format!("{}/harness-or-target-panic", ctx.id),
            format!("panic escaped property function: {}", panic_message(&p)),
        )),
    };
    match r {
        Err(fail) if ctx.is_known(&fail.sig) => {
            probe.known(fail.sig);
            Ok(())
        }
        other => other,
    }
}

impl<V, S, F> Sub for PropSub<V, S, F>
where
    V: Debug + Serialize + DeserializeOwned + 'static,
    S: Strategy<Value = V> + 'static,
    F: Fn(&Ctx, &V, &mut Probe) -> Check + 'static,
{
    fn name(&self) -> String {
        self.name.clone()
    }
    fn run(&self, ctx: &Ctx, rec: &mut Recorder) {
        let total = ctx.tier.pick(self.quick, self.thorough);
        let per = (total + ctx.nshards - 1) / ctx.nshards;
        if per == 0 {
            return;
        }
        let t0 = Instant::now();
        let cfg = Config {
            cases: per,
            failure_persistence: None,
            max_shrink_iters: 3000,
            max_global_rejects: 1_000_000,
            max_local_rejects: 1_000_000,
            verbose: 0,
            ..Config::default()
        };
        let rng = TestRng::from_seed(RngAlgorithm::ChaCha, &ctx.sub_seed(&self.name));
        let mut runner = TestRunner::new_with_rng(cfg, rng);
        let failed = std::cell::Cell::new(false);
        let last_fail: RefCell<Option<Fail>> = RefCell::new(None);
        let recc = RefCell::new(std::mem::take(rec));
        let name = self.name.clone();
        let res = runner.run(&self.strat, |v| {
            let mut probe = Probe::default();
            let r = run_case(ctx, &self.f, &v, &mut probe);
            match r {
                Ok(()) => {
                    if !failed.get() {
                        recc.borrow_mut().absorb(
                            &name,
                            || serde_json::to_value(&v).unwrap_or(Value::Null),
                            probe,
                        );
                    }
                    Ok(())
                }
                Err(fail) => {
                    failed.set(true);
                    let m = format!("{} :: {}", fail.sig, fail.msg);
                    *last_fail.borrow_mut() = Some(fail);
                    Err(TestCaseError::fail(m))
                }
            }
        });
        *rec = recc.into_inner();
        match res {
            Ok(()) => {}
            Err(TestError::Fail(_reason, v)) => {
                // re-run the minimal case to get its own sig/msg (last_fail may be from a
                // non-minimal candidate)
                let mut probe = Probe::default();
                let fail = match run_case(ctx, &self.f, &v, &mut probe) {
                    Err(f) => f,
                    Ok(()) => last_fail
                        .borrow()
                        .clone()
                        .unwrap_or_else(|| Fail::new("unknown", "flaky: minimal case passed on re-run")),
                };
                rec.violations.push(Violation {
                    sub: self.name.clone(),
                    sig: fail.sig,
                    msg: fail.msg,
                    case: serde_json::to_value(&v).unwrap_or(Value::Null),
                });
            }
            Err(TestError::Abort(reason)) => {
                rec.notes
                    .push(format!("sub {} aborted (generator health): {}", self.name, reason));
            }
        }
        let st = rec.sub(&self.name);
        st.wall_s = t0.elapsed().as_secs_f64();
    }
    fn replay(&self, ctx: &Ctx, case: &Value) -> Check {
        let v: V = serde_json::from_value(case.clone())
            .map_err(|e| Fail::new("replay/decode", format!("cannot decode case: {e}")))?;
        let mut probe = Probe::default();
        run_case(ctx, &self.f, &v, &mut probe)
    }
}

// -------------------------------------------------------------------------
// enumerated (RNG-free) sub-check

pub struct EnumSub<V, G, F> {
    pub name: String,
    pub gen: G,
    pub f: F,
    pub exhaustive: fn(Tier) -> bool,
    pub _v: std::marker::PhantomData<V>,
}

pub fn enum_sub<V, G, F>(name: &str, exhaustive: fn(Tier) -> bool, gen: G, f: F) -> Box<dyn Sub>
where
    V: Debug + Serialize + DeserializeOwned + 'static,
    G: Fn(&Ctx) -> Box<dyn Iterator<Item = V>> + 'static,
    F: Fn(&Ctx, &V, &mut Probe) -> Check + 'static,
{
    Box::new(EnumSub {
        name: name.to_string(),
        gen,
        f,
        exhaustive,
        _v: std::marker::PhantomData,
    })
}

impl<V, G, F> Sub for EnumSub<V, G, F>
where
    V: Debug + Serialize + DeserializeOwned + 'static,
    G: Fn(&Ctx) -> Box<dyn Iterator<Item = V>> + 'static,
    F: Fn(&Ctx, &V, &mut Probe) -> Check + 'static,
{
    fn name(&self) -> String {
        self.name.clone()
    }
    fn run(&self, ctx: &Ctx, rec: &mut Recorder) {
        let t0 = Instant::now();
        let mut nviol = 0;
        for (i, v) in (self.gen)(ctx).enumerate() {
            if (i as u32) % ctx.nshards != ctx.shard {
                continue;
            }
            let mut probe = Probe::default();
            match run_case(ctx, &self.f, &v, &mut probe) {
                Ok(()) => rec.absorb(
                    &self.name,
                    || serde_json::to_value(&v).unwrap_or(Value::Null),
                    probe,
                ),
                Err(fail) => {
                    // distinct signatures only; cap
                    if !rec
                        .violations
                        .iter()
                        .any(|x| x.sub == self.name && x.sig == fail.sig)
                    {
                        rec.violations.push(Violation {
                            sub: self.name.clone(),
                            sig: fail.sig,
                            msg: fail.msg,
                            case: serde_json::to_value(&v).unwrap_or(Value::Null),
                        });
                    }
                    nviol += 1;
                    if nviol > 50 {
                        break;
                    }
                }
            }
        }
        let st = rec.sub(&self.name);
        st.exhaustive = (self.exhaustive)(ctx.tier);
        st.wall_s = t0.elapsed().as_secs_f64();
    }
    fn replay(&self, ctx: &Ctx, case: &Value) -> Check {
        let v: V = serde_json::from_value(case.clone())
            .map_err(|e| Fail::new("replay/decode", format!("cannot decode case: {e}")))?;
        let mut probe = Probe::default();
        run_case(ctx, &self.f, &v, &mut probe)
    }
}

/// Draw one value from a strategy with a fixed seed (for building deterministic fixtures
/// from generators, e.g. corpus seeds).
pub fn draw<S: Strategy>(strat: &S, seed: &[u8; 32]) -> S::Value {
    let rng = TestRng::from_seed(RngAlgorithm::ChaCha, seed);
    let mut runner = TestRunner::new_with_rng(Config::default(), rng);
    strat.new_tree(&mut runner).expect("draw").current()
}

/// Monotone index map (shrinks with its argument): choose an index in 0..len from a u16.
pub fn pick_idx(i: u16, len: usize) -> usize {
    if len == 0 {
        0
    } else {
        ((i as usize) * len) >> 16
    }
}

// -------------------------------------------------------------------------
// property registry + main

pub struct Property {
    pub id: &'static str,
    /// "exploration" | "fault_enumeration"
    pub level: &'static str,
    pub rule: &'static str,
    pub assumptions: &'static [&'static str],
    pub subs: fn(&Ctx) -> Vec<Box<dyn Sub>>,
    /// maximal number of shards worth using (1 = run in a single child)
    pub max_shards: u32,
}

struct Args {
    id: String,
    tier: Tier,
    replay: Option<PathBuf>,
    shard: Option<(u32, u32)>,
    out: Option<PathBuf>,
    only_sub: Option<String>,
    nshards: Option<u32>,
}

fn parse_args() -> Args {
    let mut a = Args {
        id: String::new(),
        tier: match std::env::var("VERIF_TIER").ok().as_deref() {
            Some("thorough") => Tier::Thorough,
            _ => Tier::Quick,
        },
        replay: None,
        shard: None,
        out: None,
        only_sub: None,
        nshards: None,
    };
    let mut it = std::env::args().skip(1);
    while let Some(x) = it.next() {
        match x.as_str() {
            "--tier" => {
                a.tier = match it.next().as_deref() {
                    Some("thorough") => Tier::Thorough,
                    Some("quick") => Tier::Quick,
                    other => usage(&format!("bad tier {other:?}")),
                }
            }
            "--replay" => a.replay = Some(PathBuf::from(it.next().unwrap_or_else(|| usage("--replay needs a path")))),
            "--shard" => {
                let s = it.next().unwrap_or_else(|| usage("--shard i/n"));
                let (i, n) = s.split_once('/').unwrap_or_else(|| usage("--shard i/n"));
                a.shard = Some((i.parse().unwrap(), n.parse().unwrap()));
            }
            "--out" => a.out = Some(PathBuf::from(it.next().unwrap())),
            "--sub" => a.only_sub = it.next(),
            "--shards" => a.nshards = it.next().and_then(|s| s.parse().ok()),
            s if a.id.is_empty() && !s.starts_with('-') => a.id = s.to_string(),
            other => usage(&format!("unknown argument {other}")),
        }
    }
    if a.id.is_empty() {
        usage("missing property id");
    }
    a
}

fn usage(msg: &str) -> ! {
    eprintln!("error: {msg}\nusage: <bin> <ID> [--tier quick|thorough] [--replay FILE] [--sub NAME] [--shards N]");
    std::process::exit(2);
}

fn seed_from_env() -> u64 {
    std::env::var("VERIF_SEED")
        .ok()
        .and_then(|s| {
            s.trim()
                .parse::<u64>()
                .ok()
                .or_else(|| s.trim().parse::<i64>().ok().map(|v| v as u64))
        })
        .unwrap_or(0)
}

pub fn quiet_panics() {
    std::panic::set_hook(Box::new(|_| {}));
}

pub fn main(props: Vec<Property>) -> ! {
    let args = parse_args();
    let prop = match props.iter().find(|p| p.id == args.id) {
        Some(p) => p,
        None => {
            eprintln!("this binary does not implement {}", args.id);
            std::process::exit(2);
        }
    };
    let seed = seed_from_env();
    let known = load_known(prop.id);

    if let Some(path) = &args.replay {
        quiet_panics();
        let ctx = Ctx {
            id: prop.id.to_string(),
            tier: args.tier,
            seed,
            shard: 0,
            nshards: 1,
            replaying: true,
            known: BTreeMap::new(), // strict: nothing tolerated
        };
        let txt = std::fs::read_to_string(path).unwrap_or_else(|e| {
            eprintln!("cannot read replay {path:?}: {e}");
            std::process::exit(2)
        });
        let v: Value = serde_json::from_str(&txt).unwrap_or_else(|e| {
            eprintln!("cannot parse replay {path:?}: {e}");
            std::process::exit(2)
        });
        let sub_name = v.get("sub").and_then(|s| s.as_str()).unwrap_or("");
        let subs = (prop.subs)(&ctx);
        let sub = subs.iter().find(|s| s.name() == sub_name).unwrap_or_else(|| {
            eprintln!("replay names unknown sub-check {sub_name:?}");
            std::process::exit(2)
        });
        match sub.replay(&ctx, v.get("case").unwrap_or(&Value::Null)) {
            Ok(()) => {
                println!("replay: property={} sub={} PASS", prop.id, sub_name);
                std::process::exit(0);
            }
            Err(f) => {
                println!("replay: {} :: {}", f.sig, f.msg);
                if known.get(&f.sig).map(|k| k.status == "known").unwrap_or(false) {
                    println!("KNOWN-FINDING: property={} {}", prop.id, f.sig);
                    std::process::exit(0);
                }
                println!("VIOLATION property={} replay={}", prop.id, path.display());
                std::process::exit(1);
            }
        }
    }

    if let Some((i, n)) = args.shard {
        // child mode
        quiet_panics();
        let ctx = Ctx {
            id: prop.id.to_string(),
            tier: args.tier,
            seed,
            shard: i,
            nshards: n,
            replaying: false,
            known,
        };
        let mut rec = Recorder::default();
        for sub in (prop.subs)(&ctx) {
            if let Some(only) = &args.only_sub {
                if &sub.name() != only {
                    continue;
                }
            }
            sub.run(&ctx, &mut rec);
        }
        let out = args.out.expect("--out");
        std::fs::write(&out, serde_json::to_vec(&rec).unwrap()).expect("write shard output");
        std::process::exit(0);
    }

    // parent mode
    let t0 = Instant::now();
    let ncpu = std::thread::available_parallelism().map(|n| n.get() as u32).unwrap_or(4);
    let n = args.nshards.unwrap_or(ncpu.min(16)).min(prop.max_shards).max(1);
    let dir = PathBuf::from(VERIF_ROOT)
        .join("target")
        .join("shards")
        .join(format!("{}-{}", prop.id, std::process::id()));
    let _ = std::fs::remove_dir_all(&dir);
    std::fs::create_dir_all(&dir).expect("shard dir");
    let exe = std::env::current_exe().expect("current_exe");
    let mut children = Vec::new();
    for i in 0..n {
        let out = dir.join(format!("{i}.json"));
        let mut cmd = std::process::Command::new(&exe);
        cmd.arg(prop.id)
            .arg("--tier")
            .arg(args.tier.as_str())
            .arg("--shard")
            .arg(format!("{i}/{n}"))
            .arg("--out")
            .arg(&out)
            .env("VERIF_SEED", seed.to_string());
        if let Some(s) = &args.only_sub {
            cmd.arg("--sub").arg(s);
        }
        let child = cmd.spawn().expect("spawn shard");
        children.push((i, child, out));
    }
    let budget_s: u64 = std::env::var("VERIF_WATCHDOG_S")
        .ok()
        .and_then(|s| s.parse().ok())
        .unwrap_or(args.tier.pick(1500, 6 * 3600));
    let mut rec = Recorder::default();
    let mut inconclusive: Vec<String> = Vec::new();
    for (i, mut child, out) in children {
        let status = loop {
            match child.try_wait() {
                Ok(Some(st)) => break Some(st),
                Ok(None) => {
                    if t0.elapsed().as_secs() > budget_s {
                        let _ = child.kill();
                        let _ = child.wait();
                        break None;
                    }
                    std::thread::sleep(std::time::Duration::from_millis(50));
                }
                Err(_) => break None,
            }
        };
        match status {
            Some(st) if st.success() => match std::fs::read(&out)
                .ok()
                .and_then(|b| serde_json::from_slice::<Recorder>(&b).ok())
            {
                Some(r) => rec.merge(r),
                None => inconclusive.push(format!("shard {i}: unreadable output")),
            },
            Some(st) => inconclusive.push(format!("shard {i}: exited with {st}")),
            None => inconclusive.push(format!("shard {i}: watchdog ({budget_s}s) — inconclusive")),
        }
    }
    let _ = std::fs::remove_dir_all(&dir);
    inconclusive.extend(rec.inconclusive.iter().cloned());
    let wall = t0.elapsed().as_secs_f64();

    // replays for violations (dedupe by sub+sig)
    let mut seen = BTreeSet::new();
    let mut vio_lines = Vec::new();
    for v in &rec.violations {
        if !seen.insert((v.sub.clone(), v.sig.clone())) {
            continue;
        }
        let body = json!({"property": prop.id, "sub": v.sub, "sig": v.sig, "msg": v.msg, "case": v.case});
        let s = serde_json::to_string_pretty(&body).unwrap();
        let name = hex::encode(&blake3::hash(s.as_bytes()).as_bytes()[..8]);
        let rdir = std::env::var("VERIF_REPLAY_DIR").map(PathBuf::from).unwrap_or_else(|_| PathBuf::from(VERIF_ROOT).join("replays")).join(prop.id);
        let _ = std::fs::create_dir_all(&rdir);
        let path = rdir.join(format!("{name}.json"));
        let _ = std::fs::write(&path, s);
        vio_lines.push((path, v.sig.clone(), v.msg.clone()));
    }

    write_evidence(prop, args.tier, seed, &rec, wall, vio_lines.len(), &inconclusive, n);

    let mut known_seen: BTreeMap<String, u64> = BTreeMap::new();
    for st in rec.subs.values() {
        for (k, c) in &st.known {
            *known_seen.entry(k.clone()).or_default() += c;
        }
    }
    for (k, c) in &known_seen {
        println!("KNOWN-FINDING: property={} {} (matched {} cases this run)", prop.id, k, c);
    }
    for note in &rec.notes {
        eprintln!("note: {note}");
    }
    let evals: u64 = rec.subs.values().map(|s| s.evaluations).sum();
    let nontriv: usize = rec.subs.values().map(|s| s.nontrivial.len()).sum();
    eprintln!(
        "{} tier={} seed={} shards={} evaluations={} distinct_nontrivial={} wall={:.1}s",
        prop.id,
        args.tier.as_str(),
        seed,
        n,
        evals,
        nontriv,
        wall
    );
    if !vio_lines.is_empty() {
        for (p, sig, msg) in &vio_lines {
            let short: String = msg.chars().take(600).collect();
            println!("violation: {sig} :: {short}");
            println!("VIOLATION property={} replay={}", prop.id, p.display());
        }
        std::process::exit(1);
    }
    if !inconclusive.is_empty() {
        for m in &inconclusive {
            eprintln!("inconclusive: {m}");
        }
        std::process::exit(2);
    }
    std::process::exit(0);
}

#[allow(clippy::too_many_arguments)]
fn write_evidence(
    prop: &Property,
    tier: Tier,
    seed: u64,
    rec: &Recorder,
    wall: f64,
    nviol: usize,
    inconclusive: &[String],
    shards: u32,
) {
    let evals: u64 = rec.subs.values().map(|s| s.evaluations).sum();
    let nontriv: usize = rec.subs.values().map(|s| s.nontrivial.len()).sum();
    let mut samples = Vec::new();
    let mut per_sub = serde_json::Map::new();
    let mut all_exh = !rec.subs.is_empty();
    let mut known_total = serde_json::Map::new();
    for (name, st) in &rec.subs {
        for s in st.samples.iter().take(2) {
            samples.push(json!({"sub": name, "case": s}));
        }
        all_exh &= st.exhaustive;
        per_sub.insert(
            name.clone(),
            json!({
                "cases": st.cases,
                "evaluations": st.evaluations,
                "distinct_nontrivial": st.nontrivial.len(),
                "classes": st.classes,
                "exhaustive": st.exhaustive,
                "known_findings_matched": st.known,
                "wall_s": (st.wall_s * 100.0).round() / 100.0,
            }),
        );
        for (k, c) in &st.known {
            let e = known_total.entry(k.clone()).or_insert(json!(0));
            *e = json!(e.as_u64().unwrap_or(0) + c);
        }
    }
    let ev = json!({
        "property_id": prop.id,
        "tier": tier.as_str(),
        "seed": seed as i64,
        "level": prop.level,
        "coverage": {
            "evaluations": evals,
            "distinct_nontrivial": nontriv,
            "rule": prop.rule,
            "samples": samples,
            "exhaustive": all_exh,
            "sub_checks": per_sub,
            "shards": shards,
            "known_findings_matched": known_total,
            "inconclusive": inconclusive,
            "notes": rec.notes,
        },
        "assumptions": prop.assumptions,
        "wall_s": (wall * 100.0).round() / 100.0,
        "violations": nviol as i64,
    });
    // VERIF_EVIDENCE_DIR: seeded-change trials (tools/try_mutant.sh) must not overwrite the evidence of /repo itself
    let dir = std::env::var("VERIF_EVIDENCE_DIR").map(PathBuf::from).unwrap_or_else(|_| PathBuf::from(VERIF_ROOT).join("evidence"));
    let _ = std::fs::create_dir_all(&dir);
    let _ = std::fs::write(
        dir.join(format!("{}.json", prop.id)),
        serde_json::to_string_pretty(&ev).unwrap(),
    );
}
