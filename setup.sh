#!/usr/bin/env bash
# Build the whole harness offline from files on disk. Run once after a fresh restore.
set -eu
cd "$(dirname "$0")/harness"
export CARGO_NET_OFFLINE=true
mkdir -p /verif/target /verif/evidence /verif/replays
cargo build --release --workspace 2>&1 | tail -n 5
