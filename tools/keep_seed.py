#!/usr/bin/env python3
"""keep_seed.py <worktree id> <name> <detected_by json>  — copy an agent-made seeded change into /verif/seeded/<name>/ with my own confirmation."""
import json, os, shutil, sys, re
wid, name, detected = sys.argv[1], sys.argv[2], json.loads(sys.argv[3])
src = f"/tmp/wt-{wid}/seed"; dst = f"/verif/seeded/{name}"
os.makedirs(dst, exist_ok=True)
shutil.copy(f"{src}/patch.diff", f"{dst}/patch.diff")
if os.path.isdir(f"{dst}/demo"): shutil.rmtree(f"{dst}/demo")
shutil.copytree(f"{src}/demo", f"{dst}/demo")
meta = json.load(open(f"{src}/meta.json"))
log = open(f"/tmp/wt-{wid}/confirm.log").read()
conf = {
  "demo_with_change_rc": int(re.search(r"demo_with_rc=(\d+)", log).group(1)),
  "demo_without_change_rc": int(re.search(r"demo_without_rc=(\d+)", log).group(1)),
  "suite_summaries_with_change": re.findall(r"Summary.*", log),
  "how": "tools/confirm_seed.sh / tools/confirm_shared.sh in a scratch worktree at /repo HEAD: cargo test -p <crate> --test <demo> with the change (must fail) and with the patch reversed (must pass); cargo nextest run -p <crate> with default features and (warp-core) with native_rule_bootstrap,trusted_runtime,host_test, demo excluded (only the known always-failing baseline test may fail); the patch is applied to /repo with git apply --check by tools/try_mutant.sh",
}
out = {"breaks_property": meta.get("breaks_property") or meta.get("property"), "origin": "fresh sub-agent given only the property text and a scratch worktree",
       "summary": meta.get("summary"), "needs_to_manifest": meta.get("needs_to_manifest"), "files_changed": meta.get("files_changed"),
       "demo_command": meta.get("demo_command"), "demo_place": meta.get("demo_place"), "agent_tests_run": meta.get("agent_tests_run") or meta.get("tests_run"),
       "my_confirmation": conf, "detected_by": detected}
json.dump(out, open(f"{dst}/meta.json", "w"), indent=1)
print("kept", dst, conf["demo_with_change_rc"], conf["demo_without_change_rc"], conf["suite_summaries_with_change"])
