#!/bin/bash
# usage: sweep.sh <tier> <seed> <ids...>  — run checks sequentially, log rc and time
TIER=$1; SEED=$2; shift 2
cd /verif
for id in "$@"; do
  s=$(date +%s)
  VERIF_SEED=$SEED ./check $id --tier $TIER > /verif/target/sweep-$TIER-$id.log 2>&1
  rc=$?
  echo "$id tier=$TIER seed=$SEED rc=$rc $(( $(date +%s)-s ))s viol=$(grep -c '^VIOLATION' /verif/target/sweep-$TIER-$id.log)"
done
