#!/bin/bash
# usage: confirm_seed.sh <ID> <crate> [demo features]   — run in the agent's worktree /tmp/wt-<ID>:
# demo with the change (must fail), demo without (must pass), the crate's suite with the change
# (default features; for warp-core also the feature run). Writes /tmp/wt-<ID>/confirm.log
ID=$1; CRATE=$2; FEAT=${3:-}
WT=/tmp/wt-$ID; cd $WT || exit 2
export CARGO_NET_OFFLINE=true CARGO_TARGET_DIR=$WT/target
lid=$(echo $ID | tr 'A-Z' 'a-z' | cut -d- -f1)
DEMO=seed_demo_$lid
F=""; [ -n "$FEAT" ] && F="--features $FEAT"
{
echo "== patch reverses cleanly on the changed tree"; git apply -R --check seed/patch.diff && echo patch_ok=1
echo "== demo with change"
cargo test -p $CRATE --offline $F --test $DEMO -j 8 2>&1 | tail -5; echo "demo_with_rc=${PIPESTATUS[0]}"
echo "== demo without change"
git apply -R seed/patch.diff || echo REVERT_FAILED
cargo test -p $CRATE --offline $F --test $DEMO -j 8 2>&1 | tail -5; echo "demo_without_rc=${PIPESTATUS[0]}"
git apply seed/patch.diff || echo REAPPLY_FAILED
echo "== suite with change (default features)"
cargo nextest run -p $CRATE --offline --no-fail-fast --build-jobs 8 --test-threads 8 -E "not binary($DEMO)" 2>&1 | grep -E "Summary|FAIL " | sort -u | tail -8
if [ "$CRATE" = warp-core ]; then
echo "== suite with change (features)"
cargo nextest run -p $CRATE --offline --no-fail-fast --build-jobs 8 --test-threads 8 --features native_rule_bootstrap,trusted_runtime,host_test -E "not binary($DEMO)" 2>&1 | grep -E "Summary|FAIL " | sort -u | tail -8
fi
} > $WT/confirm.log 2>&1
cat $WT/confirm.log
