#!/bin/bash
# usage: confirm_shared.sh <ID> <crate> [demo features]
# Confirms the seeded change of /tmp/wt-<ID>/seed in ONE shared scratch worktree at /repo HEAD
# (/tmp/wt-confirm, target /tmp/wt-confirm/target, no debuginfo, no incremental) so that disk use
# stays bounded: demo with the change (must fail), demo without (must pass), the crate's suite
# with the change (default features; for warp-core also the feature run).
# Writes /tmp/wt-<ID>/confirm.log
ID=$1; CRATE=$2; FEAT=${3:-}
SRC=/tmp/wt-$ID/seed
WT=/tmp/wt-confirm
[ -d $WT ] || git -C /repo worktree add --detach $WT HEAD >/dev/null 2>&1 || exit 2
cd $WT || exit 2
git checkout -q --detach $(git -C /repo rev-parse HEAD) && git checkout -q -- . && git clean -fdq -e target
export CARGO_NET_OFFLINE=true CARGO_TARGET_DIR=$WT/target CARGO_INCREMENTAL=0 CARGO_PROFILE_DEV_DEBUG=0 CARGO_PROFILE_TEST_DEBUG=0
lid=$(echo $ID | tr 'A-Z' 'a-z' | cut -d- -f1)
DEMO=seed_demo_$lid
F=""; [ -n "$FEAT" ] && F="--features $FEAT"
PLACE=$(python3 -c "import json;print(json.load(open('$SRC/meta.json')).get('demo_place') or '')")
[ -n "$PLACE" ] || PLACE=crates/$CRATE/tests/$DEMO.rs
{
echo "== base $(git rev-parse --short HEAD); patch applies to /repo HEAD"; git apply --check $SRC/patch.diff && echo patch_ok=1
mkdir -p $(dirname $PLACE); cp $SRC/demo/$(basename $PLACE) $PLACE
echo "== demo without change"
cargo test -p $CRATE --offline $F --test $DEMO -j 8 2>&1 | tail -5; echo "demo_without_rc=${PIPESTATUS[0]}"
git apply $SRC/patch.diff || echo APPLY_FAILED
echo "== demo with change"
cargo test -p $CRATE --offline $F --test $DEMO -j 8 2>&1 | tail -5; echo "demo_with_rc=${PIPESTATUS[0]}"
echo "== suite with change (default features)"
cargo nextest run -p $CRATE --offline --no-fail-fast --build-jobs 8 --test-threads 8 -E "not binary($DEMO)" 2>&1 | grep -E "Summary|FAIL " | sort -u | tail -8
if [ "$CRATE" = warp-core ]; then
echo "== suite with change (features)"
cargo nextest run -p $CRATE --offline --no-fail-fast --build-jobs 8 --test-threads 8 --features native_rule_bootstrap,trusted_runtime,host_test -E "not binary($DEMO)" 2>&1 | grep -E "Summary|FAIL " | sort -u | tail -8
fi
git checkout -q -- . ; git clean -fdq -e target
} > /tmp/wt-$ID/confirm.log 2>&1
cat /tmp/wt-$ID/confirm.log
