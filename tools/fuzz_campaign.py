#!/usr/bin/env python3
"""Coverage-guided (libFuzzer) campaigns over the codec registry, as the last step of the
thorough tier of C12 (mode "law") and C13 (mode "total").

usage: fuzz_campaign.py <C12|C13> [--tier quick|thorough] [--runs N]

Per codec two campaigns: one starting from the encoder-produced seeds, one from an empty corpus.
Fixed work (-runs), pinned -seed from VERIF_SEED, fresh corpus directories under /verif/target.
Exit 0 = nothing found, 1 = VIOLATION line printed (artifact copied to /verif/replays),
2 = inconclusive (build trouble, rss-limit OOM, unconfirmed timeout).
The numbers are merged into /verif/evidence/<id>.json under sub_checks["libfuzzer-coverage-guided"].
"""
import concurrent.futures
import hashlib
import json
import os
import re
import shutil
import subprocess
import sys
import time

VERIF = "/verif"
FUZZ_DIR = f"{VERIF}/harness/fuzz"
TARGET_DIR = f"{VERIF}/target/fuzz"
BIN = f"{TARGET_DIR}/x86_64-unknown-linux-gnu/release/codec_any"
CODEC_BIN = f"{VERIF}/target/release/vc_codec"


def main():
    prop = sys.argv[1]
    tier = "quick"
    runs = None
    a = sys.argv[2:]
    i = 0
    while i < len(a):
        if a[i] == "--tier":
            tier = a[i + 1]
            i += 1
        elif a[i] == "--runs":
            runs = int(a[i + 1])
            i += 1
        elif a[i] in ("--replay", "--sub"):
            return 0  # replays and single sub-checks belong to the proptest binary
        i += 1
    if tier != "thorough":
        return 0
    mode = {"C12": "law", "C13": "total"}[prop]
    seed = int(os.environ.get("VERIF_SEED", "0") or 0)
    runs = runs or int(os.environ.get("VERIF_FUZZ_RUNS", "100000"))
    t0 = time.time()
    env = dict(os.environ, CARGO_NET_OFFLINE="true")
    log = f"{VERIF}/target/build-fuzz.log"
    with open(log, "w") as f:
        r = subprocess.run(["cargo", "+nightly", "fuzz", "build", "--fuzz-dir", FUZZ_DIR, "--target-dir", TARGET_DIR, "codec_any"], cwd=FUZZ_DIR, env=env, stdout=f, stderr=subprocess.STDOUT)
    if r.returncode != 0 or not os.path.exists(BIN):
        print(f"inconclusive: fuzz target build failed (see {log})", file=sys.stderr)
        return 2
    codecs = [l.split() for l in subprocess.run([CODEC_BIN, "--list-codecs"], capture_output=True, text=True, check=True).stdout.splitlines() if l.strip()]
    work = f"{VERIF}/target/fuzz-run/{prop}"
    shutil.rmtree(work, ignore_errors=True)
    os.makedirs(work)
    subprocess.run([CODEC_BIN, "--dump-seeds", f"{work}/seeds"], check=True)

    jobs = []
    for name, kind in codecs:
        for start in ("seeded", "empty"):
            jobs.append((name, kind, start))

    def run(job):
        name, kind, start = job
        d = f"{work}/{name}.{start}"
        os.makedirs(f"{d}/corpus")
        os.makedirs(f"{d}/art")
        if start == "seeded":
            sd = f"{work}/seeds/{name}"
            for fn in sorted(os.listdir(sd)) if os.path.isdir(sd) else []:
                if os.path.getsize(f"{sd}/{fn}") <= 16384:
                    shutil.copy(f"{sd}/{fn}", f"{d}/corpus/{fn}")
        max_len = 8192 if name in ("wal.segment", "wsc.file") else 4096
        # the host boundary targets build a kernel per input: a fifth of the runs
        n_runs = max(1000, runs // 5) if name.startswith("host.") else runs
        e = dict(env, VERIF_FUZZ_CODEC=name, VERIF_FUZZ_MODE=mode, VERIF_FUZZ_STATS=f"{d}/stats", RUST_BACKTRACE="0", ASAN_OPTIONS="quarantine_size_mb=32:detect_leaks=0")
        # libFuzzer: -seed=0 means "random"; remap
        cmd = [BIN, f"{d}/corpus", f"-runs={n_runs}", f"-seed={seed * 2 + 1 + (0 if start == 'seeded' else 1000003)}", f"-max_len={max_len}", "-len_control=0", "-timeout=60", "-report_slow_units=50", "-rss_limit_mb=8192", f"-artifact_prefix={d}/art/", "-print_final_stats=1", "-verbosity=1"]
        if mode == "total":
            cmd.append("-malloc_limit_mb=64")
        with open(f"{d}/log", "w") as f:
            r = subprocess.run(cmd, env=e, stdout=f, stderr=subprocess.STDOUT)
        txt = open(f"{d}/log", errors="replace").read()
        cov = re.findall(r"cov: (\d+) ft: (\d+) corp: (\d+)", txt)
        execs = accepted = distinct = 0
        if os.path.exists(f"{d}/stats"):
            execs, accepted, distinct = [int(x) for x in open(f"{d}/stats").read().split()]
        else:
            m = re.search(r"stat::number_of_executed_units: (\d+)", txt)
            execs = int(m.group(1)) if m else 0
        arts = sorted(os.listdir(f"{d}/art"))
        return dict(codec=name, kind=kind, start=start, rc=r.returncode, execs=execs, accepted=accepted, distinct_accepted=distinct, cov=int(cov[-1][0]) if cov else 0, features=int(cov[-1][1]) if cov else 0, corpus=int(cov[-1][2]) if cov else 0, artifacts=arts, dir=d, log=txt[-4000:])

    with concurrent.futures.ThreadPoolExecutor(max_workers=int(os.environ.get("VERIF_JOBS", "16"))) as ex:
        results = list(ex.map(run, jobs))

    violations = []
    inconclusive = []
    os.makedirs(f"{VERIF}/replays", exist_ok=True)
    for r in results:
        for art in r["artifacts"]:
            if art.startswith("slow-unit-"):
                continue  # a unit slower than 50 s but within the 60 s timeout: load, not a verdict
            src = f"{r['dir']}/art/{art}"
            verdict = classify(r, art, src, env, mode)
            if verdict == "violation":
                h = hashlib.sha1(open(src, "rb").read()).hexdigest()[:12]
                dst = f"{VERIF}/replays/{prop}-fuzz-{r['codec']}-{h}.bin"
                shutil.copy(src, dst)
                with open(dst + ".txt", "w") as f:
                    f.write(f"codec={r['codec']} mode={mode}\nreplay: VERIF_FUZZ_CODEC={r['codec']} VERIF_FUZZ_MODE={mode} {BIN} {dst}\n\n{r['log']}\n")
                violations.append((r, dst))
            else:
                inconclusive.append(f"{r['codec']}/{r['start']}: {art}: {verdict}")
        if r["rc"] != 0 and not r["artifacts"]:
            inconclusive.append(f"{r['codec']}/{r['start']}: fuzzer exited {r['rc']} without an artifact")

    sub = dict(
        cases=len(results),
        evaluations=sum(r["execs"] for r in results),
        distinct_nontrivial=sum(r["distinct_accepted"] for r in results),
        exhaustive=False,
        known_findings_matched={},
        wall_s=round(time.time() - t0, 2),
        classes={f"{r['codec']}/{r['start']}": dict(execs=r["execs"], accepted=r["accepted"], distinct_accepted=r["distinct_accepted"], cov_edges=r["cov"], features=r["features"], corpus=r["corpus"]) for r in results},
        rule=f"libFuzzer (cargo-fuzz, ASan, debug assertions on) in-process target codec_any, mode={mode}: per codec one campaign from the encoder-produced seeds and one from an empty corpus, -runs={runs} each (a fifth for host.* targets), -len_control=0, max_len 4096 (8192 for wal.segment, wsc.file). Non-trivial = input the decoder accepted, distinct by bytes within a campaign.",
    )
    merge_evidence(prop, sub, len(violations), inconclusive)
    print(f"fuzz[{prop}/{mode}]: {len(results)} campaigns, {sub['evaluations']} executions, {sub['distinct_nontrivial']} distinct accepted inputs, {len(violations)} violations, {len(inconclusive)} inconclusive, {sub['wall_s']} s")
    for r, dst in violations:
        print(f"VIOLATION property={prop} replay={dst}")
    if violations:
        return 1
    if inconclusive:
        for m in inconclusive:
            print(f"inconclusive: {m}", file=sys.stderr)
        return 2
    return 0


def classify(r, art, src, env, mode):
    log = r["log"]
    if art.startswith("crash-"):
        return "violation"
    if art.startswith("oom-"):
        if "out-of-memory (malloc(" in log:
            return "violation"  # one allocation above 64 MiB for an input of at most 8 KiB
        return "rss limit reached (not attributed)"
    if art.startswith("timeout-"):
        e = dict(env, VERIF_FUZZ_CODEC=r["codec"], VERIF_FUZZ_MODE=mode)
        try:
            p = subprocess.run([BIN, src, "-timeout=120"], env=e, capture_output=True, timeout=200)
            if b"ERROR: libFuzzer: timeout" in p.stderr:
                return "violation"
            return "timeout under load, input finishes alone"
        except subprocess.TimeoutExpired:
            return "violation"
    return f"unexpected artifact {art}"


def merge_evidence(prop, sub, nviol, inconclusive):
    p = f"{VERIF}/evidence/{prop}.json"
    try:
        ev = json.load(open(p))
    except Exception:
        return
    if ev.get("tier") != "thorough":
        return
    cov = ev["coverage"]
    cov.setdefault("sub_checks", {})["libfuzzer-coverage-guided"] = sub
    cov["evaluations"] = cov.get("evaluations", 0) + sub["evaluations"]
    cov["distinct_nontrivial"] = cov.get("distinct_nontrivial", 0) + sub["distinct_nontrivial"]
    cov.setdefault("inconclusive", []).extend(inconclusive)
    ev["violations"] = ev.get("violations", 0) + nviol
    ev["wall_s"] = round(ev.get("wall_s", 0) + sub["wall_s"], 2)
    tmp = p + ".tmp"
    with open(tmp, "w") as f:
        json.dump(ev, f, indent=1, sort_keys=True)
    os.replace(tmp, p)


if __name__ == "__main__":
    sys.exit(main())
