#!/usr/bin/env python3
"""Regenerate /verif/MANIFEST.json from the table below (single source of truth)."""
import json, os, sys
ROOT = os.path.dirname(os.path.dirname(os.path.abspath(__file__)))

CHECKS = {
 "C17": ("fault_enumeration",
         "stateful model-based property testing (generated operation histories over request ids against a reference lifecycle map) with crash-and-recover steps and store-fault injection at a frame append, at the commit flush and after the flush (lost acknowledgement) through a WalStorePort wrapper; oracle = reference model of the requested->claimed->settled prefix, flush journal (durable before returned), recovered-coordinator equality, exact-once transaction counts",
         "Every request/claim/settle/retry/observe operation with valid and invalid arguments (one invalid aspect at a time), with reconstructed and with stale tokens and grants, gets the outcome class the lifecycle model predicts; grants are returned only after their commit reached the store; at most one claim per id; settlements only for the claimed attempt within bounds; refused steps and retries append nothing; after any crash, store failure or lost acknowledgement the recovered coordinator equals the model (before or after the interrupted step as the log dictates) and the incrementally maintained coordinator equals the one rebuilt from the log, including the index root; an interrupted step can be re-issued exactly once.",
         "In-memory store behind the public WalStorePort trait; v1 accepts attempt budget 1 only.",
         "DESIGN.md §4 C17"),
 "C10": ("fault_enumeration",
         "property-based workloads on a real host with a filesystem WAL + crash-point enumeration (every byte-length prefix for the byte-level reader; every transaction boundary +-1, frame boundaries, mid-frame and sampled lengths for a fresh host, each with the side-file versions that can coexist) + store-fault injection (FilesystemWalFaultPlan at a generated writing operation); oracle = committed prefix computed by the harness from the documented record framing, acknowledged-facts ledger recorded after every operation, executor counter, idempotence, continuation equivalence with the uninterrupted run",
         "For generated submit/retry/stage/tick workloads on a TrustedRuntimeHost: recovery of every cut succeeds, runs no rule, returns exactly the transactions wholly below the cut with a Clean tail only at transaction boundaries, restores every fact acknowledged at that prefix (submission ids, outcomes with receipt references, frontier ticks, state roots, hash chains) and nothing later, is idempotent, and the recovered host - after re-issuing volatile staging - finishes the script with the uninterrupted run's facts and answers every earlier envelope as a duplicate without appending. A failing store call leaves facts and in-memory renderings unchanged and the directory it leaves recovers the same way.",
         "Crash model: segment = byte prefix, side files = old or new version. Facts produced after a recovery are compared modulo the volatile runtime cycle stamp (a pass that commits nothing advances it in memory only). Multi-worldline ticks are refused by the filesystem WAL and end a workload.",
         "DESIGN.md §4 C10"),
 "C11": ("fault_enumeration",
         "systematic mutation of logs produced by real-host workloads (sampled bit flips / byte overwrites / aligned zeroing; record- and transaction-level deletion, duplication, swap and cross-log transplant through the harness's own framing parser; side-file bit flips; every single bit of small logs) against three readers (byte-level, filesystem + doctor, fresh host); oracle = typed error or transaction-by-transaction, frame-by-frame prefix of the committed history, plus acknowledged facts for an activating host",
         "Each reader must refuse a damaged log with a typed error or return a history that is exactly a prefix of what was committed; a host that activates must hold exactly the facts acknowledged at that prefix; no reader may panic. Two findings at the generic readers (no verification of the previous-commit digest, no genesis anchor: leading-transaction removal and chain-breaking splices are accepted) are listed in known_findings.json and excluded by signature; the host-level consumer and the duplicate-marker / orphaned-frames cases were repaired upstream.",
         "Transplants that lawfully chain to a transaction of the target log (the two runs share that prefix) and whole-log replacement produce valid logs of another run and are not mutants.",
         "DESIGN.md §4 C11"),
 "C15": ("exploration",
         "property-based testing over generated fork/tick/settle histories driven through the real runtime (fork_strand, super_tick, SettlementService): prefix-equality and basis-pinning oracle at every fork, fault injection by invalid fork requests and by pre-binding the plan's plural id (rollback fingerprint oracle), lane isolation as a metamorphic relation (drop one lane class's submissions, compare the other lanes' hash chains), plan purity/determinism, reference slot-set classification of parent movement, per-decision slot-value oracles (import takes the strand's values, retained artifacts leave the root unchanged, no parent-written slot changes), parent replays from U0",
         "One or two strands (incl. chains, AuthorOnly strands, support pins) are forked at generated ticks from generated histories and ticked interleaved with their parents by the ordinary scheduler; every strand is compared, planned and settled under both plural policies. Fork copies exactly the prefix and pins the recorded commit with fresh heads; invalid forks and failed settlements change nothing observable; neither lane class influences the other's per-tick roots, commit ids and patch digests; planning is pure and deterministic; clean suffixes on unmoved or disjointly moved parents are fully imported; imports give the parent the strand's values on the slots its ops wrote; conflict/plural entries leave the parent state unchanged and block later imports; no slot the parent wrote since the anchor changes value; the parent stays replayable to its live state.",
         "Retries/restarts excluded from these scripts; port slots not compared; failure injection into settlement needs a plural decision in the plan.",
         "DESIGN.md §4 C15"),
 "C16": ("exploration",
         "property-based testing over generated histories and generated request lists: before/after fingerprint oracle around every read, repeat-equality (determinism), reference ledger + replayed-state oracle for every successful reading, metamorphic relation 'later commits and forks do not change a historical reading', typed-refusal oracle for every invalid/unavailable request shape",
         "Observation and optic requests of every frame/projection/coordinate/aperture/budget shape are served twice against generated multi-worldline histories, then again after further commits and a fork: nothing observable in runtime, provenance or engine changes around a read; repeats are identical including the artifact hash and distinct artifacts never share one; resolved tick, commit id, state root, commit stamp, recorded outputs and query bytes equal the harness's commit-time ledger and the replayed state; historical readings are content-stable; invalid or unavailable requests get the documented typed refusal, never a reading; bounded readings respect their budget.",
         "The asking-time freshness stamp is excluded from cross-time comparison (by design of the API). Query observers are harness code that answer from the resolved coordinate handed to them.",
         "DESIGN.md §4 C16"),
 "C08": ("exploration",
         "property-based testing: identity laws of the ingress id; arrival-order/retry metamorphic relation over rounds of submissions with exhaustive permutations for small rounds; reference inbox model; history invariants (at-most-once, conservation) over generated scripts",
         "Ingress ids depend only on (kind, bytes, parent set); for fixed per-round sets of intents every arrival order and retry pattern yields identical dispositions, StepRecords, pending counts, state fingerprints and provenance; a reference inbox predicts committed heads, batch sizes and which intents run; across histories no (head, intent) commits twice and accepted = pending + admitted at every step.",
         "Runtime driven through its public API; intents carry data-driven programs guarded by structural preconditions (an intent may run against a later state than it was written for).",
         "DESIGN.md §4 C08"),
 "C09": ("fault_enumeration",
         "fault injection by generated program (six failure kinds) at a generated position among runnable heads, with a before/after fingerprint oracle over every field of the runtime and provenance renderings, plus ordering invariants of successful passes",
         "A failing head at any position makes the whole pass fail, leaves every runtime/provenance field except the documented fault evidence byte-identical, records exactly one fault with the documented scope, quarantines exactly what the scope says until trusted recovery, and later honest passes commit runnable heads in canonical order with +1 tick per head and +1 global tick; history remains replayable.",
         "Field-wise comparison uses the derived Debug renderings of WorldlineRuntime and ProvenanceService; tick overflow not injected.",
         "DESIGN.md §4 C09"),
 "C05": ("fault_enumeration",
         "systematic mutation of generated histories: a 40-field alteration catalogue applied at every tick (exhaustive for short histories) through a ProvenanceStore wrapper and through rebuilt services, plus structural edits and checkpoint alterations; oracle = typed error or identical verified result",
         "Generated multi-head histories are first verified untampered (commit-id binding, parent = previous tip, gap-free, every BTR segment, append refusal of gaps/duplicates/unknown parents); then every single-field alteration and structural edit must be rejected with a typed error or produce exactly the original verified result (per-tick hash triple + parents, final root, store content). Unbound metadata fields are tallied, not flagged.",
         "Tamper wrappers use the public ProvenanceStore trait; suffix bundles not yet covered.",
         "DESIGN.md §4 C05"),
 "C07": ("exploration",
         "property-based testing over generated histories with exhaustive enumeration of (start, target, checkpoint subset) for short histories, random cursor walks and forks; oracle = checkpoint-free replay, harness-side patch fold and the live ledger",
         "Every seek path, checkpoint subset and fork must materialise the same WorldlineState as a checkpoint-free replay, which must equal the harness's own fold of patches from U0 and the state/hashes the live runtime held at that tick.",
         "Live content is observable at pass boundaries only (intermediate ticks of a pass are compared on hashes).",
         "DESIGN.md §4 C07"),
 "C20": ("fault_enumeration",
         "stateful model-based property testing (proptest op sequences against a reference map) + enumeration of file-level faults on the disk tier + model test of the semantic retention index",
         "MemoryTier and DiskTier are driven by generated op sequences (incl. reopen) and compared with a reference map after every step; every stored file of generated disk stores is corrupted by byte flips, truncation at every (or 40 evenly spaced) lengths, extension, replacement, deletion and stray temp files - get must return the exact content, absence or a typed HashMismatch; RetainedBlobIndex is checked against a coordinate map incl. conflicts, aliasing, ranges, budgets and missing material.",
         "Covers the content-addressed tiers and echo-cas retention; the WSC/WAL export-profile re-import half of the property is not covered by this check yet (stated in evidence assumptions).",
         "DESIGN.md §4 C20"),
 "C19": ("exploration",
         "differential testing across three build profiles of one harness binary over integer-indexed input streams (stratified 2^24 sample / all 2^32 bit patterns for unary ops; specials grid + seeded tuples for n-ary ops), digest comparison with bisection to the minimal input; single-build invariant checks (canonical closure, odd/even symmetry, range)",
         "Every public scalar/trig/fixed-point/PRNG/vector/quaternion/matrix operation is evaluated in dev (opt 0 + debug assertions), release (opt 3) and the repo's size-optimised release profile; output bit patterns must agree on every input and no profile may panic on a finite in-domain input; every F32Scalar result must be canonical (+0, no subnormal, canonical NaN), sin exactly odd, cos exactly even, both in [-1,1]. Thorough tier is exhaustive over all 2^32 inputs for unary operations.",
         "x86-64 only. Vec3/Quat/Mat4 inputs restricted to their documented finite domain with |x| < 2^40 (no overflowing intermediates); non-finite inputs to debug-asserting functions are tallied, not judged.",
         "DESIGN.md §4 C19"),
 "C12": ("exploration",
         "property-based testing (proptest) of round-trip laws over generated values; exhaustive enumeration of all byte strings <=3 bytes; structure-aware CBOR mutation and byte-level mutation of valid encodings against the accepted-implies-canonical oracle; thorough tier adds coverage-guided libFuzzer campaigns (cargo-fuzz, ASan) per codec with the same oracle inside the target",
         "Law A (decode(encode(v)) = normal form, deterministic encoder) over generated values of each codec's domain and Law B (accepted bytes re-encode to themselves) over every byte string up to 3 bytes (CBOR value codecs) / 2 bytes (all canonical-form codecs), structure-aware mutants and byte mutants of encoder-produced seeds for 19 canonical-form codecs; round-trip-only group checked on accepted mutants. Exploration beyond the exhaustive short strings.",
         "Documented normal forms are taken from canonical.rs / js-cbor-mapping.md; DTO-level Law B is not claimed; WAL records not constructible from public fields (TopologyBraidEvent, TopologyIntent, RuntimeStateDelta) are not yet covered here.",
         "DESIGN.md §4 C12"),
 "C13": ("exploration",
         "adversarial template grid + seeded byte-mutation fuzzing of every decoder in an isolated child process with a counting allocator; oracle = typed result, no panic/abort/stack overflow/hang, peak allocation proportional to input; thorough tier adds coverage-guided libFuzzer campaigns (cargo-fuzz, ASan, 64 MiB single-allocation limit) per codec, from encoder seeds and from an empty corpus",
         "32 byte-level entry points (25 codecs/readers + 7 warp-wasm host boundary entry points against a freshly installed engine kernel) fed declared-length bombs in every length position, nested admissible lengths (depth x count amplification), nesting depth up to 10^6, every truncation cut, 1 MiB inputs, seeded mutants and random bytes; each input's outcome and peak live allocation measured in a sandboxed child; any panic, process death, 20 s silence or allocation above 1 MiB + 1024 x len is a violation with the minimised input as replay file.",
         "1024x proportionality constant, the eintlog MAX_FRAME_LEN cap, the Edict decoder's documented node budget and a 32 MiB allowance for the host boundary entry points (they run a kernel, not only a decoder) are stated assumptions; the wasm-only exports are exercised through their bodies (request decoding + KernelPort method) because js_sys::Uint8Array cannot run natively.",
         "DESIGN.md §4 C13"),
 "C06": ("exploration",
         "property-based testing (proptest): construction-order/history metamorphic relations, single-mutation injectivity against an independent reachability reference, birthday-bucket collision search, three-way root differential (store / worldline+engine / columnar accumulator), WSC round trip",
         "Generated multi-instance states: equal roots and WSC bytes across construction orders and detours; root changes exactly when the independently computed reachable content changes under single semantic mutations; no two reachable contents share a root within a run; WorldlineState, Engine and the accumulator agree; WSC bytes read back to the same store. Exploration over sampled states.",
         "Reachability reference written from merkle-commit.md; accumulator reached through the echo_verif hook.",
         "DESIGN.md §4 C06"),
 "C14": ("exploration",
         "property-based fault injection (one omitted footprint entry / cross-warp op / instance op per generated honest tick, scripted worker placement) + exhaustive op-by-op differential of attributed write targets against observable change",
         "Honest generated ticks commit under enforcement; the same tick with exactly one dishonest rewrite must unwind with a FootprintViolation payload naming that access, leave state/ledger/root untouched, and the honest tick must then commit identically. All 38 non-instance ops over every micro-universe state: each GraphView-observable change must be covered by op_write_targets. One known finding (re-parenting UpsertEdge does not attribute the previous source) is listed in known_findings.json.",
         "Honest attribution is my reading of the documented contract; instance-level ops excluded from the attribution differential.",
         "DESIGN.md §4 C14"),
 "C04": ("exploration",
         "property-based testing (proptest): replay round-trip oracle over generated tick sequences; diff/apply oracle over sampled ordered pairs of an enumerated micro-universe and over mutation-walk pairs",
         "Every patch committed by generated tick sequences must replay (apply_to_state, apply_to_worldline_state, jump_to_tick) to exactly the produced state and root, and the commit id must bind root/parents/patch digest/policy; for ordered state pairs apply(diff(a,b),a) must be Ok(b) or a typed error - never a third state. Exploration: sampled (micro-universe of 9 930 states has 98.6M ordered pairs; thorough samples 20M).",
         "Uses the echo_verif diff_state wrapper for pairs not reachable through one tick. State equality = public-accessor dump.",
         "DESIGN.md §4 C04"),
 "C01": ("exploration",
         "property-based testing (proptest): enqueue-permutation metamorphic relation + independent reference tick model + remove-rejected metamorphic relation + scheduler differential",
         "Generated multi-instance states and data-driven rewrite programs (DSL interpreted by fixed fn-pointer rules), candidate sets on both sides of the 1024 threshold (incl. exactly 1023/1024/1025), k enqueue permutations with duplications each: snapshot, receipt, patch and state dump must be bit-equal; receipt, post-state and the set of changed slots must equal an independent reference model written from the spec; dropping rejected candidates must change nothing but the receipt; Radix and Legacy must agree. Exploration: sampled, seeded, shrinking to a replay file.",
         "Trusts the reference model M (~300 lines, written from docs/spec) and the generator's soundness restrictions (documented in DESIGN §2.2); runs with footprint enforcement on.",
         "DESIGN.md §4 C01"),
 "C02": ("exploration",
         "property-based testing with an owned schedule: exhaustive enumeration of (unit->worker assignment x claim order) via the echo_verif scripted-schedule hook, sampled schedules for large ticks, real-thread differential, execution-policy differential",
         "Every run of the same tick under every enumerated/sampled worker schedule, under real racing threads (1..=32 workers) and under all five execution policies must be bit-identical to the serial run. Exhaustive for ticks with few work units (bounded by 900/7000 schedules per tick), sampled beyond.",
         "Relies on the read-verified fact that workers share only the claim counter and an immutable store; real-thread runs observe whichever interleaving the OS picks.",
         "DESIGN.md §4 C02"),
 "C03": ("exploration",
         "exhaustive enumeration of small footprint universes (pairs, triples) + property-based testing of large sets and adversarial sort keys, against a reference greedy/sort oracle; Radix vs Legacy differential",
         "All ordered pairs (108x2 footprints; two-instance footprints) and all 531 441 triples over the single-instance universe decide accept/reject and exact blocker lists against a reference predicate, under both scheduler kinds and two sound mask encodings; generated key sets up to 5000 entries with differences confined to a single radix digit check the drain order and last-wins payloads against a plain sort.",
         "Uses the echo_verif SchedProbe hook (thin wrapper over the real queue/reserve code). Reference predicate written from the property text.",
         "DESIGN.md §4 C03"),
 # id: (category, technique, text, note, design_ref)
 "C18": ("exploration",
         "property-based testing (proptest): permutation metamorphic relation + independent reference fold; exhaustive permutations <=7; enumerated reducer law",
         "Generated emission sets x all 10 channel policies; every permutation of sets up to 7 emissions and sampled permutations up to 40; FinalizeReport, emissions digest, frame v1/v2 encodings compared bit-for-bit across orders and against a reference fold written from the docs; re-keying invariance for commutative reducers; duplicate (channel,key) always rejected. Exploration, not proof: absence is only established for the enumerated reducer alphabet.",
         "Trusts the harness's reference fold (40 lines) and proptest's generators; bus is driven through its public API only.",
         "DESIGN.md §4 C18"),
}

def main():
    props = [json.loads(l) for l in open(os.path.join(ROOT, "properties.jsonl"))]
    checks, na = [], []
    for p in props:
        pid = p["id"]
        if pid in CHECKS:
            cat, tech, text, note, ref = CHECKS[pid]
            checks.append({
                "property_id": pid,
                "quick_cmd": f"./check {pid} --tier quick",
                "thorough_cmd": f"./check {pid} --tier thorough",
                "evidence_file": f"/verif/evidence/{pid}.json",
                "replay_cmd_template": f"./check {pid} --replay {{path}}",
                "engine": "vkit",
                "level_claimed": {"category": cat, "text": text, "design_ref": ref},
                "level_note": note,
                "technique": tech,
            })
        else:
            na.append({"property_id": pid, "reason": "check not built yet in this session (work in progress; designed in DESIGN.md §4) — not a statement that the technique cannot apply"})
    hooks_commits = []
    hc = os.path.join(ROOT, "hooks_commits.txt")
    if os.path.exists(hc):
        hooks_commits = [l.split()[0] for l in open(hc) if l.strip()]
    m = {
        "version": 1,
        "setup_cmd": "./setup.sh",
        "hooks": {
            "guard": "cargo feature `echo_verif` on crates warp-core and warp-wasm (off by default)",
            "enable": "harness crates depend on /repo/crates/warp-core with features [native_rule_bootstrap, trusted_runtime, host_test, footprint_enforce_release, echo_verif] and on /repo/crates/warp-wasm with features [engine, echo_verif]; built by ./check via cargo build --release in /verif/harness",
            "baseline_off_cmd": "cd /repo && cargo nextest run --workspace --no-fail-fast --test-threads 8 --offline || cargo test --workspace --no-fail-fast --offline",
            "source_commits": hooks_commits,
            "add_only": True,
        },
        "engines": [
            {"name": "vkit", "path": "/verif/harness", "serves_properties": sorted(CHECKS),
             "kind_free_text": "Rust property-based-testing harness: proptest TestRunner with fixed ChaCha seed from VERIF_SEED, process-sharded over 16 cores, shrinking to replay JSON, RNG-free exhaustive enumerators for small finite domains, reference models written from the docs; plus cargo-fuzz (libFuzzer) targets under /verif/harness/fuzz for byte-level decoders"},
        ],
        "checks": checks,
        "not_applicable": na,
        "notes": "All checks: exit 0 held / 1 VIOLATION line + replay file / 2 inconclusive (build failure, watchdog). Known findings and fixed defects: /verif/known_findings.json.",
    }
    json.dump(m, open(os.path.join(ROOT, "MANIFEST.json"), "w"), indent=1)
    print("checks:", [c["property_id"] for c in checks], "na:", len(na))

main()
