#!/bin/bash
# usage: try_mutant.sh <patch.diff> <check id>...
# Applies a seeded change to /repo, BUILDS the named checks into their own target directory
# (/verif/target-mut) and reverts /repo straight afterwards — all under the exclusive tree lock, so
# no other check compiles the changed tree — then runs the built checks (quick tier) with their
# evidence and replays diverted to /verif/target-mut, so the committed evidence of /repo itself is
# never touched by a trial.
P=$1; shift
cd /verif
export VERIF_TARGET=/verif/target-mut VERIF_EVIDENCE_DIR=/verif/target-mut/evidence VERIF_REPLAY_DIR=/verif/target-mut/replays
mkdir -p /verif/target $VERIF_TARGET
rm -rf $VERIF_REPLAY_DIR
(
  flock -x 9
  git -C /repo apply --check "$P" || { echo "PATCH DOES NOT APPLY"; exit 3; }
  git -C /repo apply "$P"
  for id in "$@"; do
    VERIF_HOLDS_TREE_LOCK=1 VERIF_BUILD_ONLY=1 ./check $id 9>&- || echo "[$id] BUILD FAILED"
  done
  git -C /repo checkout -- . ; git -C /repo status --short | head -3
) 9>/verif/target/tree.lock || exit $?
for id in "$@"; do
  out=$(VERIF_NO_BUILD=1 ./check $id ${TIER:+--tier $TIER} 2>&1); rc=$?
  echo "[$id] rc=$rc $(echo "$out" | grep -E "^violation" | head -3 | cut -c1-220)"
  echo "$out" | grep -E "^$id tier"
done
rm -rf $VERIF_REPLAY_DIR
