#!/bin/bash
# usage: try_mutant.sh <patch.diff> <check id>...   (applies to /repo, runs checks, reverts)
P=$1; shift
cd /verif
git -C /repo apply --check "$P" || { echo "PATCH DOES NOT APPLY"; exit 3; }
git -C /repo apply "$P"
for id in "$@"; do
  out=$(./check $id 2>&1); rc=$?
  echo "[$id] rc=$rc $(echo "$out" | grep -E "^violation" | head -3 | cut -c1-220)"
  echo "$out" | grep -E "^$id tier" 
done
git -C /repo checkout -- . ; git -C /repo status --short | head -3
rm -rf /verif/replays/C*
